#!/usr/bin/env python3
"""(re)generate mutants/<ID>_<name>.patch from the table below: each is a small realistic edit to
radical.pilot that keeps the repository's own tests green (DESIGN 3.9)."""
import os, subprocess, sys, tempfile, shutil
HERE = os.path.dirname(os.path.dirname(os.path.abspath(__file__)))
S = 'src/radical/pilot/'
M = []
def mut(name, path, old, new, count=1):
    M.append((name, S + path, old, new, count))
exec(open(os.path.join(HERE, 'tools', 'mutants_table.py')).read())
import glob
for f in sorted(glob.glob(os.path.join(HERE, 'vlib', 'c*_mutants.py'))):
    ns = {}
    exec(open(f).read(), ns)
    for m in ns.get('MUTANTS', []):
        mut(*m[:4])
only = sys.argv[1:]
wt = tempfile.mkdtemp(prefix='wt-mut.', dir='/tmp'); os.rmdir(wt)
subprocess.check_call(['git', '-C', '/repo', 'worktree', 'add', '-q', '--detach', wt, 'HEAD'])
try:
    for name, path, old, new, count in M:
        if only and not any(name.startswith(o) for o in only):
            continue
        if os.path.exists(os.path.join(HERE, 'mutants', name + '.patch.equivalent')):
            print('equiv', name); continue
        f = os.path.join(wt, path)
        src = open(f, newline='').read()
        if '\r\n' in src and '\r' not in old:
            old, new = old.replace('\n', '\r\n'), new.replace('\n', '\r\n')
        if src.count(old) != count:
            print('SKIP %s: pattern occurs %d times (want %d)' % (name, src.count(old), count)); continue
        open(f, 'w', newline='').write(src.replace(old, new))
        diff = subprocess.check_output(['git', '-C', wt, 'diff'])
        open(os.path.join(HERE, 'mutants', name + '.patch'), 'wb').write(diff)
        subprocess.check_call(['git', '-C', wt, 'checkout', '-q', '--', '.'])
        print('ok  ', name)
finally:
    subprocess.call(['git', '-C', '/repo', 'worktree', 'remove', '--force', wt])
    shutil.rmtree(wt, ignore_errors=True)
