#!/usr/bin/env python3
"""writes MANIFEST.json from the table below (single source of truth)"""
import json, os
HERE = os.path.dirname(os.path.dirname(os.path.abspath(__file__)))
BASE = ("cd /repo && /venv/bin/python -m pytest -ra -q -p no:cacheprovider --timeout=900 "
        "--continue-on-collection-errors")
ALL = ['C%02d' % i for i in range(1, 21)]

# id -> (technique, level text, level_note, design_ref)
CHECKS = {}
exec(open(os.path.join(HERE, 'tools', 'checks_table.py')).read())

checks = []
for pid in ALL:
    if pid not in CHECKS:
        continue
    tech, text, note, ref = CHECKS[pid]
    checks.append({
        'property_id': pid,
        'quick_cmd': './check %s --tier quick' % pid,
        'thorough_cmd': './check %s --tier thorough' % pid,
        'evidence_file': 'evidence/%s.json' % pid,
        'replay_cmd_template': './check %s --replay {path}' % pid,
        'engine': 'vlib',
        'level_claimed': {'category': 'exploration', 'text': text, 'design_ref': ref},
        'level_note': note,
        'technique': tech,
    })

na = [{'property_id': pid, 'reason': NOT_APPLICABLE.get(pid, 'check not built yet (work in progress); see DESIGN.md section 4')}
      for pid in ALL if pid not in CHECKS]

man = {
    'version': 1,
    'setup_cmd': './setup.sh',
    'hooks': {
        'guard': 'RADICAL_PILOT_VERIF',
        'enable': 'no source hooks: instrumentation is injected from the harness process '
                  '(module globals / ru.zmq replaced in-process); ./check exports RADICAL_PILOT_VERIF=1 (unused by /repo)',
        'baseline_off_cmd': BASE,
        'source_commits': [],
        'add_only': True,
    },
    'engines': [
        {'name': 'vlib', 'path': 'vlib/', 'serves_properties': sorted(CHECKS),
         'kind_free_text': 'seeded Hypothesis generators + exhaustive enumeration over plain-data cases, '
                           'real radical.pilot classes from /repo/src run hollow over in-memory transport, '
                           'collect-then-minimise by violation signature, JSON replay files'},
    ],
    'checks': checks,
    'not_applicable': na,
    'notes': 'All checks import radical.pilot from /repo/src on every run (no build step). '
             'Exit 0 = held on everything explored, 1 = VIOLATION line, 2 = harness error. '
             'known_findings.json lists open findings (KNOWN-FINDING lines) and fixed ones.',
}
with open(os.path.join(HERE, 'MANIFEST.json'), 'w') as f:
    json.dump(man, f, indent=1)
    f.write('\n')
print('MANIFEST: %d checks, %d not_applicable' % (len(checks), len(na)))
