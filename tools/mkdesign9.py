#!/usr/bin/env python3
"""regenerates the tables of DESIGN.md section 9.3 / 9.4 / 9.5 from known_findings.json, seeded/*/meta.json and mutants/"""
import json, glob, os, re
HERE = os.path.dirname(os.path.dirname(os.path.abspath(__file__)))
os.chdir(HERE)
kf = json.load(open('known_findings.json'))['findings']
fixed = [f for f in kf if f['status'] == 'fixed']
openf = [f for f in kf if f['status'] == 'open']
seeds = [(os.path.basename(d), json.load(open(d + '/meta.json'))) for d in sorted(glob.glob('seeded/*'))]
muts = sorted(os.listdir('mutants'))
bypid = {}
for m in muts:
    bypid.setdefault(m.split('_')[0], []).append(m)
why = {'C04': 'needs a change of the wait-pool algorithm / of ru.lazy_bisect (radical.utils), not a small patch',
       'C09': 'launcher CLI semantics cannot be validated offline (APRUN/CCMRUN/JSRUN leave placement to the batch system; IBRUN offset and PALS per-host counts need the site tools)',
       'C19': 'which reading of a list-of-lists is right is a design choice; no production caller converts old->new after new->old',
       'C18': 'defect is in the dependency radical.utils (get_hostlist), not in /repo'}

t93 = ['| Property | Commit | What failed |\n|----------|--------|-------------|\n']
seen = set()
for f in fixed:
    k = (f['property'], f['commit'], f['line'])
    if k in seen:
        continue
    seen.add(k)
    t93.append('| %s | %s | %s |\n' % (f['property'], f['commit'], f['line'].split(f['commit'])[1].strip()))
t94 = ['| Property | Signature | What fails | Why not repaired |\n|----------|-----------|------------|------------------|\n']
for f in openf:
    t94.append('| %s | `%s` | %s | %s |\n' % (f['property'], f['signature'], f['what'], why.get(f['property'], '')))
t95a = ['| Seeded change | Property | Result |\n|---------------|----------|--------|\n']
for name, m in seeds:
    t95a.append('| %s | %s | %s |\n' % (name, m['property'], '; '.join('%s %s' % (k, v) for k, v in m['checks'].items())))
t95b = ['| Property | Mutants (all CAUGHT by the quick tier unless marked) |\n|----------|------------------------------------------------------|\n']
for pid in sorted(bypid):
    names = [m.replace('.patch.equivalent', ' [equivalent: not caught]').replace('.patch', '')[len(pid) + 1:] for m in bypid[pid]]
    t95b.append('| %s | %s |\n' % (pid, ', '.join(names)))

s = open('DESIGN.md').read()
def repl_table(s, header_start, new):
    i = s.index(header_start)
    j = i
    lines = s[i:].split('\n')
    n = 0
    for ln in lines:
        if ln.startswith('|'):
            n += 1
        else:
            break
    end = i + len('\n'.join(lines[:n])) + 1
    return s[:i] + ''.join(new) + s[end:]
s = repl_table(s, '| Property | Commit | What failed |', t93)
s = repl_table(s, '| Property | Signature | What fails | Why not repaired |', t94)
s = repl_table(s, '| Seeded change | Property | Result |', t95a)
s = repl_table(s, '| Property | Mutants (all CAUGHT', t95b)
s = re.sub(r'`known_findings.json`: \d+ fixed entries \(one per `fix:` commit and signature\), \d+ open',
           '`known_findings.json`: %d fixed entries (one per `fix:` commit and signature), %d open' % (len(fixed), len(openf)), s)
s = re.sub(r'`mutants/\*.patch` \(\d+, \+ \d+ kept as `.equivalent`\), `seeded/\*/` \(\d+ independently',
           '`mutants/*.patch` (%d, + %d kept as `.equivalent`), `seeded/*/` (%d independently'
           % (len([m for m in muts if m.endswith('.patch')]), len([m for m in muts if m.endswith('.equivalent')]), len(seeds)), s)
open('DESIGN.md', 'w').write(s)
print('DESIGN.md section 9 tables regenerated: %d fixed, %d open, %d seeds, %d mutants' % (len(fixed), len(openf), len(seeds), len(muts)))
