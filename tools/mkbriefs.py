#!/usr/bin/env python3
"""tools/mkbriefs.py <round> : write /tmp/seedbriefs/<ID>.r<round>.txt from the previous round's briefs,
adding the previous round's confirmed changes to the 'already taken' lists (the briefs contain the
property text and change ideas only - nothing about the checks)."""
import sys, os, re, json, glob
rnd = int(sys.argv[1]); prev = rnd - 1
new = {}    # prop -> [(change, files)]
for d in sorted(glob.glob('/verif/seeded/*-r%d-*' % prev)):
    m = json.load(open(d + '/meta.json'))
    files = re.findall(r'^\+\+\+ b/(\S+)', open(d + '/patch.diff').read(), re.M)
    new.setdefault(m['property'], []).append((m['change'], files))
for pid in ['C%02d' % i for i in range(1, 21)]:
    src = open('/tmp/seedbriefs/%s.r%d.txt' % (pid, prev)).read().replace('seed%d-' % prev, 'seed%d-' % rnd)
    lines = src.split('\n')
    i0 = next(i for i, l in enumerate(lines) if l.startswith('Prefer a change'))
    j = i0 + 1
    while j < len(lines) and lines[j].startswith(' - '):
        j += 1
    own_add = [' - ' + c for c, _ in new.get(pid, [])]
    lines[j:j] = own_add
    # files already changed
    mfl = re.search(r'Files already changed by them: (.*?) - prefer a file NOT', lines[i0])
    have = [x.strip() for x in mfl.group(1).split(',')]
    for _, fl in new.get(pid, []):
        for f in fl:
            if f not in have:
                have.append(f)
    lines[i0] = lines[i0].replace(mfl.group(1), ', '.join(sorted(have)))
    if 'Prefer code which takes part' not in lines[i0]: lines[i0] = lines[i0].replace('The change must be reachable through', 'Prefer code which takes part in the behaviour but is used less often than the main path: alternative implementations of a component (other executors, launch methods, schedulers, workers, resource managers, launchers), optional helpers, rarely used API entry points - as long as a shipped configuration or the documented API reaches it. The change must be reachable through')
    k = next(i for i, l in enumerate(lines) if l.startswith('Also taken'))
    k2 = k + 1
    while k2 < len(lines) and lines[k2].startswith(' - '):
        k2 += 1
    others = [' - ' + c for p, cl in sorted(new.items()) if p != pid for c, _ in cl]
    lines[k2:k2] = others
    open('/tmp/seedbriefs/%s.r%d.txt' % (pid, rnd), 'w').write('\n'.join(lines))
print('ok')
