# -*- python -*-  mutants of the lead-built checks (agent-built checks ship their own patches)
CONT = 'agent/scheduler/continuous.py'
BASE = 'agent/scheduler/base.py'
RC   = 'resource_config.py'
TM   = 'task_manager.py'

mut('C01_core_free_test_dropped', CONT,
    "                if core == rpc.FREE:\n                    slot['cores'].append(",
    "                if core != rpc.DOWN:\n                    slot['cores'].append(")
mut('C01_down_cores_treated_free', CONT,
    "                if core == rpc.FREE:\n                    slot['cores'].append(",
    "                if core in [rpc.FREE, rpc.DOWN]:\n                    slot['cores'].append(")
mut('C01_gpus_not_marked_busy', BASE,
    "            for gpu in slot['gpus']:\n                node['gpus'][gpu['index']] = new_state\n",
    "            for gpu in slot['gpus'][1:]:\n                node['gpus'][gpu['index']] = new_state\n")
mut('C01_lfs_credited_on_busy', BASE,
    "                if new_state == rpc.BUSY:\n                    node['lfs'] -= slot['lfs']",
    "                if new_state == rpc.BUSY:\n                    node['lfs'] += slot['lfs']")
mut('C01_nodelist_core_share_ignored', RC,
    "                    if rr.core_occupation <= BUSY - ro.occupation:",
    "                    if rr.core_occupation <= BUSY:")
mut('C01_app_slots_not_marked', BASE,
    "                    self._change_slot_states(task['slots'], rpc.BUSY)\n                    self._active_cnt += 1\n",
    "                    self._active_cnt += 1\n")
mut('C01_lfs_check_first_slot_only', CONT,
    "            slots.append(slot)\n            free_lfs -= lfs_per_slot\n",
    "            slots.append(slot)\n")

mut('C02_smaller_core_set_granted', CONT,
    "            if len(slot['cores']) < cores_per_slot:\n                self._log.debug_9('not enough cores on %s', node_name)\n                break",
    "            if len(slot['cores']) < cores_per_slot - 1:\n                self._log.debug_9('not enough cores on %s', node_name)\n                break")
mut('C02_ranks_per_node_ignored', CONT,
    "        if ranks_per_node:\n            slots_per_node = min(slots_per_node, ranks_per_node)",
    "        if ranks_per_node:\n            slots_per_node = max(slots_per_node, ranks_per_node)")
mut('C02_colocate_test_inverted', CONT,
    "                    if node_index not in self._colo_history[colo_tag]:\n                        continue",
    "                    if node_index in self._colo_history[colo_tag]:\n                        continue")
mut('C02_partial_for_single_rank', CONT,
    "            if not mpi:\n                partial = False",
    "            if not mpi:\n                partial = True")
mut('C02_slot_lfs_dropped', CONT,
    "                     'lfs'       : lfs_per_slot,\n                     'mem'       : mem_per_slot}\n\n            for core_idx",
    "                     'lfs'       : 0,\n                     'mem'       : mem_per_slot}\n\n            for core_idx")
mut('C02_nodelist_one_core_short', RC,
    "                if len(cores) < rr.n_cores:\n                    return None",
    "                if len(cores) < rr.n_cores - 1:\n                    return None")

mut('C03_lfs_credited_twice_on_free', BASE,
    "                else:\n                    node['lfs'] += slot['lfs']",
    "                else:\n                    node['lfs'] += 2 * slot['lfs']")
mut('C03_gpus_not_freed', CONT,
    "            self._change_slot_states(task['slots'], rpc.FREE)",
    "            self._change_slot_states([dict(s, gpus=[]) for s in task['slots']], rpc.FREE)")
mut('C03_last_slot_not_freed', CONT,
    "            self._change_slot_states(task['slots'], rpc.FREE)",
    "            self._change_slot_states(task['slots'][:-1] or task['slots'], rpc.FREE)")
mut('C03_nodelist_release_skips_last', RC,
    "        for slot in slots:\n\n            node = self._get_node(slot.node_index)\n            node.deallocate_slot(slot)\n\n        if self.__last_failed_rr__:",
    "        for slot in slots[:-1] or slots:\n\n            node = self._get_node(slot.node_index)\n            node.deallocate_slot(slot)\n\n        if self.__last_failed_rr__:")
mut('C03_nodelist_mem_not_returned', RC,
    "            self.lfs += slot.lfs\n            self.mem += slot.mem",
    "            self.lfs += slot.lfs")

mut('C04_resources_flag_not_set_after_release', BASE,
    "            if not resources and r:\n                resources = True",
    "            if not resources and r:\n                resources = False")
mut('C04_cancel_drops_without_advance', BASE,
    "                    self.advance(to_cancel, rps.CANCELED,\n                                                       push=False, publish=True)",
    "                    pass")
mut('C04_never_verdict_with_one_active', BASE,
    "                if self._active_cnt == 0:\n                    raise RuntimeError('task can never be scheduled')",
    "                if self._active_cnt <= 1:\n                    raise RuntimeError('task can never be scheduled')")
mut('C04_waitpool_priority_not_reversed', BASE,
    "        for priority in sorted(self._waitpool.keys(), reverse=True):",
    "        for priority in sorted(self._waitpool.keys()):")
mut('C08_post_insert_cancel_check_removed', BASE,
    "                if self.is_canceled(task) is True:\n                    del self._waitpool[priority][uid]",
    "                pass")
mut('C04_bisect_failed_dropped', BASE,
    "            for task, error in failed:\n                error  = error.replace('\"', '\\\\\"')\n                self._fail_task(task, RuntimeError('bisect failed'), error)",
    "            for task, error in failed:\n                error  = error.replace('\"', '\\\\\"')")
mut('C04_active_cnt_not_decremented', BASE,
    "            to_release.append(task)\n            self._active_cnt -= 1",
    "            to_release.append(task)")
mut('C04_waiting_task_dropped_on_cancel_of_other', BASE,
    "                            if task:\n                                to_cancel.append(task)\n                                del self._waitpool[priority][uid]\n                                break",
    "                            if task:\n                                to_cancel.append(task)\n                                self._waitpool[priority].clear()\n                                break")

mut('C13_filter_by_other_pilot', TM,
    "                    if task.pilot != pid or task.state in rps.FINAL:",
    "                    if task.pilot == pid or task.state in rps.FINAL:")
mut('C13_final_filter_dropped', TM,
    "                    if task.pilot != pid or task.state in rps.FINAL:",
    "                    if task.pilot != pid:")
mut('C13_message_without_pid', TM,
    "                              'exception_detail': 'pilot %s is final' % pid,",
    "                              'exception_detail': 'pilot is final',")
mut('C13_unbound_tasks_failed_too', TM,
    "                    if task.pilot != pid or task.state in rps.FINAL:",
    "                    if (task.pilot and task.pilot != pid) or task.state in rps.FINAL:")

PM = 'pilot_manager.py'
mut('C15_wait_pilots_final_not_dropped', PM,
    "                                  pilot.state not in rps.FINAL]",
    "                                  True]")
mut('C15_wait_tasks_earliest_state_max', TM,
    "            check_state_val = min(check_state_val,",
    "            check_state_val = max(check_state_val,")
mut('C15_wait_tasks_value_test_le', TM,
    "                    rps._task_state_values[task.state] < check_state_val:",
    "                    rps._task_state_values[task.state] <= check_state_val:")
mut('C15_pilot_wait_timeout_absolute', 'pilot.py',
    "            if timeout and (timeout <= (time.time() - start_wait)):",
    "            if timeout and (timeout <= time.time()):")
mut('C15_wait_pilots_timeout_sign', PM,
    "                if timeout and (timeout <= (time.time() - start)):",
    "                if timeout and (timeout <= (start - time.time())):")
mut('C15_task_wait_ignores_final', 'task.py',
    "        while self.state not in states and self.state not in rps.FINAL:",
    "        while self.state not in states:")
mut('C15_pilot_wait_ignores_final', 'pilot.py',
    "        while self.state not in states and self.state not in rps.FINAL:",
    "        while self.state not in states:")
mut('C15_wait_tasks_slow_poll', TM,
    "            time.sleep (0.1)\n",
    "            time.sleep (0.5)\n")

PO = 'agent/executing/popen.py'
EB = 'agent/executing/base.py'
mut('C07_ownership_check_after_publish', PO,
    "        with self._check_lock:\n            if tid not in self._tasks:\n                return\n            try:\n                del self._tasks[tid]\n            except KeyError:\n                pass\n",
    "        if tid not in self._tasks:\n            return\n")
mut('C07_cancel_without_check_lock', PO,
    "        with self._check_lock:\n            if tid not in self._tasks:\n                return\n",
    "        if True:\n            if tid not in self._tasks:\n                return\n")
mut('C08_late_cancel_check_removed', PO,
    "        if canceled:\n            self.cancel_task(task)\n",
    "        pass\n")
mut('C07_error_path_without_unschedule', PO,
    "                self._prof.prof('unschedule_start', uid=task['uid'])\n                self.publish(rpc.AGENT_UNSCHEDULE_PUBSUB, task)\n\n                self.advance_tasks(task, rps.FAILED, publish=True, push=False)",
    "                self._prof.prof('unschedule_start', uid=task['uid'])\n\n                self.advance_tasks(task, rps.FAILED, publish=True, push=False)")
mut('C07_watcher_ignores_ownership', PO,
    "                with self._check_lock:\n                    if tid not in self._tasks:\n                        # task was canceled before, nothing to do\n                        continue\n",
    "                with self._check_lock:\n                    if False:\n                        # task was canceled before, nothing to do\n                        continue\n")
mut('C07_nonzero_exit_reported_done', PO,
    "                if exit_code == 0:\n                    # The task finished cleanly",
    "                if exit_code >= 0:\n                    # The task finished cleanly")
mut('C07_cancel_pushes_without_unschedule', PO,
    "        self._prof.prof('unschedule_start', uid=tid)\n        self.publish(rpc.AGENT_UNSCHEDULE_PUBSUB, task)\n\n        self.advance([task], rps.AGENT_STAGING_OUTPUT_PENDING,",
    "        self._prof.prof('unschedule_start', uid=tid)\n\n        self.advance([task], rps.AGENT_STAGING_OUTPUT_PENDING,")
mut('C07_cancel_of_finished_task_proceeds', PO,
    "            # task is done, nothing to do\n            self._log.debug('task %s is already done', tid)\n            return\n",
    "            # task is done, nothing to do\n            self._log.debug('task %s is already done', tid)\n")
mut('C07_timeout_cancels_finished_too', EB,
    "                if now > cancel_time:\n                    if cancel_time:",
    "                if now > cancel_time or True:\n                    if cancel_time:")
mut('C07_executing_announced_per_task_again', PO,
    "                self._tasks.update({task['uid']: task})\n                self._handle_task(task)",
    "                self._tasks.update({task['uid']: task})\n                self.advance_tasks(task, rps.AGENT_EXECUTING, publish=True, push=False)\n                self._handle_task(task)")

COMP = 'utils/component.py'
mut('C05_nonzero_exit_mapped_to_done', PO,
    "                    task['exception_detail'] = 'exit code: %s' % exit_code\n                    task['target_state']     = rps.FAILED",
    "                    task['exception_detail'] = 'exit code: %s' % exit_code\n                    task['target_state']     = rps.DONE")
mut('C05_agent_failed_not_forwarded', COMP,
    "    def advance(self, things, state=None, publish=True, push=False, qname=None,\n                      ts=None, fwd=True, prof=True):\n\n        things = ru.as_list(things)\n\n        # CANCELED and FAILED is handled on the client side",
    "    def advance(self, things, state=None, publish=True, push=False, qname=None,\n                      ts=None, fwd=True, prof=True):\n\n        things = ru.as_list(things)\n\n        if state in [rps.FAILED, rps.CANCELED]:\n            fwd = False\n\n        # CANCELED and FAILED is handled on the client side")
mut('C05_tmgr_output_final_state_not_set', 'tmgr/staging_output/default.py',
    "            for task in no_staging_tasks:\n                task['state'] = task['target_state']\n",
    "            for task in no_staging_tasks:\n                pass\n")
mut('C05_agent_stagein_try_widened_to_bulk', 'agent/staging_input/default.py',
    "            except Exception as e:\n                self._log.exception('staging error')\n                task['exception']        = repr(e)\n                task['exception_detail'] = '\\n'.join(ru.get_exception_trace())\n\n                self.advance(task, rps.FAILED)",
    "            except Exception as e:\n                self._log.exception('staging error')\n                raise")
mut('C05_executor_failure_without_record', PO,
    "                task['exception']        = repr(e)\n                task['exception_detail'] = '\\n'.join(ru.get_exception_trace())\n\n                # can't rely on the executor base to free the task resources",
    "                # can't rely on the executor base to free the task resources")
mut('C05_tmgr_stagein_failure_passed_on', 'tmgr/staging_input/default.py',
    "                    to_fail.append(task)\n",
    "                    self._advance_tasks([task], state=rps.AGENT_STAGING_INPUT_PENDING, push=True)\n")
mut('C05_canceled_final_reported_failed', COMP,
    "            if 'state' in task:\n                self.advance(task, rps.CANCELED, publish=True, push=False)",
    "            if 'state' in task:\n                self.advance(task, rps.FAILED, publish=True, push=False)")
mut('C05_staging_output_skips_exit_code_check', 'agent/staging_output/default.py',
    "                if task['target_state'] != rps.DONE \\",
    "                if task['target_state'] == rps.DONE \\")

LMB = 'agent/launch_method/base.py'
mut('C10_args_not_quoted', LMB,
    "            return ' '.join([ru.sh_quote(arg) for arg in args])",
    "            return ' '.join(['\"%s\"' % arg for arg in args])")
mut('C10_rp_ranks_off_by_one', EB,
    "        ret += 'export RP_RANKS=%s\\n' % n_ranks",
    "        ret += 'export RP_RANKS=%s\\n' % (n_ranks - 1)")
mut('C10_exit_code_dropped', EB,
    "        tmp += self._get_prof('exec_stop')\n        tmp += 'exit $RP_RET\\n'",
    "        tmp += self._get_prof('exec_stop')\n        tmp += 'exit 0\\n'")
mut('C10_per_rank_case_shifted', EB,
    "            ret += '    %d)\\n' % rank_id",
    "            ret += '    %d)\\n' % (rank_id + 1)")
mut('C10_env_values_unquoted_again', EB,
    "                ret += 'export %s=%s\\n' % (key, ru.sh_quote(val))",
    "                ret += 'export %s=\"%s\"\\n' % (key, val)")
mut('C10_sub_address_from_pub', EB,
    "        ctrl_sub_addr = self._reg['bridges.control_pubsub']['addr_sub']",
    "        ctrl_sub_addr = self._reg['bridges.control_pubsub']['addr_pub']")
mut('C10_cuda_devices_from_first_rank', EB,
    "                    ','.join([str(g['index']) for g in slot['gpus']])",
    "                    ','.join([str(g['index']) for g in slots[0]['gpus']])")
mut('C10_failing_pre_exec_ignored', EB,
    "        cmd_template    = '%s || rp_error %s\\n'",
    "        cmd_template    = '%s || echo %s\\n'")
mut('C10_stderr_into_stdout_file', EB,
    "        ret += ') 1> \"%s\" \\\\\\n  2> \"%s\"\\n' % (task['stdout_file_short'],\n                                              task['stderr_file_short'])",
    "        ret += ') 1> \"%s\" \\\\\\n  2> \"%s\"\\n' % (task['stdout_file_short'],\n                                              task['stdout_file_short'])")

TD = 'task_description.py'
mut('C19_use_mpi_default', TD,
    "            self.use_mpi = bool(self.ranks - 1)",
    "            self.use_mpi = bool(self.ranks > 0)")
mut('C19_slot_ctor_renumbers', RC,
    "                    from_dict['gpus'] =  [RO(index=i, occupation=BUSY)\r\n                                                for i in gpus]",
    "                    from_dict['gpus'] =  [RO(index=i, occupation=BUSY)\r\n                                                for i in range(len(gpus))]")
