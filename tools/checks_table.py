# -*- python -*-  (exec'd by mkmanifest.py)
NOT_APPLICABLE = {}
TB = ('trusted base: hollow construction of facades (constructor fields copied), in-memory transport with '
      'msgpack copies, get_version shim; see evidence.assumptions')
CHECKS['C13'] = (
    'property-based testing (Hypothesis, seeded) of pilot-end histories against a per-task frame oracle',
    'random search over task-to-pilot bindings x task states x pilot end orders through the real '
    'TaskManager/Task/Pilot code; no counterexample in the explored domain, coverage measured; not a proof',
    TB, 'DESIGN.md 4/C13')
