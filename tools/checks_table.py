# -*- python -*-  (exec'd by mkmanifest.py)
NOT_APPLICABLE = {}
TB = ('trusted base: hollow construction of facades (constructor fields copied), in-memory transport with '
      'msgpack copies, get_version shim; see evidence.assumptions')
CHECKS['C13'] = (
    'property-based testing (Hypothesis, seeded) of pilot-end histories against a per-task frame oracle; the real PilotManager.close() on a virtual clock',
    'random search over task-to-pilot bindings x task states x pilot end orders through the real '
    'TaskManager/Task/Pilot code; no counterexample in the explored domain, coverage measured; not a proof',
    TB, 'DESIGN.md 4/C13')
SCHED_TB = ('trusted base: the scheduler pair engine (mp.Queue/Event/Process, time, ru.PWatcher, ResourceManager.create '
            'rebound in the harness process; forked child modelled as a fork-like copy sharing the two queues; yield '
            'points at queue gets and the idle sleep), FakeRM node list built as _init_from_scratch builds it, '
            'in-memory transport, get_version shim')
CHECKS['C01'] = (
    'property-based testing (Hypothesis, seeded): model-based histories through the real scheduler loop under a '
    'deterministic cooperative scheduler, holder-set disjointness oracle at every grant; NodeList API vs occupancy model (also obtained through a real Pilot, with index gaps, NUMA domains, and from 2-3 concurrent application threads under the deterministic scheduler); real resource-manager start-up with node-target sub-agents / service nodes: reserved nodes never in the node list handed on',
    'random search over node layouts x task streams x interleavings of arrivals/completions/cancels with the real '
    'Continuous/ContinuousJsrun code; no counterexample in the explored domain, coverage measured; not a proof',
    SCHED_TB, 'DESIGN.md 4/C01')
CHECKS['C02'] = (
    'property-based testing (Hypothesis, seeded): same histories, shape oracle per grant against the task description; '
    'NodeList.find_slots shape vs request',
    'random search over request shapes on partially occupied pilots reached by scheduling/releasing other tasks; '
    'validity predicate (not one expected answer) per grant; not a proof',
    SCHED_TB + '; ContinuousJsrun slots judged for rank count and core distinctness only', 'DESIGN.md 4/C02')
CHECKS['C03'] = (
    'property-based testing (Hypothesis, seeded): grant/release histories, invariant "no holder => node map == initial '
    'map and a whole-pilot probe task is granted", NodeList release vs model',
    'random search over release orders incl. application-placed tasks and cancels of running tasks; metamorphic '
    'restore-to-initial oracle at every idle quiescent point; executor half decided under C07; not a proof',
    SCHED_TB, 'DESIGN.md 4/C03')
CHECKS['C04'] = (
    'property-based testing (Hypothesis, seeded): step-wise interleaving of the real scheduling loop (schedule = plain '
    'data), accounting oracle over the advance/publish log, conservative reference-fit oracle for progress clauses, '
    'targeted priority scenarios',
    'random search over arrival orders, completion orders and cancel placements between loop steps; liveness clauses '
    'decided per case at harness-defined quiescent points; not a proof',
    SCHED_TB + '; progress clauses only where the implementation is obliged to see room (scattered mode, no colocate/'
    'named env), reference fit deliberately conservative', 'DESIGN.md 4/C04')
CHECKS['C16'] = (
    'exhaustive enumeration of the single-message domain plus property-based testing (Hypothesis, seeded) '
    'of message sequences under harness-scheduled delivery orders, against the forwarding expectation A.5; message sources include rp.Client.send_ctrl_msg on every side and agent_0\'s command port',
    'complete product 1 client + 0..4 pilots x originating side x channel x fwd {absent,False,True} x origin '
    '{absent, own, every other side, unknown} (+ advance / rpc_req / rpc_res defaults and rpc round trips) through '
    'the real Session._publish_cfg/_crosswire_proxy closures and real Client/AgentComponent publishers; random '
    'sequences of 1-6 messages on up to 5 pilots with generated interleavings; no counterexample in the explored '
    'domain, coverage measured; exhaustive only for single messages, not a proof for sequences',
    TB + '; real ZMQ proxy bridges not reached; the mutant "forward flag not cleared" is observationally '
    'equivalent for this property (origin test alone prevents the loop) and is reported in evidence '
    '(forwarded_copy:flag_*) rather than failed',
    'DESIGN.md 4/C16, A.5')
CHECKS['C06'] = (
    'property-based testing (Hypothesis, seeded) of notification-batch histories against a reference state model (with Task.wait calls between notifications), plus exhaustive enumeration of all (current, target) state pairs',
    'random search over batches of task state notifications (duplicates, reordering, skips, contradictory finals, late non-finals, unknown uids; 1-6 tasks, up to 30 entries per batch) through the real pubsub -> _state_sub_cb -> _update_tasks -> Task._update -> callback path, compared after every batch with a model of the documented linear state model; all 18x18 state pairs enumerated completely against the helper docstring and end-to-end with bystander tasks; no counterexample in the explored domain, coverage measured; not a proof',
    TB + '; not reached: Task._update(reconnect=True), bulk callbacks, interleavings of _pilot_state_cb with _update_tasks',
    'DESIGN.md 4/C06, A.1')
CHECKS['C15'] = (
    'property-based testing (Hypothesis, seeded) of the four wait calls under a virtual clock against a deadline oracle; wait vs blocking user callback, submit_pilots vs first notifications and wait calls next to a kill request in flight under the deterministic scheduler',
    'random search over requested state sets (none/[]/one/several) x scripted entity trajectories (incl. other final '
    'state, never ending, already final) x awaited sets x timeouts through the real Task.wait, Pilot.wait, '
    'TaskManager.wait_tasks, PilotManager.wait_pilots; return time bounded below by "every awaited entity reached a '
    'requested state or is final / timeout" and above by that + 2 poll intervals, returned states = actual states; '
    'non-termination decided per case by a virtual deadline; no counterexample in the explored domain, coverage measured; not a proof',
    TB + '; module-level `time` of task.py/pilot.py/task_manager.py/pilot_manager.py replaced by a virtual clock, state '
    'changes land between polls only (no real-thread interleavings); a requested non-final state held for less than one '
    'poll interval is not demanded to be seen; a loop spinning without any time call cannot be interrupted',
    'DESIGN.md 4/C15, A.3')
EXEC_TB = ('trusted base: executor assembly (mt.Thread recorded and run under the baton, mt.Lock -> yielding FakeLock, '
           'sp.Popen -> FakeProc, queue/time/launcher/resource manager faked, ownership dict with yield points), '
           'thread switches only at yield points; in-memory transport; get_version shim')
CHECKS['C07'] = (
    'property-based testing (Hypothesis, seeded) of executor schedules under a deterministic cooperative scheduler + '
    'systematic enumeration (one-task interleavings, preemption sweep of every activity pair, two-task sweeps, start-up reports, limits after a start-up report, launch bursts; Flux executor work() incl. failing pre_launch commands; Dragon executor against a stand-in runtime) against an exactly-once '
    'oracle over the transport event log',
    'random and systematic search over interleavings of intake, the real watcher loop, the real timeout watcher and '
    'cancel handlers x launch fault points x exit codes x timeouts through the real Popen (and NOOP) executor; per '
    'accepted task: start announced once, handed on exactly once with a truthful outcome, released exactly once, nothing '
    'left behind; no counterexample in the explored domain, coverage measured; not a proof',
    EXEC_TB, 'DESIGN.md 4/C07')
CHECKS['C09'] = (
    'property-based testing (Hypothesis, seeded) of launcher histories: per-launcher CLI interpreters as oracle, '
    'differential history-independence against a fresh instance',
    'random search over 17 launch-method names x MPI flavours / help answers / slurm versions x placements (1-64 ranks, '
    '1-50 nodes, uneven, non-contiguous cores, above the 42 host/node thresholds) x 1-5 task histories through the real '
    'launch-method classes and find_launcher; command + host/rank/node/ERF files interpreted and compared with the '
    'placement; no counterexample beyond the listed findings in the explored domain, coverage measured; not a proof',
    TB + '; launcher CLI semantics as modelled in vlib/c09_cli.py (MPT per-host -np, PALS --ppn fill, ibrun host-list '
    'offset); LaunchMethod.__init__ replaced (in-memory registry, direct init_from_scratch with generated machine '
    'answers); PRTE DVM start-up not run; JSRUN slots from a hollow ContinuousJsrun', 'DESIGN.md 4/C09, A.4')
CHECKS['C12'] = (
    'property-based testing (Hypothesis, seeded): stateful op histories through the real client-side '
    'schedulers against a model of pilot roles, notified pilot states and per-pilot usage',
    'random search over histories (bulk submits with named/unnamed tasks, add/remove/re-add of pilots, '
    'pilot and task state notifications incl. finals in any order, traffic of a second task manager) driven '
    'through the real RoundRobin and Backfilling components (registered work input, control_cb, state '
    'callback) over in-memory transport; every task put on TMGR_STAGING_INPUT_QUEUE is checked for '
    'exactly-once, pilot eligibility, sandboxes, round-robin balance, backfilling window / high-water mark / '
    'usage return; no counterexample in the explored domain, coverage measured; not a proof',
    TB + '; operations are delivered atomically in history order (no interleaving inside one component '
    'method); re-adds use the pilot-dict form of add_pilots; the no-loss and usage clauses read the '
    'scheduler-private _wait_pool/_early/info',
    'DESIGN.md 4/C12')
CHECKS['C14'] = (
    'property-based testing (Hypothesis, seeded) of pilot notification histories and of agent termination-cause orders against reference models, plus exhaustive enumeration of _pilot_state_progress (9x9), of all orderings of <=3 termination events (792 runs) and of the killme.signal shell mapping; the real end of bootstrap_0.sh executed with a stand-in agent; kill requests and launch failures through the real launching component; job-state reports through the real SAGA (stand-in radical.saga) and PSI/J (real psij job objects) launchers',
    'random search over batches of pilot state notifications (gaps, duplicates, reordering, late non-finals, contradictory finals, unknown uids, 1-3 pilots) through the real pubsub -> PilotManager._state_sub_cb/_update_pilot -> Pilot._update -> pilot-/manager-level callbacks, with the tmgr scheduler as second consumer; and over orders of runtime reached / cancel naming this or another pilot / terminate / stop / loop end through the real Agent_0._check_lifetime (virtual clock), control path, stop and finalize, judged on killme.signal = published state = state of an occurred cause (single cause strict); no counterexample in the explored domain, coverage measured; not a proof',
    TB + '; not reached: bootstrap_0.sh as a whole (only its killme.signal -> final_state lines are executed with bash), agent death without finalize, Agent_0.initialize; a lone terminate/stop accepts CANCELED or FAILED; loss of the rest of a batch after an exception is not demanded',
    'DESIGN.md 4/C14, A.1')
CHECKS['C17'] = (
    'exhaustive enumeration of all shipped (resource, schema) pairs plus property-based testing (Hypothesis, seeded) '
    'of pilot sizes against the integer sizing model A.6; the real PSI/J pilot launcher asked for every endpoint naming a batch system',
    'every label of every configs/resource_*.json x each of its schemas (63 configs, 120 pairs) resolved through the '
    'real Session.get_resource_config and the four real factories run up to instantiation (resource manager, every '
    'launch method incl. order entries, agent scheduler, executor) and the agent config loader; every pair x a fixed '
    '12-point (48 thorough) size/RADICAL_SMT grid and random sizes (nodes 1-64 +0-2 backup, cores/gpus at k*node+-d, '
    'GPU-bound mixes, SMT unset/2/4) through real PilotDescription -> Pilot -> _prepare_pilot; job description and '
    'the staged agent_0.cfg compared with the model computed from the raw json; exhaustive over configs x schemas, '
    'random over sizes; no counterexample in the explored domain, coverage measured; not a proof for sizes',
    TB + '; hollow PMGRLaunchingComponent (__new__ + fields), first lines of _start_pilot_bulk copied; factories '
    'stopped at instantiation by a temporary base-class __new__; explicit sandbox (no workdir shell-out); not reached: '
    'launch method / resource manager initialisation, staging, job submission; platforms without configured node size '
    'only checked for pass-through and job/agent agreement',
    'DESIGN.md 4/C17, A.6')
CHECKS['C19'] = (
    'property-based testing (Hypothesis, seeded): idempotence / frame / round-trip relations on generated '
    'descriptions against tables written from the docstrings; differential test of encoded function payloads '
    '(direct call vs real raptor dispatcher); round-trip relations on slot lists in every accepted format',
    'random search over 11 task modes x subsets of documented current+deprecated attributes with typed/castable values '
    '(TaskDescription, PilotDescription incl. nested services): verify idempotent, deprecated->replacement, required-per-mode '
    'ValueError iff violated, as_dict->ctor (direct and over msgpack) equal; 33 callables x 5 encoders x JSON-like/tuple/bytes/set '
    'arguments through TaskDescription->wire->Worker._dispatch_func compared with the direct call (value or exception type); '
    '7 slot formats through convert_slots_to_old/_new/Slot incl. new(old(x)), old(new(y)); no counterexample beyond the listed '
    'finding in the explored domain, coverage measured; not a proof',
    TB + '; raptor Worker built hollow (constructor not run), decode happens in the encoding process; TypedDict `==` is vacuous '
    '(empty base dict) so equality = type-strict as_dict comparison; precedence between a deprecated name and its replacement '
    'and the gpu_process_type/gpu_thread_type -> gpu_type source are undocumented/contradictory: either accepted; wrong-typed '
    'values and undocumented names outside the domain; no Atheris target',
    'DESIGN.md 4/C19')
CHECKS['C20'] = (
    'property-based testing (Hypothesis, seeded): payload-DSL differential oracle on the real raptor dispatchers '
    '(result tuple, os.environ, process environment, streams); model-based request/completion histories through the '
    'real DefaultWorker over fake multiprocessing with an occupancy/exactly-one-result oracle; routing and '
    'result-accounting histories through the real Master and the agent scheduler\'s raptor forwarding; request streams through the real MPI worker rank loop, allotment and result collection with stand-in communicators; exhaustive enumeration of alloc/dealloc interleavings of the MPI worker allotment under the deterministic scheduler',
    'random search over payload programs x task modes x request sequences; over worker sizes x demands x outcomes '
    '(ok/raise/timeout/late completion/spawn failure/process death) x completion orders x wait-point schedules; over '
    'request streams of every mode x exit codes x delivery orders x queue (un)registration orders; no counterexample '
    'in the explored domain, coverage measured; not a proof',
    TB + '; multiprocessing of worker_default replaced by harness-stepped fakes (a child = when its target runs + what '
    'join/is_alive/terminate report); scheduler placement stubbed (C01-C04); MPI workers and TASK_METH not reached',
    'DESIGN.md 4/C20')
CHECKS['C08'] = (
    'property-based testing (Hypothesis, seeded): cancel-heavy histories through the scheduler-pair and executor engines, '
    'DIFFERENTIAL run of each executor schedule with and without its cancel requests, generic-intake and request-message parts; model-based histories of the raptor backlog (submit / cancel / register) through the real scheduler intake and control handler; cancel requests through the Flux executor / launch method to the partition running the task',
    'random search over the point of a task\'s life at which a cancel arrives (in the scheduler queue, waiting, placed, in the '
    'executor queue, before spawn, running, after exit) x bystander sets: named tasks leave the wait pool / are killed / are '
    'released exactly once / end CANCELED unless finished, and are not processed by a later component; bystanders keep their '
    'outcome (equal with/without the request), are never canceled, dropped or released; no counterexample in the explored domain; not a proof',
    SCHED_TB + '; ' + EXEC_TB + '; the whole client->agent pipeline is not assembled: decided per half-pipeline, the request path '
    'between TaskManager.cancel_tasks and the pilot components is C16\'s forwarding', 'DESIGN.md 4/C08')
CHECKS['C11'] = (
    'property-based testing (Hypothesis, seeded): generated staging-directive bulks driven through the four real '
    'staging components on a fresh directory tree, file-tree oracle against the documented sandbox hierarchy; '
    'short-form strings through expand_staging_directives against a split model; a quarter of the cases keeps absolute paths on another file system',
    'random search over actions x forms (dict, "src", > >> < <<) x location schemas x files/directories x missing '
    'sources x task outcome x stage_on_error, 1-3 tasks per bulk; no counterexample in the explored domain, '
    'coverage measured; not a proof',
    TB + '; hops between components (tmgr scheduler advance, Agent_0 proxy, scheduler+executor) are harness stand-ins; '
    'Local staging backend on one file system; DOWNLOAD, remote schemas, SAGA backend, Pilot.stage_in/out, output '
    'TARBALL, client:// on agent-side actions not reached', 'DESIGN.md 4/C11')
CHECKS['C18'] = (
    'property-based testing (Hypothesis, seeded) of generated batch-system allocations against a reference '
    'model of the offered node list; atheris target over node-file line order / exec_vnode chunking (thorough)',
    'random search over node files / host-list expressions / exec_vnode texts x resource config (SMT, blocked '
    'cores/gpus, configured or detected sizes) x request (nodes, backup nodes, ssh probe outcomes) x agent layout '
    'through the real Fork, Debug, Slurm, Torque, CCM, LSF, Cobalt and PBSPro resource managers, from scratch and '
    'from the registry; no counterexample in the explored domain beyond the listed findings, coverage measured; '
    'not a proof',
    'trusted base: _prepare_launch_methods stubbed, in-memory registry with msgpack copies, ssh probe / qstat / '
    'cpu_count answered from the case, os.environ+cwd+$HOME per case, RMInfo class defaults reset per case, agent '
    'config shaped as pmgr launching writes it (cores_per_node x SMT), reference Slurm host-list expansion, '
    'get_version shim; Yarn RM not reached; backup_list content not demanded',
    'DESIGN.md 4/C18')
CHECKS['C05'] = (
    'property-based testing (Hypothesis, seeded) with fault injection: generated workloads x fault plans x stage polling '
    'orders through the composed client/agent pipeline, truthfulness oracle on the real Task objects and callbacks; generated Flux job-event streams through the real Flux executor event handler, and the Flux executor + launch method pipeline (job ids vs events, partitions) over stand-in Flux instances',
    'random search over workloads, placements of one fault per task (client/agent staging errors, no launcher, launch '
    'errors, non-zero exit, exception inside a per-task handler of six components, output staging errors), cancel requests '
    'and the order in which pipeline stages run; every task ends in exactly one final state that matches exit code / fault / '
    'request, bystanders of a faulty task finish DONE, a second workload completes afterwards; no counterexample in the '
    'explored domain, coverage measured; not a proof',
    SCHED_TB + '; ' + EXEC_TB + '; components assembled hollow in one process, Agent_0 queue hops are stand-ins, state/control '
    'pubsubs joined by the real crosswire closures, stage polls are atomic (intra-component interleavings are C04/C07)',
    'DESIGN.md 4/C05')
CHECKS['C10'] = (
    'property-based testing (Hypothesis, seeded): generated task descriptions -> real script generation of the Popen '
    'executor and Fork/MPIRun launch methods -> the scripts are EXECUTED by bash with a probe executable; oracle on the '
    'observed argv / environment / cwd / files / trace order / exit code',
    'random search over argument and environment values built from a shell-hostile alphabet (blanks, quotes, backslashes, '
    'globs, ;&|<>()!#~, unicode, $-forms), stdout/stderr names, pre/post_exec lists (global, per-rank, failing), ranks '
    '1-3, GPU assignment, exit codes, sandbox layouts; no counterexample in the explored domain, coverage measured; not a proof',
    TB + '; bash and coreutils as installed; probe script, fake mpirun (N copies with PMIX_RANK=i), prof/gtod stubs are '
    'harness code; launch methods other than FORK/MPIRUN, named environments, services, startup_timeout not reached; '
    '$-forms are documented to expand (ru.sh_quote) and are only required to behave as the shell would',
    'DESIGN.md 4/C10')
