# -*- python -*-  (exec'd by mkmanifest.py)
NOT_APPLICABLE = {}
TB = ('trusted base: hollow construction of facades (constructor fields copied), in-memory transport with '
      'msgpack copies, get_version shim; see evidence.assumptions')
CHECKS['C13'] = (
    'property-based testing (Hypothesis, seeded) of pilot-end histories against a per-task frame oracle',
    'random search over task-to-pilot bindings x task states x pilot end orders through the real '
    'TaskManager/Task/Pilot code; no counterexample in the explored domain, coverage measured; not a proof',
    TB, 'DESIGN.md 4/C13')
SCHED_TB = ('trusted base: the scheduler pair engine (mp.Queue/Event/Process, time, ru.PWatcher, ResourceManager.create '
            'rebound in the harness process; forked child modelled as a fork-like copy sharing the two queues; yield '
            'points at queue gets and the idle sleep), FakeRM node list built as _init_from_scratch builds it, '
            'in-memory transport, get_version shim')
CHECKS['C01'] = (
    'property-based testing (Hypothesis, seeded): model-based histories through the real scheduler loop under a '
    'deterministic cooperative scheduler, holder-set disjointness oracle at every grant; NodeList API vs occupancy model',
    'random search over node layouts x task streams x interleavings of arrivals/completions/cancels with the real '
    'Continuous/ContinuousJsrun code; no counterexample in the explored domain, coverage measured; not a proof',
    SCHED_TB, 'DESIGN.md 4/C01')
CHECKS['C02'] = (
    'property-based testing (Hypothesis, seeded): same histories, shape oracle per grant against the task description; '
    'NodeList.find_slots shape vs request',
    'random search over request shapes on partially occupied pilots reached by scheduling/releasing other tasks; '
    'validity predicate (not one expected answer) per grant; not a proof',
    SCHED_TB + '; ContinuousJsrun slots judged for rank count and core distinctness only', 'DESIGN.md 4/C02')
CHECKS['C03'] = (
    'property-based testing (Hypothesis, seeded): grant/release histories, invariant "no holder => node map == initial '
    'map and a whole-pilot probe task is granted", NodeList release vs model',
    'random search over release orders incl. application-placed tasks and cancels of running tasks; metamorphic '
    'restore-to-initial oracle at every idle quiescent point; executor half decided under C07; not a proof',
    SCHED_TB, 'DESIGN.md 4/C03')
CHECKS['C04'] = (
    'property-based testing (Hypothesis, seeded): step-wise interleaving of the real scheduling loop (schedule = plain '
    'data), accounting oracle over the advance/publish log, conservative reference-fit oracle for progress clauses, '
    'targeted priority scenarios',
    'random search over arrival orders, completion orders and cancel placements between loop steps; liveness clauses '
    'decided per case at harness-defined quiescent points; not a proof',
    SCHED_TB + '; progress clauses only where the implementation is obliged to see room (scattered mode, no colocate/'
    'named env), reference fit deliberately conservative', 'DESIGN.md 4/C04')
CHECKS['C16'] = (
    'exhaustive enumeration of the single-message domain plus property-based testing (Hypothesis, seeded) '
    'of message sequences under harness-scheduled delivery orders, against the forwarding expectation A.5',
    'complete product 1 client + 0..4 pilots x originating side x channel x fwd {absent,False,True} x origin '
    '{absent, own, every other side, unknown} (+ advance / rpc_req / rpc_res defaults and rpc round trips) through '
    'the real Session._publish_cfg/_crosswire_proxy closures and real Client/AgentComponent publishers; random '
    'sequences of 1-6 messages on up to 5 pilots with generated interleavings; no counterexample in the explored '
    'domain, coverage measured; exhaustive only for single messages, not a proof for sequences',
    TB + '; real ZMQ proxy bridges not reached; the mutant "forward flag not cleared" is observationally '
    'equivalent for this property (origin test alone prevents the loop) and is reported in evidence '
    '(forwarded_copy:flag_*) rather than failed',
    'DESIGN.md 4/C16, A.5')
CHECKS['C06'] = (
    'property-based testing (Hypothesis, seeded) of notification-batch histories against a reference state model, plus exhaustive enumeration of all (current, target) state pairs',
    'random search over batches of task state notifications (duplicates, reordering, skips, contradictory finals, late non-finals, unknown uids; 1-6 tasks, up to 30 entries per batch) through the real pubsub -> _state_sub_cb -> _update_tasks -> Task._update -> callback path, compared after every batch with a model of the documented linear state model; all 18x18 state pairs enumerated completely against the helper docstring and end-to-end with bystander tasks; no counterexample in the explored domain, coverage measured; not a proof',
    TB + '; not reached: Task._update(reconnect=True), bulk callbacks, interleavings of _pilot_state_cb with _update_tasks',
    'DESIGN.md 4/C06, A.1')
CHECKS['C15'] = (
    'property-based testing (Hypothesis, seeded) of the four wait calls under a virtual clock against a deadline oracle',
    'random search over requested state sets (none/[]/one/several) x scripted entity trajectories (incl. other final '
    'state, never ending, already final) x awaited sets x timeouts through the real Task.wait, Pilot.wait, '
    'TaskManager.wait_tasks, PilotManager.wait_pilots; return time bounded below by "every awaited entity reached a '
    'requested state or is final / timeout" and above by that + 2 poll intervals, returned states = actual states; '
    'non-termination decided per case by a virtual deadline; no counterexample in the explored domain, coverage measured; not a proof',
    TB + '; module-level `time` of task.py/pilot.py/task_manager.py/pilot_manager.py replaced by a virtual clock, state '
    'changes land between polls only (no real-thread interleavings); a requested non-final state held for less than one '
    'poll interval is not demanded to be seen; a loop spinning without any time call cannot be interrupted',
    'DESIGN.md 4/C15, A.3')
