#!/bin/bash
# sensitivity self-test (DESIGN 3.9): apply each mutants/<ID>_*.patch in a scratch worktree outside
# /repo and /verif, run the quick tier there, expect exit 1.  usage: tools/selftest.sh [ID ...] [-j N]
cd "$(dirname "$0")/.." || exit 2
IDS=(); J=8
while [ $# -gt 0 ]; do case "$1" in -j) J=$2; shift 2;; *) IDS+=("$1"); shift;; esac; done
PATCHES=()
if [ ${#IDS[@]} -eq 0 ]; then PATCHES=(mutants/*.patch seeded/*/patch.diff); else
  for i in "${IDS[@]}"; do PATCHES+=(mutants/${i}_*.patch seeded/${i}*/patch.diff); done; fi
run_one() {
  p="$1"; [ -f "$p" ] || exit 0
  case "$p" in seeded/*) id=$(basename $(dirname "$p") | cut -c1-3); name=$(basename $(dirname "$p"))
                         alt=$(jq -r '.selftest_check // empty' "$(dirname "$p")/meta.json" 2>/dev/null); [ -n "$alt" ] && id=$alt
                         [ "$alt" = none ] && { echo "NOTCLAIMED $name"; exit 0; }
                         [ "$alt" = not_reached ] && { echo "NOTREACHED $name"; exit 0; };;
               *) id=$(basename "$p" | cut -d_ -f1); name=$(basename "$p" .patch);; esac
  wt=$(mktemp -d /tmp/wt-self.XXXXXX); rmdir "$wt"
  git -C /repo worktree add -q --detach "$wt" HEAD >/dev/null 2>&1 || { echo "$name: worktree failed"; exit 0; }
  if git -C "$wt" apply "$PWD/$p" 2>/dev/null; then
    VERIF_REPO="$wt" VERIF_EVID_DIR="$wt/.evid" ./check "$id" > "$wt/.log" 2>&1; rc=$?
    sig=$(grep -m2 "violation signature" "$wt/.log" | sed 's/ (seen.*//' | tr '\n' ';')
    if [ $rc -eq 1 ]; then echo "CAUGHT  $name  $sig"; elif [ $rc -eq 0 ]; then echo "MISSED  $name"; else echo "ERROR($rc) $name $(tail -1 $wt/.log)"; fi
  else echo "NOAPPLY $name"; fi
  git -C /repo worktree remove --force "$wt" >/dev/null 2>&1; rm -rf "$wt"
}
export -f run_one
printf '%s\n' "${PATCHES[@]}" | xargs -P "$J" -I{} bash -c 'run_one {}'
