#!/bin/bash
# tools/confirm_seed.sh <PROP> <name> <worktree> [check ids...]
# confirms an independently produced breaking change (patch applied in <worktree>, demo_<PROP>.py there):
# demo passes without / fails with the change, the 95 baseline tests still pass with it; then runs the
# given checks (default: <PROP>) against it and stores everything under seeded/<name>/
cd "$(dirname "$0")/.." || exit 2
P=$1; NAME=$2; WT=$3; shift 3; CHECKS=${@:-$P}
PATCH=$WT/change_$P.patch; DEMO=$WT/demo_$P.py
[ -f "$PATCH" ] && [ -f "$DEMO" ] || { echo "missing patch/demo in $WT"; exit 2; }
cd $WT
git checkout -q -- src 2>/dev/null
/venv/bin/python $DEMO >/tmp/cs.$NAME.orig.log 2>&1; rc0=$?
git apply $PATCH || { echo "patch does not apply"; exit 2; }
/venv/bin/python $DEMO >/tmp/cs.$NAME.mut.log 2>&1; rc1=$?
PYTHONPATH=$WT/src /venv/bin/python -m pytest -q -p no:cacheprovider --timeout=900 --continue-on-collection-errors --junitxml=/tmp/cs.$NAME.xml >/dev/null 2>&1
rm -f $WT/rm_info.json
tests=$(/venv/bin/python - /tmp/cs.$NAME.xml <<'PY'
import sys, json, xml.etree.ElementTree as ET
base = set(json.load(open('/root/.vp/BASELINE.json'))['stable_pass'])
passed = set()
for tc in ET.parse(sys.argv[1]).getroot().iter('testcase'):
    if not any(c.tag in ('failure', 'error', 'skipped') for c in tc):
        passed.add('%s::%s' % (tc.get('classname'), tc.get('name')))
print('%d/%d' % (len(base & passed), len(base)))
PY
)
cd - >/dev/null
echo "$NAME: demo orig rc=$rc0 (want 0), with change rc=$rc1 (want 1), baseline tests with change: $tests"
res=""
for c in $CHECKS; do
  VERIF_REPO=$WT VERIF_EVID_DIR=/tmp/cs.$NAME.evid ./check $c > /tmp/cs.$NAME.$c.log 2>&1; rc=$?
  sig=$(grep -m3 "violation signature" /tmp/cs.$NAME.$c.log | sed 's/ *violation signature: //; s/ (seen.*//' | tr '\n' ';')
  echo "   check $c rc=$rc $sig"
  res="$res $c:rc=$rc:$sig"
done
mkdir -p seeded/$NAME
cp $PATCH seeded/$NAME/patch.diff; cp $DEMO seeded/$NAME/demo.py
echo "$rc0 $rc1 $tests |$res" > seeded/$NAME/.confirm
rm -rf /tmp/cs.$NAME.evid /tmp/cs.$NAME.xml
