#!/bin/bash
# offline, idempotent: hypothesis into /venv if missing; atheris into /verif/.deps
HERE="$(cd "$(dirname "$0")" && pwd)"
/venv/bin/python -c 'import hypothesis' 2>/dev/null || \
  /venv/bin/pip install -q --no-index --find-links /opt/veriftools/wheels hypothesis || exit 1
mkdir -p "$HERE/.deps" "$HERE/evidence"
PYTHONPATH="$HERE/.deps" /venv/bin/python -c 'import atheris' 2>/dev/null || \
  /venv/bin/pip install -q --no-index --find-links /opt/veriftools/wheels --target "$HERE/.deps" atheris \
  || echo "setup: atheris not installable (optional, thorough-tier fuzz targets are skipped)"
exit 0
