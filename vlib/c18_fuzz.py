"""C18 atheris target (thorough tier, optional): coverage-guided search over the
byte-level shape of node files and `qstat -f` exec_vnode text, through the same
harness and the same oracle as the Hypothesis part (c18.run_case).

  python -m vlib.c18_fuzz <out.json> <runs> <seed>

The fuzzer input is decoded into a plain-data case (so every finding is an
ordinary replayable case): a few header bytes choose resource manager, variant,
node size, SMT, request and agent layout; the remaining bytes ARE the node file
(one byte per line: which host) resp. the exec_vnode chunking.  Coverage
feedback comes from radical.pilot.agent.resource_manager.* only.

Nothing is raised into libFuzzer: findings are collected by signature and
written to <out.json> together with the execution count when the run ends.
"""
import os
import sys
import json
import atexit

FILE_RM = ['TORQUE', 'CCM', 'LSF', 'COBALT', 'PBSPRO', 'PBSPRO']
PB_MODE = ['vnode', 'qstat_fail', 'no_vnode', 'vnode_extra']
PSEUDO  = ['batch1', 'login1', 'lassen7777']


def decode(data):
    import atheris
    f = atheris.FuzzedDataProvider(data)
    rm    = FILE_RM[f.ConsumeIntInRange(0, len(FILE_RM) - 1)]
    mode  = '-'
    if rm == 'PBSPRO':
        mode = PB_MODE[f.ConsumeIntInRange(0, 3)]
    elif rm == 'COBALT':
        mode = 'nodefile'
    n     = f.ConsumeIntInRange(1, 6)
    start = [0, 7, 8, 97, 998][f.ConsumeIntInRange(0, 4)]
    w     = [0, 0, 3, 5][f.ConsumeIntInRange(0, 3)]
    smt   = [1, 1, 2, 4][f.ConsumeIntInRange(0, 3)]
    phys  = f.ConsumeIntInRange(1, 6)
    conf  = f.ConsumeIntInRange(0, 2) > 0 or rm == 'COBALT' or \
            (rm == 'PBSPRO' and mode != 'vnode')
    nblk  = f.ConsumeIntInRange(0, 2) if conf else 0
    E     = phys * smt
    bc    = sorted(set(f.ConsumeIntInRange(0, E - 1) for _ in range(nblk)))
    want  = f.ConsumeIntInRange(1, n)
    nag   = f.ConsumeIntInRange(0, 2)
    svc   = f.ConsumeIntInRange(0, 1) == 1
    npse  = f.ConsumeIntInRange(0, 2) if rm == 'LSF' else 0
    wrap  = [0, 40, 79][f.ConsumeIntInRange(0, 2)]
    rest  = f.ConsumeBytes(f.remaining_bytes())

    lines, chunks = [], []
    if rm == 'PBSPRO' and mode in ('vnode', 'vnode_extra'):
        cur = []
        for b in rest[:24]:
            cur.append((b & 0x7f) % n)
            if b & 0x80:
                chunks.append(cur)
                cur = []
        if cur:
            chunks.append(cur)
    for b in rest[:96]:
        k = (b & 0x7f) % (n + npse)
        lines.append(k if k < n else -(k - n) - 1)

    avail = max(1, E - len(bc))
    return {
        'rm': rm, 'mode': mode,
        'groups': [{'pre': 'nid', 'suf': '', 'w': w,
                    'ids': list(range(start, start + n))}],
        'pseudo': PSEUDO[:npse], 'lines': lines, 'decoy': [], 'chunks': chunks,
        'wrap': wrap, 'ncpus_key': 'ncpus',
        'cpn': phys if conf else 0, 'smt': smt, 'smt_cfg': 'same',
        'hw': phys if rm == 'LSF' else E, 'cpus_env': True,
        'gpn': 0, 'gpu_env': '', 'gpu_hw': 0, 'lfs': 0, 'mem': 0,
        'blocked_cores': bc, 'blocked_gpus': [],
        'nodes': want if conf else 0, 'cores': want * avail, 'gpus': 0,
        'backup': 0, 'probe': ['ok'],
        'agents': ['node'] * nag, 'services': svc, 'fake': False,
        'drop_env': False, 'no_nodefile': False}


def seed_inputs():
    """canonical allocations as fuzzer inputs (FuzzedDataProvider takes integers
    from the END of the buffer, one byte each here, and bytes from the front)"""
    out = []
    for rm_i, rm in enumerate(FILE_RM[:5]):
        for mode_i in (range(4) if rm == 'PBSPRO' else [0]):
            for n, smt_i, phys, conf in ((2, 0, 2, 1), (3, 2, 4, 1), (3, 0, 3, 0),
                                         (4, 3, 2, 1)):
                smt  = [1, 1, 2, 4][smt_i]
                E    = phys * smt
                hdr  = [rm_i] + ([mode_i] if rm == 'PBSPRO' else [])
                hdr += [n - 1, 0, 0, smt_i, phys - 1, conf]
                real_conf = bool(conf) or rm == 'COBALT' or \
                            (rm == 'PBSPRO' and PB_MODE[mode_i] != 'vnode')
                if real_conf:
                    hdr += [0]                          # no blocked cores
                hdr += [n - 1, 1 if n > 2 else 0, 0]    # want, agents, services
                npse = 0
                if rm == 'LSF':
                    npse = 1
                    hdr += [npse]
                hdr += [1]                              # wrap 40
                per  = phys if rm == 'LSF' else E
                body = [n + j for j in range(npse)]
                for h in range(n):
                    body += [h | (0x80 if k == per - 1 else 0) for k in range(per)]
                out.append(bytes(b % 256 for b in body) + bytes(reversed(hdr)))
    return out


def main():
    out_path, runs, seed = sys.argv[1], int(sys.argv[2]), int(sys.argv[3])

    import atheris
    with atheris.instrument_imports(
            include=['radical.pilot.agent.resource_manager']):
        from vlib import boot                             # noqa: F401
        from vlib import c18
    from vlib.runner import safe_run

    state = {'execs': 0, 'found': {}, 'verdicts': {}, 'rms': {}}

    def dump():
        with open(out_path, 'w') as f:
            json.dump(state, f, sort_keys=True)

    atexit.register(dump)
    dump()

    def one(data):
        case = decode(data)
        res  = safe_run(c18, case)
        state['execs'] += 1
        for l in res.labels:
            if l.startswith('expect='):
                state['verdicts'][l] = state['verdicts'].get(l, 0) + 1
            elif l.startswith('rm='):
                state['rms'][l] = state['rms'].get(l, 0) + 1
        for sig, msg in res.problems:
            ent = state['found'].get(sig)
            size = len(json.dumps(case))
            if ent is None or size < ent['size']:
                state['found'][sig] = {'case': case, 'msg': msg, 'size': size,
                                       'count': (ent or {}).get('count', 0) + 1}
            else:
                ent['count'] += 1
        # libFuzzer leaves through _exit(): no atexit handlers, so write as we go
        if state['execs'] % 200 == 0 or state['execs'] >= runs - 3:
            dump()

    corpus = os.path.join(os.path.dirname(out_path) or '.', 'c18-corpus')
    os.makedirs(corpus, exist_ok=True)
    for i, data in enumerate(seed_inputs()):
        with open(os.path.join(corpus, 'seed-%03d' % i), 'wb') as f:
            f.write(data)
    argv = [sys.argv[0], '-runs=%d' % runs, '-seed=%d' % seed, '-max_len=128',
            '-print_final_stats=0', '-verbosity=0', corpus]
    atheris.Setup(argv, one)
    atheris.Fuzz()


if __name__ == '__main__':
    main()
