"""C01 - Pilot resources are never oversubscribed.  (DESIGN.md 4/C01)

(a) scheduler pair (real Continuous / ContinuousJsrun loop in a baton-passing
    thread) over generated histories; holder-set oracle at every grant.
(b) application-level NodeList API against an occupancy model.
"""
from . import boot                                    # noqa: F401
from .runner import CaseResult, Part
from . import schedsim, schedgen, nodelistsim, c01_reserved

PID  = 'C01'
RULE = ('histories = (node layout incl. blocked cores/GPUs, lfs, mem) x op list (submit bulk / '
        'application-placed submit / finish k-th holder / cancel / step n yield points of the real '
        'scheduling loop / settle); holder set = granted and unschedule not yet published; oracle at '
        'every grant over holders+new: cores disjoint, GPU shares <= 1, lfs/mem <= node, no blocked or '
        'unknown resource.  non-trivial = a grant onto a node that already hosts another holder, or a '
        'grant with fractional GPU / lfs / mem / blocked resources in the layout / application-supplied '
        'slots; distinct = canonical case.  nodelist cases: find_slots/release_slots sequences, '
        'non-trivial = a successful find while other slots are held or with partial occupation')
ASSUMPTIONS = [
    'scheduler pair: mp.Queue/Event/Process, time, ru.PWatcher, ResourceManager.create rebound in the '
    'harness process; the forked child is a fork-like copy sharing the two queues',
    'node list built the way ResourceManager._init_from_scratch builds it (blocked -> DOWN, '
    'cores_per_node reduced by the number of blocked cores)',
    'application placements are obtained from NodeList.find_slots on a client-side copy of the node '
    'list and are only submitted at quiescent points when they do not collide with scheduler grants '
    '(an application-level conflict is not demanded by the property)',
    'in-memory transport with msgpack copies; get_version shim']
NOT_REACHED = ['agent/service nodes are removed from the node list by the resource manager (C18), the '
               'scheduler never sees them; NumaNode placement path']
normalise = schedgen.normalise
BUDGET = {'quick': 160, 'thorough': 1500}


def parts(tier):
    T = (tier == 'thorough')      # thorough: larger layouts, longer histories
    return [
        Part('reserved_nodes', c01_reserved.cases(), quick=150, thorough=1500),
        Part('continuous', schedgen.histories(max_ops=40 if not T else 80, big=T), quick=170, thorough=1000),
        Part('lfs_mem_heavy', schedgen.histories(max_ops=25 if not T else 50, big=T, heavy=True, app=False), quick=60, thorough=300),
        Part('gpu_shares_blocked_gpus', schedgen.histories(max_ops=20 if not T else 40, big=T, app=False, gpu_focus=True), quick=50, thorough=300),
        Part('jsrun_gpu_shares', schedgen.histories(max_ops=20 if not T else 40, big=T, cls='jsrun', app=False,
                                                    gpu_focus=True), quick=40, thorough=300),
        Part('jsrun', schedgen.histories(max_ops=30 if not T else 60, big=T, cls='jsrun', app=False), quick=40, thorough=200),
        Part('nodelist', nodelistsim.nl_cases(), quick=250, thorough=2500),
        Part('nodelist_numa', nodelistsim.numa_cases(), quick=80, thorough=600),
        Part('nodelist_concurrent', nodelistsim.mt_cases(), quick=150, thorough=1500),
    ]


def run_case(case):
    if case.get('kind') == 'reserved_nodes':
        return c01_reserved.run_case(case)
    if case.get('kind') == 'nodelist_mt':
        P, s = nodelistsim.run_nodelist_mt(case)
        res = CaseResult()
        for p, sig, msg in P:
            if p == PID:
                res.fail(sig, msg)
        res.nontrivial = s['granted'] >= 2
        res.label('nodelist:concurrent_placements')
        return res
    if case.get('kind') == 'nodelist':
        P, s = nodelistsim.run_nodelist(case)
        res = CaseResult()
        for p, sig, msg in P:
            if p == PID:
                res.fail(sig, msg)
        res.nontrivial = s['finds_ok'] >= 2 and (s['shared'] > 0 or s['partial_occ'] > 0)
        res.label('nodelist')
        if s['partial_occ']:
            res.label('nodelist:partial_occupation')
        if s['blocked']:
            res.label('nodelist:blocked')
        if s.get('same_names'):
            res.label('nodelist:all_nodes_share_a_name')
        return res
    sim = schedsim.run_history(case)
    s = sim.stats
    lay = case['layout']
    nt = s['grants'] > 0 and (s['grants_shared_node'] > 0 or s['frac_gpu'] or s['lfs_mem'] or
                               s['app_placed'] or
                               ((lay.get('blocked_cores') or lay.get('blocked_gpus')) and s['grants'] > 1))
    res = schedgen.to_result(sim, PID, nt)
    res.label('cls=%s' % case.get('cls', 'continuous'))
    for k in ('grants_shared_node', 'frac_gpu', 'lfs_mem', 'app_placed', 'multi_node',
              'cancel_running', 'waited'):
        if s[k]:
            res.label(k)
    if lay.get('blocked_cores') or lay.get('blocked_gpus'):
        res.label('blocked_layout')
    return res
