"""C19 - Descriptions and payloads survive normalisation and transport.
(DESIGN.md 4/C19)

Part 1 (c19_desc)  : TaskDescription / PilotDescription - construct from any
        subset of documented current + deprecated attribute names, verify,
        verify again, as_dict -> constructor (directly and over msgpack).
Part 2 (c19_funcs) : PythonTask / @pythontask / serializer -> TaskDescription
        -> wire -> real `Worker._dispatch_func` on a hollow raptor worker.
Part 3 (c19_slots) : convert_slots_to_new / _old / Slot in every accepted
        format and in the formats the other direction produces.
"""
from . import boot                                    # noqa: F401
from .runner import CaseResult, Part

from . import c19_desc, c19_funcs, c19_slots

PID  = 'C19'
RULE = ('three generated sub-domains. descriptions: one of 11 task modes (or none), the '
        'mode\'s required attribute present / missing / empty / replaced by another mode\'s, '
        '0-5 deprecated names, their replacements, up to 8 further documented attributes with '
        'values of the documented type (1 in 8 as castable look-alikes); pilot descriptions '
        'likewise; non-trivial = >=1 deprecated and >=1 current attribute given (pilot: >=4 '
        'attributes incl. a container). functions: index into a pool of 33 callables (module '
        'level, lambda, partial, closures over generated constants, defaults, kw-only, async, '
        'bound/class/static methods, callable objects, by-value pickled script functions) x '
        'encoder (PythonTask with/without args/kwargs, @pythontask, serializer) x JSON-like / '
        'tuple / bytes / set arguments; non-trivial = non-empty kwargs or callable with default '
        'arguments. slots: 0-5 placements x 7 formats; non-trivial = >=2 nodes and GPUs. '
        'distinct = distinct case data')
ASSUMPTIONS = [
    'deprecated-name mapping, per-mode required attributes and attribute types are tables '
    'written from the docstrings/comments of task_description.py and pilot_description.py',
    'TypedDict `==` is dict.__eq__ on the (always empty) base storage and therefore vacuous; '
    'equality is decided by type-strict comparison of as_dict()',
    'transport = msgpack round trip of as_dict() (what ru.zmq does)',
    'raptor Worker is built hollow (no constructor: registry, zmq, heartbeat); the real '
    '`_dispatch_func` coroutine is run with asyncio.run as DefaultWorker does',
    'decoding happens in the encoding process (module-level pool functions are pickled by '
    'reference; script-style functions, lambdas, closures by value)',
    'radical.utils.get_version shim (src/radical/pilot/VERSION absent in this tree)']
NOT_REACHED = [
    'decoding in a different interpreter / python version than the encoder',
    'attribute values of the wrong type (TypedDict raises TypeError) and undocumented '
    'attribute names / modes are outside the generated domain',
    'which of a deprecated name and its replacement wins when both are given with different '
    'values is not documented: either value is accepted',
    'gpu_process_type / gpu_thread_type: the documentation contradicts itself about which one '
    'maps to gpu_type; either reading is accepted']


def parts(tier):
    return [Part('task_descriptions',  c19_desc.td_cases(),    quick=3000, thorough=16000),
            Part('pilot_descriptions', c19_desc.pd_cases(),    quick=800,  thorough=4000),
            Part('function_payloads',  c19_funcs.fn_cases(),   quick=1500, thorough=8000),
            Part('object_payloads',    c19_funcs.obj_cases(),  quick=300,  thorough=1000),
            Part('slot_lists',         c19_slots.slot_cases(), quick=2000, thorough=10000)]


RUNNERS = {'td'   : c19_desc.run_td,
           'pd'   : c19_desc.run_pd,
           'fn'   : c19_funcs.run_fn,
           'obj'  : c19_funcs.run_obj,
           'slots': c19_slots.run_slots}


def normalise(case):
    if not isinstance(case, dict) or case.get('kind') not in RUNNERS:
        return None
    k = case['kind']
    if k in ('td', 'pd'):
        attrs = case.get('attrs')
        if not isinstance(attrs, list):
            return None
        case = dict(case, attrs=[a for a in attrs
                                 if isinstance(a, list) and len(a) == 2
                                 and isinstance(a[0], str)])
    if k == 'fn':
        if not isinstance(case.get('func'), int):
            return None
        if not isinstance(case.get('args', []), list) or \
           not isinstance(case.get('kwargs', {}), dict):
            return None
    if k == 'slots':
        if not isinstance(case.get('slots'), list):
            return None
        for s in case['slots']:
            if not isinstance(s, dict) or \
               any(f not in s for f in ('node', 'index', 'cores', 'gpus', 'lfs', 'mem')):
                return None
    return case


def run_case(case):
    res = CaseResult()
    RUNNERS[case['kind']](case, res)
    return res
