"""fluxsim: the Flux executor and the Flux launch method wired together, without Flux.

Real  : agent/executing/flux.py `Flux.work`, `_handle_event_cb`, `control_cb` -> `cancel_task`,
        `advance_tasks`; agent/launch_method/flux.py `Flux.submit_tasks`, `cancel_task`,
        `_job_id_handler`, `_job_event_handler` (what its queue watcher calls).
Faked : the Flux instances: one stand-in per partition which takes what the launch method puts on
        the partition's input queue (`submit` with job specs, `cancel` with a task id), hands out
        job ids and produces the job events; `_create_spec` (needs the flux bindings) returns a
        plain dict; the order in which job-id messages and job events of each task reach the
        launch method is part of the case.

A case: tasks (fate as in c05_flux + optional `pre_launch` commands, one of which may fail +
optional pinned partition), number of partitions, per task the position of the job-id message
among its events, the delivery order across tasks, and cancel requests (for which tasks, after how
many delivered messages).

Problems are tagged with the property they belong to:
  C05  every task exactly one ending, DONE iff exit 0, CANCELED iff a cancel was requested and hit ...
  C07  handed on exactly once; a task whose pre_launch fails is FAILED and never submitted
  C08  a cancel request reaches the partition which runs the named task, and only named tasks
"""
import copy
import threading as mt
from collections import defaultdict

from hypothesis import strategies as st

from . import boot                                    # noqa: F401
from .runner import exc_sig

import radical.utils           as ru
import radical.pilot.states    as rps
import radical.pilot.constants as rpc

from radical.pilot.agent                    import LaunchMethod
from radical.pilot.agent.executing.base     import AgentExecutingComponent
from radical.pilot.agent.executing.flux     import Flux as FluxExecutor
from radical.pilot.agent.launch_method.flux import Flux as FluxLM

NOISE = ['submit', 'depend', 'priority', 'alloc']      # events before `start`


class _Null(object):
    def __getattr__(self, name):
        return lambda *a, **k: None


class _Q(object):
    def __init__(self):
        self.items = []

    def put(self, x):
        self.items.append(copy.deepcopy(x))


class _OutQ(object):
    """a partition's output queue as the launch method's queue watcher reads it"""
    def __init__(self):
        self.items = []

    def empty(self):
        return not self.items

    def get(self, *a, **k):
        return self.items.pop(0)

    def get_nowait(self):
        import queue
        if not self.items:
            raise queue.Empty()
        return self.items.pop(0)

    def put(self, x):
        self.items.append(x)


class _Idle(BaseException):
    pass


class _WatcherTime(object):
    """`time` of the launch method module while the queue watcher runs: it sleeps only when no
    queue had anything for it - then the pass is over"""
    def time(self):
        return 0.0

    def sleep(self, dt):
        raise _Idle()


class _Event(object):
    def __init__(self, name, context=None, timestamp=0.0):
        self.name, self.context, self.timestamp = name, context or dict(), timestamp


@st.composite
def cases(draw, cancels=True, prelaunch=True):
    n_parts = draw(st.sampled_from([1, 2, 2, 3]))
    n = draw(st.integers(1, 6))
    tasks = []
    for i in range(n):
        k = draw(st.sampled_from(['exit', 'exit', 'exit', 'signal', 'fatal']))
        fate = ['exit', draw(st.sampled_from([0, 0, 0, 1, 3]))] if k == 'exit' else \
               ['signal', draw(st.sampled_from([9, 15, 11]))] if k == 'signal' else ['fatal']
        t = {'fate': fate,
             'id_pos': draw(st.sampled_from([0, 0, 1, 2, 5, 9])),     # job id arrives after that many of its events
             'part': draw(st.sampled_from([None, None, None, 0, 1, 2])),
             'bulk': draw(st.integers(0, 1))}
        if prelaunch and draw(st.integers(0, 3)) == 0:
            t['pre'] = draw(st.lists(st.sampled_from(['true', 'true', 'false']), min_size=1, max_size=3))
        tasks.append(t)
    n_msgs = sum(7 for _ in tasks)
    order = draw(st.lists(st.integers(0, n - 1), min_size=n_msgs, max_size=n_msgs))
    reqs = []
    if cancels and draw(st.booleans()):
        for _ in range(draw(st.integers(1, 2))):
            reqs.append([draw(st.integers(0, n_msgs // 2)),
                         draw(st.lists(st.integers(0, n - 1), min_size=1, max_size=2, unique=True))])
    return {'kind': 'fluxsim', 'parts': n_parts, 'tasks': tasks, 'order': order, 'cancels': reqs}


def normalise(case):
    try:
        ts = []
        for t in case.get('tasks', []):
            f = t.get('fate')
            if not isinstance(f, list) or not f or f[0] not in ('exit', 'signal', 'fatal'):
                continue
            d = {'fate': f, 'id_pos': max(0, int(t.get('id_pos') or 0)),
                 'part': t.get('part') if t.get('part') in (0, 1, 2) else None,
                 'bulk': int(bool(t.get('bulk')))}
            if t.get('pre'):
                d['pre'] = [c for c in t['pre'] if c in ('true', 'false')][:3]
            ts.append(d)
        if not ts:
            return None
        n = len(ts)
        return {'kind': 'fluxsim', 'parts': max(1, min(3, int(case.get('parts') or 1))), 'tasks': ts,
                'order': [int(x) % n for x in case.get('order', []) if isinstance(x, int)],
                'cancels': [[max(0, int(c[0])), [int(u) % n for u in c[1]]]
                            for c in case.get('cancels', [])
                            if isinstance(c, list) and len(c) == 2 and isinstance(c[1], list) and c[1]]}
    except Exception:
        return None


class FluxSim(object):

    def __init__(self, n_parts):
        self.problems = []
        self.record   = []                            # (uid, state, push, snapshot)
        self.n_parts  = n_parts

        lm = FluxLM.__new__(FluxLM)
        lm._log = lm._prof = _Null()
        lm._partitions  = list()
        lm._idmap       = dict()
        lm._part_map    = dict()
        lm._events      = defaultdict(list)
        lm._events_lock = mt.Lock()
        lm._in_queues   = [_Q() for _ in range(n_parts)]
        lm._out_queues  = [_OutQ() for _ in range(n_parts)]

        def start_flux(event_cb):
            lm._event_cb = event_cb
        lm.start_flux = start_flux
        self.lm = lm

        comp = FluxExecutor.__new__(FluxExecutor)
        comp._uid  = 'agent_executing.0000'
        comp._log  = comp._prof = _Null()
        comp._session = ru.Config(from_dict={'cfg' : {'pid': 'pilot.0000', 'reg_addr': 'none'},
                                             'rcfg': {'launch_methods': {'FLUX': {}}}})
        comp._rm   = ru.Config(from_dict={'info': {'n_partitions': n_parts}})

        def base_init(self_):
            self_._to_tasks = list()
            self_._to_lock  = mt.Lock()

        old_init, old_create = AgentExecutingComponent.initialize, LaunchMethod.__dict__['create']
        AgentExecutingComponent.initialize = base_init
        LaunchMethod.create = classmethod(lambda cls, *a, **k: lm)
        try:
            comp.initialize()
        finally:
            AgentExecutingComponent.initialize = old_init
            LaunchMethod.create = old_create

        def advance(things, state=None, publish=True, push=False, ts=None, **kw):
            for t in ru.as_list(things):
                if state:
                    t['state'] = state
                self.record.append((t['uid'], state, bool(push), copy.deepcopy(
                    {k: t.get(k) for k in ('target_state', 'exit_code')})))
        comp.advance = advance
        comp.publish = lambda *a, **k: None
        comp._create_spec = lambda task: {'uid': task['uid']}
        self.comp = comp

        # the stand-in Flux instances
        self.jobs      = {}                           # uid -> {'part', 'fid', 'events', 'pos', 'id_sent'}
        self.cancel_at = defaultdict(list)            # partition -> uids it was asked to cancel
        self._drained  = [0] * n_parts
        self._fid      = 1000

    def bad(self, prop, sig, msg=''):
        self.problems.append((prop, sig, msg))

    # -- partitions take what the launch method put on their queues
    def drain_queues(self, specs_of):
        for p, q in enumerate(self.lm._in_queues):
            while self._drained[p] < len(q.items):
                msg = q.items[self._drained[p]]
                self._drained[p] += 1
                if msg[0] == 'submit':
                    for uid in msg[1]:
                        self._fid += 1
                        self.jobs[uid] = {'part': p, 'fid': self._fid, 'pos': 0, 'id_sent': False,
                                          'events': specs_of(uid), 'canceled': False}
                elif msg[0] == 'cancel':
                    uid = msg[1]
                    self.cancel_at[p].append(uid)
                    job = self.jobs.get(uid)
                    if job and job['part'] == p and not job['canceled'] and \
                            not any(e.name in ('finish', 'exception') for e in job['events'][:job['pos']]):
                        # the job is running here and has not ended yet: it is killed
                        job['canceled'] = True
                        job['events'] = job['events'][:job['pos']] + \
                            [_Event('exception', {'type': 'cancel', 'severity': 0})]

    def deliver_next(self, uid, id_pos):
        """the next message of this task reaches the launch method's queue watcher"""
        job = self.jobs.get(uid)
        if job is None:
            return False
        q = self.lm._out_queues[job['part']]
        if not job['id_sent'] and (job['pos'] >= id_pos or job['pos'] >= len(job['events'])):
            job['id_sent'] = True
            q.put(['job_id', (uid, job['fid'])])
            self.pump()
            return True
        if job['pos'] < len(job['events']):
            ev = job['events'][job['pos']]
            job['pos'] += 1
            q.put(['event', (job['fid'], ev)])
            self.pump()
            return True
        return False

    def pump(self):
        """the launch method's real queue watcher runs until it finds nothing to do"""
        from radical.pilot.agent.launch_method import flux as m_lm
        old = m_lm.time
        m_lm.time = _WatcherTime()
        try:
            self.lm._queue_watcher()
        except _Idle:
            pass
        finally:
            m_lm.time = old

    def undelivered(self):
        return sum(len(q.items) for q in self.lm._out_queues)


def run(case):
    n_parts = case['parts']
    sim = FluxSim(n_parts)
    specs = case['tasks']
    uids  = ['task.%06d' % i for i in range(len(specs))]
    stats = {'events_before_id': 0, 'cancel_hit': 0, 'pre_failed': 0, 'parts_used': set()}

    def events_of(uid):
        f = specs[uids.index(uid)]['fate']
        evs = [_Event(n) for n in NOISE] + [_Event('start')]
        if f[0] == 'exit':
            evs.append(_Event('finish', {'status': int(f[1]) << 8}))
        elif f[0] == 'signal':
            evs.append(_Event('finish', {'status': int(f[1])}))
        else:
            evs.append(_Event('exception', {'type': 'exec', 'severity': 0}))
        if f[0] != 'fatal':
            evs += [_Event('release'), _Event('free'), _Event('clean')]
        return evs

    pre_fails = {}
    tasks = {}
    for u, s in zip(uids, specs):
        d = {'uid': u, 'executable': '/bin/true', 'partition': s.get('part') if
             (s.get('part') is not None and s['part'] < n_parts) else None, 'environment': {}}
        if s.get('pre'):
            d['pre_launch'] = list(s['pre'])
            pre_fails[u] = 'false' in s['pre']
        tasks[u] = {'uid': u, 'origin': 'client', 'state': rps.AGENT_EXECUTING_PENDING,
                    'task_sandbox_path': boot.case_dir('flux'), 'description': d}
    stats['pre_failed'] = sum(1 for v in pre_fails.values() if v)

    try:
        for b in (0, 1):
            bulk = [tasks[u] for u, s in zip(uids, specs) if s.get('bulk', 0) == b]
            if bulk:
                sim.comp.work(bulk)
                sim.drain_queues(events_of)
    except Exception as e:                            # noqa
        sim.bad('C07', exc_sig('flux:work_raised', e), repr(e))
        return sim, stats

    cancels = sorted(case.get('cancels') or [])
    requested = set()
    n_delivered = 0

    def fire_cancels():
        while cancels and cancels[0][0] <= n_delivered:
            _, idx = cancels.pop(0)
            named = [uids[i % len(uids)] for i in idx]
            requested.update(named)
            try:
                sim.comp.control_cb(rpc.CONTROL_PUBSUB, {'cmd': 'cancel_tasks', 'arg': {'uids': named}})
            except Exception as e:                    # noqa
                sim.bad('C08', exc_sig('flux:cancel_raised', e), repr(e))
            sim.drain_queues(events_of)

    order = list(case.get('order') or []) + [i for i in range(len(uids)) for _ in range(12)]
    for i in order:
        fire_cancels()
        u = uids[i % len(uids)]
        job = sim.jobs.get(u)
        if job and not job['id_sent'] and job['pos'] > 0:
            pass
        try:
            if sim.deliver_next(u, specs[i % len(uids)]['id_pos']):
                n_delivered += 1
                j = sim.jobs[u]
                if not j['id_sent'] and j['pos'] > 5:
                    stats['events_before_id'] += 1
        except Exception as e:                        # noqa
            sim.bad('C05', exc_sig('flux:event_path_raised', e), '%s: %r' % (u, e))
    cancels_left = bool(cancels)
    while cancels:
        n_delivered = max(n_delivered, cancels[0][0])
        fire_cancels()

    # whatever the partitions reported has been taken off their queues
    for _ in range(3):
        sim.pump()
    if sim.undelivered():
        sim.bad('C07', 'flux:partition_messages_never_read', '%d messages left on the partitions\' output '
                'queues: %s' % (sim.undelivered(), [len(q.items) for q in sim.lm._out_queues]))

    # ---- oracle
    for u, s in zip(uids, specs):
        f = s['fate']
        job = sim.jobs.get(u)
        ends = [r for r in sim.record if r[0] == u and
                (r[1] == rps.AGENT_STAGING_OUTPUT_PENDING or r[1] in rps.FINAL)]
        if job:
            stats['parts_used'].add(job['part'])
        if pre_fails.get(u):
            # a pre_launch command failed: the task cannot be launched
            if job is not None:
                sim.bad('C07', 'flux:unlaunchable_task_submitted', '%s (pre_launch %s) was handed to Flux '
                        'on partition %d' % (u, s['pre'], job['part']))
            if len(ends) != 1 or ends[0][1] != rps.FAILED:
                sim.bad('C07', 'flux:unlaunchable_task_ended_%s' % ('never' if not ends else 'wrong'),
                        '%s: %s' % (u, [(e[1], e[3]) for e in ends]))
            continue
        if job is None:
            sim.bad('C07', 'flux:task_never_submitted', u)
            continue
        if not ends and job['canceled']:
            sim.bad('C08', 'flux:canceled_task_never_ends', '%s was killed on request (partition %d) and '
                    'is never handed on as CANCELED' % (u, job['part']))
        if len(ends) != 1:
            sim.bad('C07', 'flux:handed_on_%s' % ('never' if not ends else 'twice'),
                    '%s fate %s, job id after %d events: %s'
                    % (u, f, s['id_pos'], [(e[1], e[3]) for e in ends]))
            if not ends:
                sim.bad('C05', 'flux:task_never_ended', '%s fate %s, job id after %d of its events'
                        % (u, f, s['id_pos']))
            continue
        _, state, push, snap = ends[0]
        got  = snap['target_state'] if state == rps.AGENT_STAGING_OUTPUT_PENDING else state
        want = rps.CANCELED if job['canceled'] else rps.DONE if f == ['exit', 0] else rps.FAILED
        if got != want:
            sim.bad('C05', 'flux:outcome_wrong:%s_instead_of_%s' % (got, want), '%s fate %s canceled %s'
                    % (u, f, job['canceled']))
        if got == rps.CANCELED and u not in requested:
            sim.bad('C08', 'flux:unnamed_task_canceled', u)

    # cancel requests reach the partition which runs the task - and name nobody else
    for p, named in sim.cancel_at.items():
        for u in named:
            if u not in requested:
                sim.bad('C08', 'flux:cancel_for_unnamed_task', '%s on partition %d' % (u, p))
            elif u in sim.jobs and sim.jobs[u]['part'] != p:
                sim.bad('C08', 'flux:cancel_sent_to_wrong_partition', '%s runs on partition %d, the '
                        'request went to partition %d' % (u, sim.jobs[u]['part'], p))
    for u in requested:
        job = sim.jobs.get(u)
        if job is None:
            continue
        if u not in sim.cancel_at.get(job['part'], []):
            sim.bad('C08', 'flux:cancel_never_reached_the_task', '%s runs on partition %d; requests seen '
                    'per partition: %s' % (u, job['part'], dict(sim.cancel_at)))
        if job['canceled']:
            stats['cancel_hit'] += 1
    stats['cancels_left'] = cancels_left
    return sim, stats


def run_case_for(pid, case):
    from .runner import CaseResult
    res = CaseResult()
    sim, st_ = run(case)
    for p, sig, msg in sim.problems:
        if p == pid:
            res.fail(sig, msg)
    res.label('flux_pipeline', 'flux_pipeline:partitions=%d' % case['parts'])
    if st_['events_before_id']:
        res.label('flux_pipeline:events_overtake_job_id')
    if st_['cancel_hit']:
        res.label('flux_pipeline:running_task_canceled')
    if st_['pre_failed']:
        res.label('flux_pipeline:pre_launch_fails')
    if len(st_['parts_used']) > 1:
        res.label('flux_pipeline:bulk_over_several_partitions')
    res.nontrivial = bool(st_['events_before_id'] or st_['cancel_hit'] or st_['pre_failed'])
    res.key = case
    return res
