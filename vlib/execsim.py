"""execsim: the executor assembly (DESIGN.md 3.6 / C07): real Popen executor after its
real initialize(), its four activities as baton-passing threads:
   intake  : BaseComponent.work_cb -> work -> _handle_task -> _launch_task
   watch   : the real _watch loop (-> _check_running)
   to      : the real _to_watcher loop (run-time limits, virtual clock)
   cancel  : BaseComponent._control_cb -> control_cb -> cancel_task
Yield points: FakeProc.poll/wait, the executor's locks, queue gets, sleeps, the launcher's
cancel_task, publish and advance.  A schedule is plain data.
"""
import os
import queue as _queue
import collections

from . import boot
from .hollow   import HollowSession, comp_cfg
from .detsched import Baton, FakeQueue, FakeEvent, DetSchedError
from .runner   import exc_sig

import radical.utils as ru
import radical.pilot as rp
import radical.pilot.states    as rps
import radical.pilot.constants as rpc

import radical.pilot.agent.executing.base  as ebase
import radical.pilot.agent.executing.popen as epopen
import radical.pilot.agent.executing.noop  as enoop
import radical.pilot.agent.launch_method.base as lm_base
import radical.pilot.agent.launch_method.srun as lm_srun

_CTX = {'sim': None}


# ------------------------------------------------------------------------------
class FakeLock(object):
    def __init__(self, baton, name, reentrant=False):
        self.baton, self.name, self.reentrant = baton, name, reentrant
        self.owner = None
        self.depth = 0

    def held(self):
        return self.owner is not None

    def acquire(self, blocking=True, timeout=-1):
        ct = self.baton.current()
        me = ct or 'main'
        self.baton.yield_point('lock:%s' % self.name)
        if self.reentrant and self.owner is me:
            self.depth += 1
            return True
        while self.owner is not None:
            if ct is None or self.baton.closing:
                raise DetSchedError('would block forever on lock %s' % self.name)
            ct.blocked = self
            self.baton.yield_point('blocked:%s' % self.name)
        if ct:
            ct.blocked = None
        self.owner, self.depth = me, 1
        sim = _CTX.get('sim')
        if sim is not None and ct is not None and getattr(ct, 'name', None) == 'to' and \
                self is getattr(getattr(sim, 'comp', None), '_to_lock', None):
            # the limit watcher starts a pass: it reads what was registered / reported so far
            sim.to_pass_starts.append(sim.steps)
        return True

    def release(self):
        self.depth -= 1
        if self.depth <= 0:
            self.owner = None
            # another thread may run right after the lock is given up (before the next
            # statement of this one)
            self.baton.yield_point('unlock:%s' % self.name)

    def __enter__(self):
        self.acquire()
        return self

    def __exit__(self, *a):
        self.release()


class YieldDict(dict):
    """the executor's ownership set with yield points at membership test, lookup,
    insertion and deletion (a preemption there is what the check lock guards against)"""
    baton = None

    def __contains__(self, k):
        self.baton.yield_point('tasks:in')
        return dict.__contains__(self, k)

    def __delitem__(self, k):
        self.baton.yield_point('tasks:del')
        return dict.__delitem__(self, k)

    def get(self, k, d=None):
        self.baton.yield_point('tasks:get')
        return dict.get(self, k, d)

    def update(self, *a, **k):
        self.baton.yield_point('tasks:update')
        return dict.update(self, *a, **k)


class _Thread(object):
    """mt.Thread that is recorded, never started"""
    def __init__(self, target=None, args=(), kwargs=None, name=None, daemon=None):
        self.target, self.args, self.kwargs = target, args, kwargs or {}
        self.daemon = daemon
        self.name = name

    def start(self):
        _CTX['sim'].recorded_threads.append(self)

    def join(self, timeout=None):
        pass

    def is_alive(self):
        return True


class _MT(object):
    Thread = _Thread

    @staticmethod
    def Lock():
        sim = _CTX['sim']
        sim._nlock += 1
        return FakeLock(sim.baton, 'L%d' % sim._nlock)

    @staticmethod
    def RLock():
        sim = _CTX['sim']
        sim._nlock += 1
        return FakeLock(sim.baton, 'R%d' % sim._nlock, reentrant=True)

    @staticmethod
    def Event():
        return FakeEvent(_CTX['sim'].baton)

    def __getattr__(self, name):
        import threading
        return getattr(threading, name)


class _Time(object):
    """virtual clock; sleep is a pure yield point (time only moves by 'tick')"""
    def time(self):
        return _CTX['sim'].baton.now

    def sleep(self, dt):
        _CTX['sim'].baton.yield_point('sleep')

    def __getattr__(self, name):
        import time as _t
        return getattr(_t, name)


class _Queue(object):
    Empty = _queue.Empty
    Full  = _queue.Full

    @staticmethod
    def Queue(*a, **k):
        return FakeQueue(_CTX['sim'].baton, name='watch')


class FakeProc(object):
    def __init__(self, sim, uid, stdout):
        self.sim, self.uid = sim, uid
        sim._npid += 1
        self.pid = 40000 + sim._npid
        self.returncode = None
        self.killed = False
        self.stdout_h = stdout
        self.polls = 0
        self.spawner = sim.baton.current()
        self.exit_step = None
        self.child_alive = bool((sim.tasks.get(uid) or {}).get('stubborn'))
        sim.procs.append(self)
        sim.proc_of[uid] = self

    def held(self):                      # "blocked on me" while still running
        return self.returncode is None

    def poll(self):
        self.polls += 1
        self.sim.baton.yield_point('poll')
        return self.returncode

    def wait(self, timeout=None):
        ct = self.sim.baton.current()
        self.sim.baton.yield_point('wait')
        while self.returncode is None:
            if ct is None or self.sim.baton.closing:
                raise DetSchedError('wait() on a live process would block forever')
            ct.blocked = self
            self.sim.baton.yield_point('blocked:proc')
        if ct:
            ct.blocked = None
        self.reaped = True           # collected: the pid (process group) is gone from now on
        return self.returncode


class _SP(object):
    STDOUT = -2
    PIPE   = -1

    @staticmethod
    def Popen(args=None, stdout=None, **kw):
        sim = _CTX['sim']
        uid = os.path.basename(str(args)).split('.launch.sh')[0]
        if sim.fault_of.get(uid) == 'spawn':
            if stdout is not None and hasattr(stdout, 'close'):
                sim.handles.append(stdout)
            raise OSError(8, 'Exec format error (injected)')
        if stdout is not None and hasattr(stdout, 'close'):
            sim.handles.append(stdout)
        sim.baton.yield_point('spawn')
        return FakeProc(sim, uid, stdout)


class _RU(object):
    """popen's `ru`: real radical.utils except for an ru_open that can fail"""
    def ru_open(self, path, *a, **k):
        sim = _CTX['sim']
        uid = os.path.basename(path).split('.launch.out')[0]
        if sim is not None and sim.fault_of.get(uid) == 'open' and path.endswith('.launch.out'):
            raise IOError(13, 'Permission denied (injected)')
        return ru.ru_open(path, *a, **k)

    def __getattr__(self, name):
        return getattr(ru, name)


class _KillOS(object):
    @property
    def sim(self):
        return _CTX['sim']

    def killpg(self, pid, sig):
        if self.sim is None:
            return os.killpg(pid, sig)
        self.sim.baton.yield_point('kill')
        import signal as _sig
        for p in self.sim.procs:
            if p.pid == pid:
                if getattr(p, 'reaped', False) and not p.child_alive:
                    raise ProcessLookupError(3, 'No such process')
                # the group: the launch process and (for some tasks) a member which handles
                # SIGINT / SIGTERM itself and only goes away on SIGKILL
                if int(sig) == int(_sig.SIGKILL):
                    p.child_alive = False
                if p.returncode is None:
                    p.killed = True
                    p.kill_step = self.sim.steps
                    p.returncode = -int(sig)
                return
        raise ProcessLookupError(3, 'No such process')

    def kill(self, pid, sig):
        # one process, not its group
        if self.sim is None:
            return os.kill(pid, sig)
        self.sim.baton.yield_point('kill')
        for p in self.sim.procs:
            if p.pid == pid:
                if getattr(p, 'reaped', False):
                    raise ProcessLookupError(3, 'No such process')
                if p.returncode is None:
                    p.killed = True
                    p.returncode = -int(sig)
                return
        raise ProcessLookupError(3, 'No such process')

    def __getattr__(self, name):
        return getattr(os, name)


class _KillTime(object):
    def sleep(self, dt):
        sim = _CTX['sim']
        if sim is None:
            import time as _t
            return _t.sleep(dt)
        sim.baton.yield_point('sleep')

    def __getattr__(self, name):
        import time as _t
        return getattr(_t, name)


class FakeLauncher(object):
    name = 'FAKE'

    def __init__(self, sim):
        self.sim = sim
        self.cancelled = []

    def get_task_named_env(self, name):
        return '/dev/null'

    def get_rank_cmd(self):
        return 'export RP_RANK=0\n'

    def get_exec(self, task):
        return '/bin/true'

    def get_launch_cmds(self, task, exec_path):
        return '/bin/sh %s' % exec_path

    def get_launcher_env(self):
        return []

    def can_launch(self, task):
        return True, ''

    def cancel_task(self, task, pid):
        # the real LaunchMethod.cancel_task (killpg TERM, sleep, killpg KILL) over a fake `os` /
        # `time`: a process which is still running is killed, one which ended but was not
        # collected yet (zombie) accepts the signal, one which was already collected (wait()ed)
        # is gone: killpg raises ProcessLookupError
        self.cancelled.append(task['uid'])
        self._log = boot.LOG
        if (self.sim.tasks.get(task['uid']) or {}).get('srun'):
            # the one launch method which overrides the kill routine (SIGINT twice, then SIGKILL)
            lm_srun.Srun.cancel_task(self, task, pid)
        else:
            lm_base.LaunchMethod.cancel_task(self, task, pid)


class FakeRM(object):
    def __init__(self, sim):
        self.sim = sim
        self.launcher = FakeLauncher(sim)

    def find_launcher(self, task):
        if self.sim.fault_of.get(task['uid']) == 'no_launcher':
            return None, None
        return self.launcher, 'FAKE'

    def get_launcher(self, name):
        return self.launcher


class _RPA(object):
    class ResourceManager(object):
        @staticmethod
        def create(name, cfg, rcfg, log, prof):
            return _CTX['sim'].rm

    def __getattr__(self, name):
        import radical.pilot.agent as rpa
        return getattr(rpa, name)


ebase.rpa    = _RPA()
ebase.mt     = _MT()
ebase.time   = _Time()
epopen.mt    = _MT()
epopen.time  = _Time()
epopen.sp    = _SP()
epopen.queue = _Queue()
epopen.ru    = _RU()
enoop.mt     = _MT()
enoop.time   = _Time()
lm_base.os   = _KillOS()      # LaunchMethod.cancel_task: killpg on the fake process table
lm_base.time = _KillTime()
lm_srun.os   = lm_base.os
lm_srun.time = lm_base.time


# ------------------------------------------------------------------------------
class ExecSim(object):

    MAX_STEPS = 6000

    def __init__(self, spawner='POPEN', session=None, baton=None, psbox=None, hold_exit=False):
        self.problems = []
        self.hold_exit = hold_exit   # processes only exit once the intake that spawned them is done
        self.baton = baton or Baton()
        self._nlock = 0
        self._npid  = 0
        self.procs, self.proc_of, self.handles = [], {}, []
        self.fault_of = {}
        self.recorded_threads = []
        _CTX['sim'] = self
        self.spawner = spawner

        base = boot.case_dir('exec.')
        self.sess = session or HollowSession(module='pilot.0000', uid='rp.session.verif.exec',
                                             sandbox=base)
        sb = '%s/rsbox' % base
        if psbox:
            # <resource sandbox>/<sid>/<pid>
            ssb = os.path.dirname(psbox.rstrip('/'))
            sb  = os.path.dirname(ssb)
            self.sess._cfg.update({'pid': 'pilot.0000', 'resource': 'local.localhost',
                                   'resource_sandbox': sb, 'session_sandbox': ssb,
                                   'pilot_sandbox': psbox.rstrip('/')})
        else:
            self.sess._cfg.update({'pid': 'pilot.0000', 'resource': 'local.localhost',
                                   'resource_sandbox': sb,
                                   'session_sandbox': '%s/%s' % (sb, self.sess.uid),
                                   'pilot_sandbox': '%s/%s/pilot.0000' % (sb, self.sess.uid)})
        self.psbox = self.sess._cfg['pilot_sandbox']
        os.makedirs(self.psbox, exist_ok=True)
        rcfg = {'resource_manager': 'FAKE', 'agent_spawner': spawner,
                'new_session_per_task': False, 'task_tmp': '%s/tmp' % base}
        if session is not None and session._rcfg:
            rcfg = dict(session._rcfg.as_dict(), **rcfg)
        self.sess._rcfg = ru.Config(cfg=rcfg)
        os.environ['TMPDIR'] = '%s/tmp' % base
        self.net = self.sess.net
        reg = self.sess._reg
        self.url_exec   = reg['bridges.%s' % rpc.AGENT_EXECUTING_QUEUE]['addr_put']
        self.url_sout   = reg['bridges.%s' % rpc.AGENT_STAGING_OUTPUT_QUEUE]['addr_put']
        self.url_state  = reg['bridges.%s' % rpc.STATE_PUBSUB]['addr_pub']
        self.url_unsch  = reg['bridges.%s' % rpc.AGENT_UNSCHEDULE_PUBSUB]['addr_pub']
        self.rm = FakeRM(self)

        from radical.pilot.agent.executing.base import AgentExecutingComponent
        cfg = comp_cfg(self.sess, 'agent_executing.0000', pid='pilot.0000',
                       kind='agent_executing')
        cwd = os.getcwd()
        os.chdir(self.psbox)
        try:
            comp = AgentExecutingComponent.create(cfg, self.sess)
            comp._initialize()
        finally:
            os.chdir(cwd)
        self.comp = comp
        # yield points at publish / advance
        real_pub, real_adv = comp.publish, comp.advance

        def publish(pubsub, msg, topic=None):
            self.baton.yield_point('publish')
            return real_pub(pubsub, msg, topic=topic)

        def advance(*a, **k):
            self.baton.yield_point('advance')
            return real_adv(*a, **k)
        comp.publish, comp.advance = publish, advance
        # the base component's cancel lock is held across advance() in
        # is_canceled(): it must be a baton-aware lock as well
        comp._cancel_lock = FakeLock(self.baton, 'cancel_list', reentrant=True)
        if isinstance(getattr(comp, '_tasks', None), dict):
            yd = YieldDict()
            yd.baton = self.baton
            comp._tasks = yd

        # start the recorded threads under the baton
        self.dyn = []                  # intake / cancel threads in creation order
        for t in self.recorded_threads:
            nm = getattr(t.target, '__name__', 'thr')
            name = {'_watch': 'watch', '_to_watcher': 'to', '_collect': 'watch'}.get(nm, nm)
            self.baton.spawn(name, lambda t=t: t.target(*t.args, **t.kwargs))
        for ct in self.baton.threads.values():
            ct.blocked = None

        self.tasks    = {}     # uid -> spec
        self.order    = []
        self.accepted = set()  # uids handed to work()
        self.cancel_req = set()
        self.cancel_of  = {}     # cancel thread name -> uids
        self.started_clean = set()   # uids whose start-up report was handled before any time passed
        self.must_cancel = {}    # uid -> phase at which the request was completely handled
        self.to_pass_starts = [] # steps at which the limit watcher began a pass
        self.report_step = {}    # uid -> step at which its start-up report was handled
        self.limit_from = {}     # uid -> [virtual time no earlier than the start of its current limit, limit]
        self.overdue  = []       # (uid, seconds over its limit) still running when everything had settled
        self.ticked   = 0.0
        self._log_pos = 0
        self.ev = collections.defaultdict(lambda: {'executing': 0, 'failed': 0, 'pushed': 0,
                                                   'unsched': 0, 'canceled_pub': 0,
                                                   'pushed_tasks': [], 'seq': []})
        self.coincide = 0        # NT: >=2 activities enabled inside a task's critical window
        self.steps = 0
        self._n = 0
        # learn when a task's limit starts to run (recorded after the call: never too early)
        real_handle_timeout = comp.handle_timeout

        def handle_timeout(task):
            real_handle_timeout(task)
            td = task['description']
            lim = td.get('startup_timeout') or td.get('timeout')
            if lim:
                self.limit_from[task['uid']] = [self.baton.now, float(lim)]
        comp.handle_timeout = handle_timeout

        # wrap work() to learn which tasks were accepted
        real_work = comp.work

        def work(tasks):
            for t in tasks:
                self.accepted.add(t['uid'])
            return real_work(tasks)
        comp.work = work
        for k in list(comp._workers):
            comp._workers[k] = work

    # --------------------------------------------------------------------------
    def bad(self, prop, sig, msg=''):
        self.problems.append((prop, sig, msg))

    def mk_task(self, spec):
        self._n += 1
        uid = 'task.%06d' % self._n
        d = {'uid': uid, 'executable': '/bin/true', 'ranks': 1}
        if spec.get('timeout'):
            d['timeout'] = float(spec['timeout'])
        if spec.get('startup_timeout'):
            d['startup_timeout'] = float(spec['startup_timeout'])
        if 'sleep_arg' in spec:
            d['executable'] = '/bin/sleep'
            if spec['sleep_arg'] is not None:
                d['arguments'] = [str(spec['sleep_arg'])]
        td = rp.TaskDescription(d)
        td.verify()
        sbox = '%s/%s' % (self.psbox, uid)
        task = {'uid': uid, 'type': 'task', 'name': uid, 'origin': 'client',
                'state': rps.AGENT_EXECUTING_PENDING, 'description': td.as_dict(),
                'pilot': 'pilot.0000', 'task_sandbox_path': sbox,
                'task_sandbox': 'file://localhost' + sbox,
                'slots': [{'node_name': 'localhost', 'node_index': 0,
                           'cores': [{'index': 0, 'occupation': 1.0}], 'gpus': [],
                           'lfs': 0, 'mem': 0, 'version': 1}],
                'partition': None, 'resources': {'cpu': 1, 'gpu': 0}}
        if spec.get('fault') == 'script':
            # script creation fails: the sandbox path cannot be created
            blocker = '%s/blocked.%s' % (self.psbox, uid)
            with open(blocker, 'w') as f:
                f.write('x')
            task['task_sandbox_path'] = '%s/sub' % blocker
        self.tasks[uid] = dict(spec)
        self.order.append(uid)
        if spec.get('fault'):
            self.fault_of[uid] = spec['fault']
        return task

    # --------------------------------------------------------------------------
    def runnable(self):
        out = []
        for name, ct in self.baton.threads.items():
            if ct.done:
                continue
            b = getattr(ct, 'blocked', None)
            if b is not None and b.held():
                continue
            out.append(name)
        return out

    def run(self, choice, n=1):
        for _ in range(max(1, n)):
            r = self.runnable()
            if not r:
                return
            name = r[choice % len(r)]
            busy = [x for x in r if not x.startswith(('watch', 'to')) or
                    self.baton.threads[x].tag not in ('sleep', 'get:watch')]
            if len(busy) >= 2:
                self.coincide += 1
            self._resume(name)

    def run_until(self, choice, tag, limit=40):
        """run one activity until it is parked at a yield point of the given kind"""
        r = self.runnable()
        if not r:
            return
        name = r[choice % len(r)]
        for _ in range(limit):
            ct = self.baton.threads[name]
            b = getattr(ct, 'blocked', None)
            if ct.done or (b is not None and b.held()):
                return
            if len(self.runnable()) >= 2:
                self.coincide += 1
            self._resume(name)
            if (ct.tag or '').startswith(tag):
                return

    def run_named(self, prefix, n=1):
        """run the first runnable activity whose name starts with prefix, n yield points"""
        for _ in range(max(1, n)):
            r = [x for x in self.runnable() if x.startswith(prefix)]
            if not r:
                return
            if len(self.runnable()) >= 2:
                self.coincide += 1
            self._resume(r[0])

    def _resume(self, name):
        self.steps += 1
        self.baton.resume(name)
        ct = self.baton.threads[name]
        if ct.done and getattr(ct, 'done_step', None) is None:
            ct.done_step = self.steps
        if ct.done and ct.exc is not None and not getattr(ct, 'reported', False):
            ct.reported = True
            if isinstance(ct.exc, DetSchedError):
                raise ct.exc
            self.bad('C07', exc_sig('activity_died:%s' % name.split('.')[0], ct.exc),
                     repr(ct.exc))
        self._absorb()
        if ct.done and name in self.cancel_of:
            # the request has been handled completely: every named task whose process
            # has not exited by itself and that was not handed on yet must end CANCELED
            for u in self.cancel_of.pop(name):
                e = self.ev[u]
                if e['pushed'] or e['failed'] or u in self.must_cancel:
                    continue
                p = self.proc_of.get(u)
                if p is None:
                    phase = 'before_spawn' if u in self.accepted else 'before_intake'
                elif p.returncode is None or p.killed:
                    phase = 'running'
                else:
                    continue            # exited on its own: either outcome is fine
                if self.tasks[u].get('fault'):
                    continue
                self.must_cancel[u] = phase

    def submit(self, specs):
        tasks = [self.mk_task(s) for s in specs]
        if not tasks:
            return
        self.net.q_put(self.url_exec, 'default', tasks)
        name = 'intake.%d' % len(self.dyn)
        ct = self.baton.spawn(name, self.comp.work_cb)
        ct.blocked = None
        self.dyn.append(name)

    def cancel(self, ks):
        if not self.order:
            return
        uids = []
        for k in ks:
            u = self.order[k % len(self.order)]
            if u not in uids:
                uids.append(u)
        self.cancel_req.update(uids)
        msg = {'cmd': 'cancel_tasks', 'arg': {'uids': uids, 'tmgr': 'tmgr.0000'}}
        name = 'cancel.%d' % len(self.dyn)
        ct = self.baton.spawn(name, lambda: self.comp._control_cb(rpc.CONTROL_PUBSUB, msg))
        ct.blocked = None
        self.dyn.append(name)
        self.cancel_of[name] = uids

    def startup_done(self, k):
        """rank 0 of a running task reports `task_startup_done` (the exec script does that through
        the control channel); the executor's handler runs to completion at once.  If no virtual
        time has passed since the start of the case, the report is clearly in time."""
        live = [p for p in self.procs if p.returncode is None]
        if not live:
            return
        uid  = live[k % len(live)].uid
        msg  = {'cmd': 'task_startup_done', 'arg': {'uid': uid}}
        name = 'startup.%d' % len(self.dyn)
        ct = self.baton.spawn(name, lambda: self.comp._control_cb(rpc.CONTROL_PUBSUB, msg))
        ct.blocked = None
        self.dyn.append(name)
        for _ in range(200):
            if ct.done:
                break
            self._resume(name)
        if ct.done and ct.exc is None and self.ticked == 0:
            self.started_clean.add(uid)
            self.report_step[uid] = self.steps
        if ct.done and ct.exc is None and uid in self.limit_from:
            # the report ends the start-up limit; a run-time limit, if any, starts now
            lim = self.tasks[uid].get('timeout')
            if lim:
                self.limit_from[uid] = [self.baton.now, float(lim)]
            else:
                self.limit_from.pop(uid)

    def may_exit(self, p):
        return not (self.hold_exit and p.spawner is not None and not p.spawner.done)

    def exit_proc(self, k, code=None):
        live = [p for p in self.procs if p.returncode is None and self.may_exit(p)]
        if not live:
            return
        p = live[k % len(live)]
        p.returncode = self.tasks[p.uid].get('exit', 0) if code is None else code
        p.exit_step = self.steps
        p.child_alive = False                         # the task ran to its end: no process is left

    def tick(self, dt):
        self.baton.now += max(0.0, float(dt))
        self.ticked += max(0.0, float(dt))

    # --------------------------------------------------------------------------
    def _absorb(self):
        log = self.net.log
        while self._log_pos < len(log):
            ev = log[self._log_pos]
            self._log_pos += 1
            if ev[0] == 'put' and ev[1] == self.url_sout:
                for t in ev[3]:
                    e = self.ev[t['uid']]
                    e['pushed'] += 1
                    e['pushed_tasks'].append(t)
                    e['seq'].append('push')
            elif ev[0] == 'pub' and ev[1] == self.url_unsch:
                for t in ru.as_list(ev[3]):
                    if isinstance(t, dict) and 'uid' in t:
                        self.ev[t['uid']]['unsched'] += 1
                        self.ev[t['uid']]['seq'].append('unsched')
            elif ev[0] == 'pub' and ev[1] == self.url_state:
                msg = ev[3]
                if msg.get('cmd') != 'update':
                    continue
                for t in ru.as_list(msg.get('arg')):
                    st = t.get('state')
                    e = self.ev[t['uid']]
                    if st == rps.AGENT_EXECUTING:
                        e['executing'] += 1
                        e['seq'].append('executing')
                    elif st == rps.FAILED:
                        e['failed'] += 1
                        e['failed_task'] = t
                        e['seq'].append('failed')
                    elif st == rps.CANCELED:
                        e['canceled_pub'] += 1
                        e['seq'].append('canceled_pub')

    # --------------------------------------------------------------------------
    def _fingerprint(self):
        return (tuple((u, tuple(self.ev[u]['seq'])) for u in self.order),
                tuple(p.returncode for p in self.procs),
                tuple(self.baton.threads[n].done for n in self.dyn),
                len(getattr(self.comp, '_tasks', ())),
                len(getattr(self.comp, '_to_tasks', ())))

    def _round(self):
        """every runnable activity runs until its next idle point (sleep) or 60 yields"""
        n = 0
        for name in self.runnable():
            for _ in range(60):
                ct = self.baton.threads[name]
                if ct.done:
                    break
                b = getattr(ct, 'blocked', None)
                if b is not None and b.held():
                    break
                self._resume(name)
                n += 1
                if ct.tag == 'sleep':
                    break
        return n

    def finish(self):
        """let everything run out: all activities run round-robin until the observable
        state stops changing, then the remaining processes exit with their scripted code
        and everything runs out again"""
        exited = False
        same = 0
        fp = self._fingerprint()
        while self.steps < self.MAX_STEPS:
            self._round()
            fp2 = self._fingerprint()
            same = same + 1 if fp2 == fp else 0
            fp = fp2
            if same >= 2:
                if not exited and self.spawner == 'NOOP':
                    self.baton.now += 1000.0          # every simulated sleep has elapsed by now
                if not exited:
                    # everything has settled.  A process which is still running although its
                    # limit passed well before this point was not stopped: nothing would stop it
                    cand = [(p, self.baton.now - self.limit_from[p.uid][0] - self.limit_from[p.uid][1])
                            for p in self.procs if p.returncode is None and p.uid in self.limit_from]
                    cand = [(p, over) for p, over in cand if over > 5.0]
                    if cand:
                        for _ in range(4):
                            self._round()
                        self.overdue = [(p.uid, over) for p, over in cand if p.returncode is None
                                        and not p.killed]
                    for p in self.procs:
                        if p.returncode is None and self.may_exit(p):
                            p.returncode = self.tasks[p.uid].get('exit', 0)
                            p.exit_step = self.steps
                            p.child_alive = False
                    exited = True
                    same = 0
                    continue
                return True
        self.bad('C07', 'no_quiescence', 'executor activities did not settle within %d steps'
                 % self.MAX_STEPS)
        return False

    def close(self):
        try:
            self.comp._term.set()
            if hasattr(self.comp, '_terminate'):
                self.comp._terminate.set()
            for p in self.procs:
                if p.returncode is None:
                    p.returncode = -9
            self.baton.finish_all()
        finally:
            for h in self.handles:
                try:
                    h.close()
                except Exception:
                    pass
            _CTX['sim'] = None

    # --------------------------------------------------------------------------
    def judge(self):
        """C07 oracle over the event log (+ C03b: exactly one unschedule)"""
        for uid in self.order:
            spec = self.tasks[uid]
            e = self.ev[uid]
            if uid not in self.accepted:
                # filtered by the component's cancel list before work(): never
                # accepted by the executor
                if e['pushed'] or e['failed'] or e['executing']:
                    self.bad('C07', 'unaccepted_task_processed', '%s: %s' % (uid, e['seq']))
                    self.bad('C08', 'canceled_task_processed_later', '%s: %s' % (uid, e['seq']))
                if not e['canceled_pub']:
                    self.bad('C08', 'task_dropped_at_intake_without_final_state', uid)
                if e['unsched'] != 1:
                    self.bad('C08', 'canceled_at_intake:resources_released_%d_times' % e['unsched'],
                             '%s was granted resources by the scheduler, is canceled at the '
                             'executor\'s intake, unschedule published %d times' % (uid, e['unsched']))
                    self.bad('C03', 'resources_released_%s:canceled_at_intake'
                             % ('never' if e['unsched'] == 0 else 'twice'),
                             '%s holds a placement when it is canceled at the executor\'s intake; '
                             'unschedule published %d times' % (uid, e['unsched']))
                continue
            if uid in self.must_cancel and e['pushed_tasks']:
                ts = e['pushed_tasks'][0].get('target_state')
                ambiguous = self.exited_during_own_launch(uid)
                if ts != rps.CANCELED and not ambiguous:
                    self.bad('C08', 'named_task_not_canceled:%s' % self.must_cancel[uid],
                             '%s: cancel request handled while the task was %s, outcome %s'
                             % (uid, self.must_cancel[uid], ts))
            if uid not in self.cancel_req and e['canceled_pub']:
                self.bad('C08', 'bystander_canceled', uid)
            how = self.ending(uid)
            if e['executing'] != 1:
                self.bad('C07', 'execution_start_announced_%s' % ('twice' if e['executing'] > 1
                                                                  else 'never'),
                         '%s: %s' % (uid, e['seq']))
            hand = e['pushed'] + e['failed']
            if hand == 0:
                self.bad('C07', 'task_left_behind:%s' % how, '%s: %s' % (uid, e['seq']))
            elif hand > 1:
                kinds = 'push+failed' if (e['pushed'] and e['failed']) else \
                    ('push_twice' if e['pushed'] > 1 else 'failed_twice')
                self.bad('C07', 'handed_on_twice:%s:%s' % (kinds, how), '%s: %s' % (uid, e['seq']))
            if e['unsched'] == 0:
                self.bad('C03', 'resources_never_released:%s' % how, '%s: %s' % (uid, e['seq']))
                self.bad('C07', 'release_never_requested:%s' % how, '%s: %s' % (uid, e['seq']))
            elif e['unsched'] > 1:
                self.bad('C03', 'resources_released_twice:%s' % how, '%s: %s' % (uid, e['seq']))
                self.bad('C07', 'release_requested_twice:%s' % how, '%s: %s' % (uid, e['seq']))
            if e['seq'] and 'executing' in e['seq']:
                i = e['seq'].index('executing')
                if any(x in ('push', 'failed') for x in e['seq'][:i]):
                    self.bad('C07', 'handed_on_before_start_announced', '%s: %s' % (uid, e['seq']))
            # outcome attached to the hand-on
            for t in e['pushed_tasks'][:1]:
                ts = t.get('target_state')
                proc = self.proc_of.get(uid)
                if 'proc' in t:
                    self.bad('C07', 'process_handle_in_handed_on_task', uid)
                if self.spawner == 'NOOP':
                    if ts != rps.DONE:
                        self.bad('C07', 'outcome_wrong:NOOP', '%s: %s' % (uid, ts))
                elif ts == rps.DONE:
                    if proc is None or proc.killed or proc.returncode != 0 or t.get('exit_code') != 0:
                        self.bad('C07', 'outcome_wrong:DONE', '%s: exit %s killed %s task exit_code %s'
                                 % (uid, getattr(proc, 'returncode', None),
                                    getattr(proc, 'killed', None), t.get('exit_code')))
                elif ts == rps.FAILED:
                    if proc is None or proc.returncode in (0, None) or \
                            t.get('exit_code') != proc.returncode:
                        self.bad('C07', 'outcome_wrong:FAILED', '%s: exit %s task exit_code %s'
                                 % (uid, getattr(proc, 'returncode', None), t.get('exit_code')))
                elif ts == rps.CANCELED:
                    limit = spec.get('timeout') if uid in self.started_clean else \
                        (spec.get('timeout') or spec.get('startup_timeout'))
                    allowed = uid in self.cancel_req or (limit and self.ticked > 0)
                    if not allowed and uid in self.started_clean and spec.get('startup_timeout') \
                            and self.ticked > 0:
                        # the limit watcher may have been in the middle of a pass - its table read
                        # before the report arrived - when the clock moved: that pass still acts on
                        # the start-up limit.  Only a pass which BEGAN after the report must not.
                        r = self.report_step.get(uid, 0)
                        k = getattr(proc, 'kill_step', None)
                        if k is not None and not any(r < s <= k for s in self.to_pass_starts):
                            allowed = True
                            self.labels_extra = getattr(self, 'labels_extra', set()) | \
                                {'startup_limit_hit_by_a_pass_begun_before_the_report'}
                    if not allowed:
                        self.bad('C07', 'outcome_wrong:CANCELED_unrequested', uid)
                        if uid in self.started_clean:
                            self.bad('C05', 'canceled_by_startup_timeout_after_startup_was_reported', uid)
                else:
                    self.bad('C07', 'outcome_missing', '%s: target_state %s' % (uid, ts))
            if e['failed'] and not e['pushed']:
                t = e.get('failed_task') or {}
                if not (t.get('exception') or t.get('exit_code')):
                    self.bad('C07', 'failed_without_reason', uid)
                if not spec.get('fault'):
                    self.bad('C07', 'failed_without_fault', '%s: %s' % (uid, t.get('exception')))
        # "its process is killed": no member of a killed task's process group is left running
        for p in self.procs:
            if p.killed and p.child_alive:
                self.bad('C08', 'process_of_killed_task_survives',
                         '%s: the launch process was killed, a process of its group still runs (%s kill '
                         'routine)' % (p.uid, 'Srun' if self.tasks[p.uid].get('srun') else 'default'))
        # a run-time / start-up limit is enforced
        for uid, over in self.overdue:
            self.bad('C07', 'left_behind:limit_passed_and_still_running',
                     '%s: still running %.1fs after its limit passed, with all executor activities '
                     'idle' % (uid, over))
        # nothing left in the ownership set
        left = getattr(self.comp, '_tasks', None)
        if isinstance(left, dict):
            for uid in left:
                e = self.ev[uid]
                if not (e['pushed'] + e['failed']):
                    pass        # already reported as left behind
                elif uid in self.proc_of and self.proc_of[uid].returncode is None:
                    self.bad('C07', 'live_process_left_in_ownership_set', uid)

    def exited_during_own_launch(self, uid):
        """the process exited by itself (never killed) while the intake activity that spawned
        it was still busy with the launch: for a cancel request recorded in that window
        "it had already finished" when the request could take effect (either outcome is fine)"""
        pr = self.proc_of.get(uid)
        if pr is None or pr.killed or pr.exit_step is None or pr.spawner is None:
            return False
        ds = getattr(pr.spawner, 'done_step', None)
        return ds is None or pr.exit_step <= ds

    def ending(self, uid):
        spec = self.tasks[uid]
        if spec.get('fault'):
            return 'launch_fault_%s' % spec['fault']
        p = self.proc_of.get(uid)
        c = uid in self.cancel_req
        limit = spec.get('timeout') if uid in self.started_clean else \
            (spec.get('timeout') or spec.get('startup_timeout'))
        to = bool(limit) and self.ticked > 0
        if c and to:
            return 'cancel+timeout'
        if c:
            return 'cancel'
        if to:
            return 'timeout'
        if p is not None and p.returncode not in (0, None):
            return 'exit_nonzero'
        return 'exit_zero'


# ------------------------------------------------------------------------------
def run_schedule(case):
    sim = ExecSim(spawner=case.get('spawner', 'POPEN'), hold_exit=bool(case.get('hold_exit')))
    try:
        bulks = [list(b) for b in case.get('bulks', [])]
        bi = 0
        for mv in case.get('moves', []):
            k = mv[0]
            if k == 'submit':
                if bi < len(bulks):
                    sim.submit(bulks[bi])
                    bi += 1
            elif k == 'run':
                sim.run(int(mv[1]), int(mv[2]) if len(mv) > 2 else 1)
            elif k == 'named':
                sim.run_named(str(mv[1]), int(mv[2]))
            elif k == 'until':
                sim.run_until(int(mv[1]), str(mv[2]))
            elif k == 'exit':
                sim.exit_proc(int(mv[1]))
            elif k == 'cancel':
                sim.cancel([int(x) for x in mv[1]])
            elif k == 'startup':
                sim.startup_done(int(mv[1]))
            elif k == 'tick':
                sim.tick(float(mv[1]))
            if sim.steps > sim.MAX_STEPS:
                break
        while bi < len(bulks):
            sim.submit(bulks[bi])
            bi += 1
        if sim.finish():
            sim.judge()
    finally:
        sim.close()
    return sim
