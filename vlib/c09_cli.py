"""C09 helper: small interpreters for the launcher command lines radical.pilot emits.
(DESIGN.md Appendix A.4.)

Each interpreter reads the command string plus every file the command refers to
(host files, rank files, node files, ERF files) and returns a `Parsed`:

    procs     number of processes the command starts (None = not expressed)
    hosts     list of host names, one entry per process, where the syntax
              expresses per-host counts (None otherwise)
    host_set  set of host names where only the set is expressed (None otherwise)
    per_rank  list (index = rank id) of dicts {'host', 'cores', 'gpus'} where the
              syntax pins ranks (values None where not expressed)
    extra     launcher specific values (ppn, nodes, offset, tasks_per_node, ...)
    errors    [(what, detail)]: the command cannot be interpreted as a launch of
              the exec script (file missing, malformed line, no exec path ...)
    unknown   tokens that were ignored

The interpreters are written from the launchers' public CLI documentation, not
from radical.pilot's code; they accept the spellings of an option a launcher
accepts (`-n 4`, `-n4`, `--ntasks=4`, `--ntasks 4`), and ignore options that do
not influence process count or placement.  Nothing here demands exact strings.
"""
import os
import re
import shlex


class Parsed(object):

    def __init__(self, family):
        self.family   = family
        self.mode     = ''
        self.procs    = None
        self.hosts    = None
        self.host_set = None
        self.per_rank = None
        self.extra    = {}
        self.errors   = []
        self.unknown  = []
        self.files    = {}      # path -> content

    def err(self, what, detail=''):
        self.errors.append((what, str(detail)[:300]))

    def structure(self):
        """canonical, order-free structure (history-independence comparison)"""
        return {'procs'   : self.procs,
                'hosts'   : sorted(self.hosts) if self.hosts is not None else None,
                'host_set': sorted(self.host_set) if self.host_set is not None else None,
                'per_rank': [{'host' : r['host'],
                              'cores': sorted(r['cores']) if r['cores'] is not None else None,
                              'gpus' : sorted(r['gpus'])  if r['gpus']  is not None else None}
                             for r in self.per_rank] if self.per_rank is not None else None,
                'extra'   : {k: self.extra[k] for k in sorted(self.extra)},
                'mode'    : self.mode,
                'errors'  : sorted(w for w, _ in self.errors)}


# ------------------------------------------------------------------------------
_ENV_RE = re.compile(r'^[A-Za-z_][A-Za-z0-9_]*=')
WRAPPERS = {'omplace', 'dplace', 'ccmrun'}


def split_cmd(p, cmd, exec_path):
    """-> (env assignments, argument tokens without executable(s) and exec path)"""
    if not isinstance(cmd, str):
        p.err('not_a_string', repr(cmd))
        return {}, []
    try:
        toks = shlex.split(cmd)
    except ValueError as e:
        p.err('unparsable_shell', e)
        return {}, []
    env = {}
    while toks and _ENV_RE.match(toks[0]):
        k, v = toks.pop(0).split('=', 1)
        env[k] = v
    n = toks.count(exec_path)
    if n != 1 or toks[-1] != exec_path:
        p.err('exec_path_not_last_argument', '%d occurrence(s)' % n)
        toks = [t for t in toks if t != exec_path]
    else:
        toks = toks[:-1]
    return env, toks


def read_file(p, path):
    if not path or not os.path.isfile(path):
        p.err('referenced_file_missing', path)
        return None
    with open(path) as f:
        data = f.read()
    p.files[path] = data
    return data


def to_int(p, val, what):
    try:
        return int(val)
    except (TypeError, ValueError):
        p.err('not_an_integer:%s' % what, val)
        return None


def options(toks, with_arg, glued=()):
    """iterate (kind, name, value): kind in 'opt' | 'flag' | 'pos'.
    with_arg: option names taking a value (`--x v`, `--x=v`, `-x v`);
    glued   : single letter options also accepted as `-xVALUE`"""
    i = 0
    while i < len(toks):
        t = toks[i]
        i += 1
        if not t.startswith('-') or t == '-':
            yield 'pos', t, None
            continue
        if t.startswith('--') and '=' in t:
            name, val = t.split('=', 1)
            yield ('opt' if name in with_arg else 'flag+val'), name, val
            continue
        if t in with_arg:
            if i < len(toks):
                yield 'opt', t, toks[i]
                i += 1
            else:
                yield 'opt', t, None
            continue
        if len(t) > 2 and not t.startswith('--') and t[:2] in glued:
            yield 'opt', t[:2], t[2:].lstrip('=')
            continue
        yield 'flag', t, None


def parse_hostfile(p, data):
    """lines `h`, `h slots=n`, `h:n`, `h n`  ->  [(host, count or None)]"""
    out = []
    for line in data.splitlines():
        line = line.split('#', 1)[0].strip()
        if not line:
            continue
        m = re.match(r'^(\S+?)(?::(\d+))?(?:\s+slots=(\d+)|\s+(\d+))?\s*(?:max[_-]slots=\d+)?$', line)
        if not m:
            p.err('malformed_hostfile_line', line)
            continue
        cnt = m.group(2) or m.group(3) or m.group(4)
        out.append((m.group(1), int(cnt) if cnt is not None else None))
    return out


def parse_cpu_list(p, text):
    """`0-3`, `0,2,5`, `0-1,4` -> sorted list of ints"""
    out = set()
    for part in text.split(','):
        part = part.strip()
        if not part:
            continue
        m = re.match(r'^(\d+)-(\d+)$', part)
        if m:
            a, b = int(m.group(1)), int(m.group(2))
            if b < a:
                p.err('malformed_cpu_range', part)
                continue
            out.update(range(a, b + 1))
        elif part.isdigit():
            out.add(int(part))
        else:
            p.err('malformed_cpu_list', text)
    return sorted(out)


def _is_exe(tok):
    return tok.startswith('/') or tok in WRAPPERS


# ------------------------------------------------------------------------------
def mpirun(cmd, exec_path):
    """OpenMPI / MPICH / Spectrum mpirun; HPE MPT `mpirun hosts -np N` (N per host)"""
    p = Parsed('MPIRUN')
    _, toks = split_cmd(p, cmd, exec_path)
    np_, hosts, hf, mpt_file, pos_hosts = None, None, None, None, []
    for kind, name, val in options(toks, {'-np', '-n', '--np', '-host', '-H', '--host',
                                          '-hostfile', '--hostfile', '-machinefile',
                                          '-file', '-c'}):
        if kind == 'pos':
            if _is_exe(name):
                continue
            pos_hosts.extend(h for h in name.split(',') if h)
        elif name in ('-np', '-n', '--np'):
            np_ = to_int(p, val, name)
        elif name in ('-host', '-H', '--host'):
            hosts = (hosts or []) + [h for h in (val or '').split(',') if h]
        elif name in ('-hostfile', '--hostfile', '-machinefile'):
            hf = val
        elif name == '-file':
            mpt_file = val
        elif name in ('-c', '-gpu'):
            pass
        else:
            p.unknown.append(name)

    if pos_hosts or mpt_file:
        # MPT: -np processes on EACH listed host entry
        p.mode = 'mpt_file' if mpt_file else 'mpt'
        entries = list(pos_hosts)
        if mpt_file:
            data = read_file(p, mpt_file)
            if data is not None:
                for h, c in parse_hostfile(p, data):
                    entries.extend([h] * (c or 1))
        n = np_ if np_ is not None else 1
        p.procs = n * len(entries)
        p.hosts = [h for h in entries for _ in range(n)]
        p.extra['hostfile'] = bool(mpt_file)
        return p

    p.mode = 'hostfile' if hf else 'hostlist'
    entries = None
    if hosts is not None:
        entries = []
        for h in hosts:
            if ':' in h:                    # OpenMPI `host:slots`
                h, c = h.rsplit(':', 1)
                entries.extend([h] * (to_int(p, c, 'host slots') or 1))
            else:
                entries.append(h)
    if hf:
        data = read_file(p, hf)
        if data is not None:
            entries = entries or []
            for h, c in parse_hostfile(p, data):
                entries.extend([h] * (c or 1))
    p.hosts = entries
    p.procs = np_ if np_ is not None else (len(entries) if entries is not None else None)
    return p


# ------------------------------------------------------------------------------
def mpiexec(cmd, exec_path):
    """mpiexec of OpenMPI/Spectrum (-rf, --hostfile `h slots=n`), MPICH/Hydra
    (-f `h:n`) and Cray PALS (--hostfile + --ppn + --cpu-bind list:...)"""
    p = Parsed('MPIEXEC')
    _, toks = split_cmd(p, cmd, exec_path)
    np_, rf, hf, f, ppn, bind = None, None, None, None, None, None
    for kind, name, val in options(toks, {'-np', '-n', '--np', '-rf', '--rankfile',
                                          '--hostfile', '-hostfile', '-machinefile',
                                          '-f', '--ppn', '-ppn', '--cpu-bind', '-H',
                                          '-host', '--host', '--hosts', '--depth'}):
        if kind == 'pos':
            if not _is_exe(name):
                p.unknown.append(name)
        elif name in ('-np', '-n', '--np'):
            np_ = to_int(p, val, name)
        elif name in ('-rf', '--rankfile'):
            rf = val
        elif name in ('--hostfile', '-hostfile', '-machinefile'):
            hf = val
        elif name == '-f':
            f = val
        elif name in ('--ppn', '-ppn'):
            ppn = to_int(p, val, name)
        elif name == '--cpu-bind':
            bind = val
        elif name in ('-H', '-host', '--host', '--hosts'):
            p.extra['host_opt'] = sorted(set((val or '').split(',')))
        elif name in ('--oversubscribe', '--depth'):
            pass
        else:
            p.unknown.append(name)

    p.procs = np_

    if rf:
        p.mode = 'rankfile'
        data = read_file(p, rf)
        if data is None:
            return p
        ranks = {}
        for line in data.splitlines():
            if not line.strip():
                continue
            m = re.match(r'^\s*rank\s+(\d+)\s*=\s*(\S+)\s+slots?=(\S+)\s*$', line)
            if not m:
                p.err('malformed_rankfile_line', line)
                continue
            rid = int(m.group(1))
            if rid in ranks:
                p.err('duplicate_rank_in_rankfile', rid)
            ranks[rid] = {'host': m.group(2), 'gpus': None,
                          'cores': parse_cpu_list(p, m.group(3))}
        if sorted(ranks) != list(range(len(ranks))):
            p.err('rankfile_rank_ids_not_0_to_n', sorted(ranks))
            return p
        p.per_rank = [ranks[i] for i in range(len(ranks))]
        p.hosts = [r['host'] for r in p.per_rank]
        p.extra['rankfile_ranks'] = len(ranks)
        if np_ is None:
            p.procs = len(ranks)
        return p

    hfile = f or hf
    if not hfile:
        p.mode = 'no_hosts'
        return p
    data = read_file(p, hfile)
    if data is None:
        return p
    entries = parse_hostfile(p, data)

    if ppn is not None or (bind or '').startswith('list:'):
        # PALS: ranks fill the host file order, --ppn ranks on each host
        p.mode = 'pals'
        names = [h for h, _ in entries]
        if len(set(names)) != len(names):
            p.err('duplicate_host_in_hostfile', names)
        p.extra['ppn'] = ppn
        if np_ is not None and names and ppn:
            p.hosts = [names[(r // ppn) % len(names)] for r in range(np_)]
        else:
            p.host_set = set(names)
        if bind is not None and bind.startswith('list:'):
            lists = [parse_cpu_list(p, x) for x in bind[len('list:'):].split(':')]
            p.extra['bind_entries'] = len(lists)
            p.extra['bind_lists'] = lists
        return p

    p.mode = 'hostfile_colon' if f else 'hostfile_slots'
    if any(c is None for _, c in entries):
        # no counts: only the set is expressed
        p.host_set = set(h for h, _ in entries)
    else:
        p.hosts = [h for h, c in entries for _ in range(c)]
    return p


# ------------------------------------------------------------------------------
def srun(cmd, exec_path):
    p = Parsed('SRUN')
    _, toks = split_cmd(p, cmd, exec_path)
    with_arg = {'--ntasks', '-n', '--nodes', '-N', '--nodelist', '-w', '--nodefile', '-F',
                '--cpus-per-task', '-c', '--mem', '--gpus-per-task', '--gpu-bind',
                '--threads-per-core', '--ntasks-per-core', '--distribution', '-m',
                '--export', '--kill-on-bad-exit', '--cpu-bind', '--gpus', '--ntasks-per-node'}
    nodelist = None
    for kind, name, val in options(toks, with_arg, glued=('-n', '-N', '-w', '-c', '-K', '-F')):
        if kind == 'pos':
            if not _is_exe(name):
                p.unknown.append(name)
        elif name in ('--ntasks', '-n'):
            p.procs = to_int(p, val, name)
        elif name in ('--nodes', '-N'):
            p.extra['nodes'] = to_int(p, (val or '').split('-')[-1], name)
        elif name in ('--nodelist', '-w'):
            nodelist = [h for h in (val or '').split(',') if h]
            p.mode = 'nodelist'
        elif name in ('--nodefile', '-F'):
            data = read_file(p, val)
            p.mode = 'nodefile'
            if data is not None:
                nodelist = [h for h in re.split(r'[,\s]+', data) if h]
        elif name == '--cpus-per-task' or name == '-c':
            p.extra['cpus_per_task'] = to_int(p, val, name)
        elif name == '--distribution' or name == '-m':
            p.extra['distribution'] = val
        elif name == '--ntasks-per-node':
            p.extra['ntasks_per_node'] = to_int(p, val, name)
        elif name == '--gpus-per-task':
            p.extra['gpus_per_task'] = to_int(p, val, name)
        elif name in with_arg or name in ('-K', '-K0', '-K1', '--quit-on-interrupt',
                                          '--exact', '--exclusive', '--overlap'):
            pass
        else:
            p.unknown.append(name)
    if nodelist is not None:
        p.host_set = set(nodelist)
        p.extra['nodelist_len'] = len(nodelist)
    return p


# ------------------------------------------------------------------------------
def prun(cmd, exec_path):
    p = Parsed('PRTE')
    _, toks = split_cmd(p, cmd, exec_path)
    with_arg = {'--np', '-np', '-n', '--host', '-H', '--dvm-uri', '--map-by', '--bind-to',
                '--hostfile', '--pmixmca', '--prtemca', '--mca'}
    i_skip = 0
    for kind, name, val in options(toks, with_arg):
        if i_skip:
            i_skip -= 1
            continue
        if kind == 'pos':
            if not _is_exe(name):
                # second value of `--pmixmca key value`
                p.unknown.append(name)
        elif name in ('--np', '-np', '-n'):
            p.procs = to_int(p, val, name)
        elif name in ('--host', '-H'):
            hosts = []
            for h in (val or '').split(','):
                if not h:
                    continue
                if ':' in h:
                    h, c = h.rsplit(':', 1)
                    c = to_int(p, c, 'host slots')
                    hosts.extend([h] * (c or 0))
                else:
                    hosts.append(h)
            p.hosts = (p.hosts or []) + hosts
        elif name == '--dvm-uri':
            p.extra['dvm_uri'] = val
        elif name in with_arg or name == '--verbose':
            pass
        else:
            p.unknown.append(name)
    # `--pmixmca k v` leaves v positional: not an unknown of interest
    p.unknown = [u for u in p.unknown if not u.isdigit()]
    p.mode = 'hostlist' if p.hosts is not None else 'no_hosts'
    return p


# ------------------------------------------------------------------------------
def _erf(p, data):
    ranks = {}
    sets  = []
    for line in data.splitlines():
        line = line.strip()
        if not line or line.startswith('#'):
            continue
        if re.match(r'^(cpu_index_using|overlapping_rs|skip_missing_cpu|launch_distribution|'
                    r'oversubscribe_cpu|oversubscribe_mem|oversubscribe_gpu|app)\s*:?', line) \
                and not line.startswith('rank'):
            continue
        m = re.match(r'^(?:\d+\s*:\s*)?rank\s*:\s*([\d,\s-]+?)\s*:\s*\{(.*)\}\s*$', line)
        if not m:
            p.err('malformed_erf_line', line)
            continue
        rids = parse_cpu_list(p, m.group(1))
        body = m.group(2)
        fields = {}
        for part in body.split(';'):
            if ':' not in part:
                if part.strip():
                    p.err('malformed_erf_field', part)
                continue
            k, v = part.split(':', 1)
            fields[k.strip()] = v.strip()
        host = fields.get('host')
        cpu_sets = [parse_cpu_list(p, x) for x in re.findall(r'\{([^}]*)\}', fields.get('cpu', ''))]
        gpu_sets = [parse_cpu_list(p, x) for x in re.findall(r'\{([^}]*)\}', fields.get('gpu', ''))]
        if host is None or not cpu_sets:
            p.err('erf_line_without_host_or_cpu', line)
            continue
        if len(cpu_sets) not in (1, len(rids)):
            p.err('erf_cpu_sets_vs_ranks', line)
            continue
        gpus = sorted(set(g for s in gpu_sets for g in s)) if 'gpu' in fields else []
        sets.append({'host': host, 'ranks': rids, 'cpu_sets': cpu_sets, 'gpus': gpus})
        for k, rid in enumerate(rids):
            if rid in ranks:
                p.err('duplicate_rank_in_erf', rid)
            ranks[rid] = {'host': host, 'gpus': gpus,
                          'cores': cpu_sets[k] if len(cpu_sets) > 1 else cpu_sets[0]}
    if sorted(ranks) != list(range(len(ranks))):
        p.err('erf_rank_ids_not_0_to_n', sorted(ranks))
        return
    p.per_rank = [ranks[i] for i in range(len(ranks))]
    p.hosts    = [r['host'] for r in p.per_rank]
    p.procs    = len(ranks)
    p.extra['resource_sets'] = len(sets)


def jsrun(cmd, exec_path):
    p = Parsed('JSRUN')
    _, toks = split_cmd(p, cmd, exec_path)
    with_arg = {'-n', '--nrs', '-a', '--tasks_per_rs', '-c', '--cpu_per_rs', '-g',
                '--gpu_per_rs', '-r', '--rs_per_host', '-b', '--bind', '--erf_input',
                '-U', '--smpiargs', '-d', '--launch_distribution', '-l', '--latency_priority'}
    nrs, a = None, None
    for kind, name, val in options(toks, with_arg, glued=('-n', '-a', '-c', '-g', '-r', '-b', '-d', '-l')):
        if kind == 'pos':
            if not _is_exe(name):
                p.unknown.append(name)
        elif name in ('-n', '--nrs'):
            nrs = to_int(p, val, name)
        elif name in ('-a', '--tasks_per_rs'):
            a = to_int(p, val, name)
        elif name in ('-c', '--cpu_per_rs'):
            p.extra['cpu_per_rs'] = to_int(p, val, name)
        elif name in ('-g', '--gpu_per_rs'):
            p.extra['gpu_per_rs'] = to_int(p, val, name)
        elif name in ('-r', '--rs_per_host'):
            p.extra['rs_per_host'] = to_int(p, val, name)
        elif name in ('--erf_input', '-U'):
            p.mode = 'erf'
            data = read_file(p, val)
            if data is not None:
                _erf(p, data)
        elif name in with_arg:
            pass
        else:
            p.unknown.append(name)
    if p.mode != 'erf':
        p.mode = 'rs'
        p.extra['nrs'], p.extra['tasks_per_rs'] = nrs, a
        if nrs is not None:
            p.procs = nrs * (a if a is not None else 1)
    return p


# ------------------------------------------------------------------------------
def aprun(cmd, exec_path):
    p = Parsed('APRUN')
    _, toks = split_cmd(p, cmd, exec_path)
    with_arg = {'-n', '-d', '-N', '-j', '-L', '--cc', '-cc', '-e', '-r', '-S', '-F', '-m'}
    for kind, name, val in options(toks, with_arg, glued=('-n', '-d', '-N', '-j', '-L')):
        if kind == 'pos':
            if not _is_exe(name):
                p.unknown.append(name)
        elif name == '-n':
            p.procs = to_int(p, val, name)
        elif name == '-L':
            p.host_set = set(h for h in (val or '').split(',') if h)
        elif name == '-N':
            p.extra['pes_per_node'] = to_int(p, val, name)
        elif name == '-d':
            p.extra['depth'] = to_int(p, val, name)
        elif name in with_arg:
            pass
        else:
            p.unknown.append(name)
    p.mode = 'nodes' if p.host_set is not None else 'no_hosts'
    return p


def ccmrun(cmd, exec_path):
    p = Parsed('CCMRUN')
    _, toks = split_cmd(p, cmd, exec_path)
    for kind, name, val in options(toks, {'-n', '-N', '-L', '-d'}, glued=('-n', '-N', '-L')):
        if kind == 'pos':
            if not _is_exe(name):
                p.unknown.append(name)
        elif name == '-n':
            p.procs = to_int(p, val, name)
        elif name == '-L':
            p.host_set = set(h for h in (val or '').split(',') if h)
        elif name in ('-N', '-d'):
            pass
        else:
            p.unknown.append(name)
    p.mode = 'nodes' if p.host_set is not None else 'no_hosts'
    return p


def ibrun(cmd, exec_path):
    p = Parsed('IBRUN')
    env, toks = split_cmd(p, cmd, exec_path)
    if 'IBRUN_TASKS_PER_NODE' in env:
        p.extra['tasks_per_node'] = to_int(p, env['IBRUN_TASKS_PER_NODE'], 'IBRUN_TASKS_PER_NODE')
    for kind, name, val in options(toks, {'-n', '-np', '-o'}, glued=('-n', '-o')):
        if kind == 'pos':
            if not _is_exe(name):
                p.unknown.append(name)
        elif name in ('-n', '-np'):
            p.procs = to_int(p, val, name)
        elif name == '-o':
            p.extra['offset'] = to_int(p, val, name)
        else:
            p.unknown.append(name)
    p.mode = 'offset'
    return p


def remote_shell(family):
    def parse(cmd, exec_path):
        p = Parsed(family)
        _, toks = split_cmd(p, cmd, exec_path)
        host = None
        for kind, name, val in options(toks, {'-o', '-l', '-p', '-i', '-F', '-E', '-c', '-J'}):
            if kind == 'pos':
                if _is_exe(name) and host is None:
                    continue
                if host is None:
                    host = name
                else:
                    p.unknown.append(name)
        if host is None:
            p.err('no_host_argument', cmd)
        else:
            p.procs = 1
            p.hosts = [host.rsplit('@', 1)[-1]]
        p.mode = 'host'
        return p
    return parse


def fork(cmd, exec_path):
    p = Parsed('FORK')
    _, toks = split_cmd(p, cmd, exec_path)
    for t in toks:
        p.unknown.append(t)
    if not p.errors:
        p.procs = 1
    p.mode = 'local'
    return p


INTERPRETERS = {
    'FORK'  : fork,
    'SSH'   : remote_shell('SSH'),
    'RSH'   : remote_shell('RSH'),
    'MPIRUN': mpirun,
    'MPIEXEC': mpiexec,
    'SRUN'  : srun,
    'APRUN' : aprun,
    'CCMRUN': ccmrun,
    'IBRUN' : ibrun,
    'JSRUN' : jsrun,
    'PRTE'  : prun,
}
