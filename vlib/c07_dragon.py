"""C07 part: the Dragon executor.

Real  : Dragon.work (Popen.work) / Dragon._handle_task / cancel_task / _dragon_watch, the base class
        control_cb (cancel requests), handle_timeout and _to_watcher (run-time limits).
Faked : the Dragon runtime: a stand-in which takes `run` / `cancel` messages from the executor's
        output pipe and - like bin/radical-pilot-dragon-executor.py - reports every task `done`
        once (a cancel makes it end the task early); exec script creation (needs the whole agent
        configuration) returns a path; publish / advance are recorders.
Oracle: every task is announced executing once, handed on exactly once and released exactly once,
        whatever mix of completions and cancel requests it meets (run-time limits are not driven here:
        the limit watcher keeps its table in a local variable of an endless loop).
"""
import copy
import threading as mt

from hypothesis import strategies as st

from . import boot                                    # noqa: F401
from .runner import CaseResult, exc_sig

import radical.utils           as ru
import radical.pilot.states    as rps
import radical.pilot.constants as rpc
import radical.pilot.agent.executing.dragon as m_dragon
import radical.pilot.agent.executing.base   as m_base


class _Null(object):
    def __getattr__(self, name):
        return lambda *a, **k: None


class _Stop(BaseException):
    pass


@st.composite
def cases(draw):
    n = draw(st.integers(1, 5))
    tasks = [{'timeout': 0} for _ in range(n)]      # (run-time limits are not driven here, see the docstring)
    ops = []
    for _ in range(draw(st.integers(1, 10))):
        k = draw(st.integers(0, 9))
        if k < 4:
            ops.append(['done', draw(st.integers(0, n - 1))])
        elif k < 7:
            ops.append(['cancel', draw(st.lists(st.integers(0, n - 1), min_size=1, max_size=2, unique=True))])
        else:
            ops.append(['tick', draw(st.sampled_from([0.5, 2, 7]))])
    return {'kind': 'dragon', 'tasks': tasks, 'ops': ops}


def normalise(case):
    try:
        ts = [{'timeout': 0} for t in case.get('tasks', [])][:6]
        if not ts:
            return None
        n = len(ts)
        ops = []
        for op in case.get('ops', []):
            if op and op[0] == 'done' and len(op) > 1:
                ops.append(['done', int(op[1]) % n])
            elif op and op[0] == 'cancel' and len(op) > 1 and op[1]:
                ops.append(['cancel', [int(i) % n for i in op[1]]])
            elif op and op[0] == 'tick' and len(op) > 1:
                ops.append(['tick', float(op[1])])
            elif op and op[0] == 'limits':
                ops.append(['limits'])
        return {'kind': 'dragon', 'tasks': ts, 'ops': ops}
    except Exception:
        return None


def run(case):
    res = CaseResult()
    res.label('dragon_executor')
    rec = {'executing': [], 'handed_on': [], 'released': [], 'failed': []}
    clock = {'now': 1000.0}
    to_runtime, from_runtime = [], []

    class Time(object):
        def time(self):
            return clock['now']

        def sleep(self, dt):
            clock['now'] += float(dt)

        def __getattr__(self, name):
            import time as _t
            return getattr(_t, name)

    class PipeIn(object):
        def __init__(self, *a, **k):
            self.url = 'fake://in'

        def get_nowait(self, timeout=None):
            if not from_runtime:
                raise _Stop()
            return from_runtime.pop(0)

    comp = m_dragon.Dragon.__new__(m_dragon.Dragon)
    comp._uid  = 'agent_executing.0000'
    comp._log  = comp._prof = _Null()
    comp._tasks, comp._check_lock = dict(), mt.RLock()
    comp._to_tasks, comp._to_lock = list(), mt.Lock()
    comp._term = mt.Event()
    comp._rm   = type('RM', (), {'find_launcher': lambda self, t: (object(), 'FAKE'),
                                 'get_launcher': lambda self, n: None})()
    comp._create_exec_script = lambda launcher, task: (None, '/sandbox/%s.exec.sh' % task['uid'])
    comp._pipe_out = type('P', (), {'put': lambda self, m: to_runtime.append(copy.deepcopy(m))})()

    def advance(things, state=None, publish=True, push=False, **kw):
        for t in ru.as_list(things):
            if state == rps.AGENT_EXECUTING:
                rec['executing'].append(t['uid'])
            elif state == rps.AGENT_STAGING_OUTPUT_PENDING:
                rec['handed_on'].append((t['uid'], t.get('target_state')))
            elif state == rps.FAILED:
                rec['failed'].append(t['uid'])
    comp.advance = advance
    comp.advance_tasks = lambda tasks, state, publish=True, push=False, ts=None: \
        advance(tasks, state, publish, push)

    def publish(topic, msg):
        if topic == rpc.AGENT_UNSCHEDULE_PUBSUB:
            for t in ru.as_list(msg):
                rec['released'].append(t['uid'])
    comp.publish = publish
    comp.stop = lambda *a, **k: None

    uids  = ['task.%06d' % i for i in range(len(case['tasks']))]
    tasks = []
    for u, s in zip(uids, case['tasks']):
        d = {'uid': u, 'executable': '/bin/true'}
        if s['timeout']:
            d['timeout'] = float(s['timeout'])
        tasks.append({'uid': u, 'origin': 'client', 'state': rps.AGENT_EXECUTING_PENDING,
                      'task_sandbox_path': '/sandbox', 'description': d})

    saved = (m_dragon.time, m_base.time, ru.zmq.Pipe)
    m_dragon.time = m_base.time = Time()
    ru.zmq.Pipe = PipeIn
    running, done_sent = set(), set()
    n_cancel = 0
    try:
        def runtime():
            """the Dragon runtime takes what the executor sent"""
            while to_runtime:
                m = to_runtime.pop(0)
                if m['cmd'] == 'run':
                    running.add(m['task']['uid'])
                elif m['cmd'] == 'cancel' and m['uid'] in running and m['uid'] not in done_sent:
                    report(m['uid'])

        def report(uid):
            if uid in done_sent or uid not in running:
                return
            done_sent.add(uid)
            t = copy.deepcopy(next(t for t in tasks if t['uid'] == uid))
            t['exit_code'], t['target_state'] = 0, rps.DONE
            from_runtime.append({'cmd': 'done', 'task': t})

        def watch():
            try:
                comp._dragon_watch('fake://in')
            except _Stop:
                pass

        comp.work(tasks)
        runtime()
        for op in case['ops']:
            if op[0] == 'done':
                report(uids[op[1]])
            elif op[0] == 'cancel':
                n_cancel += 1
                comp.control_cb(rpc.CONTROL_PUBSUB, {'cmd': 'cancel_tasks',
                                                     'arg': {'uids': [uids[i] for i in op[1]]}})
            elif op[0] == 'tick':
                clock['now'] += op[1]
            runtime()
            watch()
        # everything runs out: limits are looked at, every task ends
        clock['now'] += 100
        runtime()
        for u in uids:
            report(u)
        watch()
        runtime()
        watch()
    except Exception as e:                            # noqa
        res.fail(exc_sig('dragon:executor_raised', e), repr(e))
        return res
    finally:
        m_dragon.time, m_base.time, ru.zmq.Pipe = saved

    for u in uids:
        ne = rec['executing'].count(u)
        nh = sum(1 for x in rec['handed_on'] if x[0] == u) + rec['failed'].count(u)
        nr = rec['released'].count(u)
        if ne != 1:
            res.fail('dragon:executing_announced_%s' % ('never' if not ne else 'twice'), u)
        if nh != 1:
            res.fail('dragon:handed_on_%s' % ('never' if not nh else 'twice'),
                     '%s: %s' % (u, [x for x in rec['handed_on'] if x[0] == u]))
        if nr != 1:
            res.fail('dragon:released_%s' % ('never' if not nr else 'twice'), u)
    res.nontrivial = bool(n_cancel or any(t['timeout'] for t in case['tasks']))
    if n_cancel:
        res.label('dragon_executor:cancel_request')
    if any(t['timeout'] for t in case['tasks']):
        res.label('dragon_executor:run_time_limit')
    return res
