"""C01, reserved nodes part: "nodes reserved for the agent are never handed to a task".

The real ResourceManager start-up (vlib/c18_env: batch environment -> ResourceManager.create ->
_init_from_scratch -> _filter_nodes) for pilots with 1-3 node-target sub-agents and / or a service
node.  What the resource manager then publishes as `node_list` is what the agent scheduler places
tasks on and what the client turns into `Pilot.nodelist` for application-supplied placements.
Oracle: no node of `agent_node_list` / `service_node_list` is in `node_list` (by name and by index),
and filling the pilot through the real NodeList.find_slots never yields a slot on a reserved node.
"""
import copy

from hypothesis import strategies as st

from . import boot                                    # noqa: F401
from .runner import CaseResult, exc_sig
from . import c18_model as M
from . import c18_env   as H

from radical.pilot.resource_config import Node, NodeList, RankRequirements

_BASE = {"agents": [], "backup": 0, "blocked_cores": [], "blocked_gpus": [], "chunks": [], "cores": 1,
         "cpn": 4, "cpus_env": True, "decoy": [], "drop_env": False, "fake": False, "gpn": 0,
         "gpu_env": "", "gpu_hw": 0, "gpus": 0, "groups": [], "hw": 0, "lfs": 0, "lines": [], "mem": 0,
         "mode": "both", "ncpus_key": "ncpus", "no_nodefile": False, "nodes": 0, "probe": [],
         "pseudo": [], "rm": "SLURM", "services": False, "smt": 0, "smt_cfg": "same", "wrap": 0}


@st.composite
def cases(draw):
    n  = draw(st.integers(2, 8))
    na = draw(st.integers(0, min(3, n - 1)))
    sv = draw(st.booleans()) if na else True
    if na + (1 if sv else 0) >= n:
        sv = False
    return {'kind': 'reserved_nodes', 'n': n, 'agents': na, 'local_agents': draw(st.integers(0, 1)),
            'services': sv, 'cpn': draw(st.sampled_from([1, 2, 4])), 'gpn': draw(st.sampled_from([0, 0, 2])),
            'first': draw(st.integers(0, 20)), 'pre': draw(st.sampled_from(['node', 'nid', 'c']))}


def normalise(case):
    try:
        n  = max(2, min(12, int(case.get('n', 2))))
        na = max(0, min(n - 1, int(case.get('agents', 0))))
        sv = bool(case.get('services'))
        if na + (1 if sv else 0) >= n:
            sv = False
        if not na and not sv:
            return None
        return {'kind': 'reserved_nodes', 'n': n, 'agents': na, 'services': sv,
                'local_agents': int(bool(case.get('local_agents'))),
                'cpn': max(1, min(8, int(case.get('cpn', 1)))), 'gpn': max(0, min(4, int(case.get('gpn', 0)))),
                'first': max(0, int(case.get('first', 0))), 'pre': str(case.get('pre') or 'node')[:6] or 'node'}
    except Exception:
        return None


def run_case(case):
    res = CaseResult()
    c = copy.deepcopy(_BASE)
    first = case['first']
    c['groups']   = [{'ids': list(range(first, first + case['n'])), 'pre': case['pre'], 'suf': '', 'w': 2}]
    c['agents']   = ['node'] * case['agents'] + ['local'] * case['local_agents']
    c['services'] = case['services']
    c['cpn'], c['gpn'] = case['cpn'], case['gpn']
    c['nodes'], c['hw'] = case['n'], case['cpn']       # the pilot asks for the whole allocation
    res.label('reserved_nodes', 'reserved_nodes:agents=%d' % case['agents'],
              'reserved_nodes:service=%s' % case['services'])
    try:
        out = H.drive(c, M.expect(c))
    except Exception as e:                            # noqa
        res.fail(exc_sig('reserved_nodes:harness_raised', e), repr(e))
        return res
    if out.exc is not None or not out.info:
        res.label('reserved_nodes:rm_raised')         # judged by C18
        return res
    info = out.info
    offered  = info.get('node_list') or []
    reserved = (info.get('agent_node_list') or []) + (info.get('service_node_list') or [])
    r_names  = set(nd['name'] for nd in reserved)
    r_index  = set(nd['index'] for nd in reserved)
    res.nontrivial = len(reserved) >= 1 and len(offered) >= 1
    if len(reserved) >= 2:
        res.label('reserved_nodes:several_reserved')
    for nd in offered:
        if nd['name'] in r_names or nd['index'] in r_index:
            res.fail('reserved_node_offered_to_tasks',
                     'node %s (index %s) is reserved (agent %s, service %s) and in the node list handed '
                     'to the scheduler and the client' % (nd['name'], nd['index'],
                        [x['name'] for x in info.get('agent_node_list') or []],
                        [x['name'] for x in info.get('service_node_list') or []]))
    # application-supplied placements: fill the pilot through Pilot.nodelist's own search
    try:
        nl = NodeList(nodes=[Node(copy.deepcopy(nd)) for nd in offered])
        rr = RankRequirements(n_cores=1)
        for _ in range(len(offered) * (case['cpn'] + 1) + 2):
            slots = nl.find_slots(rr, n_slots=1)
            if not slots:
                break
            for s in slots:
                if s.node_name in r_names or s.node_index in r_index:
                    res.fail('rank_placed_on_reserved_node', 'slot on %s (index %s)' % (s.node_name, s.node_index))
    except Exception as e:                            # noqa
        res.fail(exc_sig('reserved_nodes:placement_raised', e), repr(e))
    res.key = dict(case)
    return res
