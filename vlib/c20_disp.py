"""C20 part (c): the per-mode dispatchers of raptor.Worker called directly on a
hollow worker, payloads from the DSL of c20_payload."""
import os
import sys
import asyncio
import functools

from . import boot                                    # noqa: F401
from .runner import CaseResult, exc_sig
from . import c20_payload as P

import radical.pilot as rp
from radical.pilot.raptor.worker import Worker
from radical.pilot.task_description import (TASK_FUNC, TASK_METH, TASK_EVAL,
                                            TASK_EXEC, TASK_PROC, TASK_SHELL)

TRUE_ENVIRON = os.environ            # the real os._Environ object of this process
TRUE_STDOUT  = sys.stdout
TRUE_STDERR  = sys.stderr

BASE_KEY = 'C20_BASE'                # a variable that exists before every request
ENV_KEYS = ['C20_A', 'C20_B', BASE_KEY]


# ------------------------------------------------------------------------------
class PayloadWorker(Worker):
    """what an application does (examples/misc/raptor_worker.py): derive from the
    worker class and add the methods that `function` / `method` requests name"""

    def c20_run(self, prog):
        return P.run_prog(prog)

    async def c20_run_async(self, prog):
        return P.run_prog(prog)


def hollow_worker(cls=PayloadWorker):
    """Worker.__init__ minus registry / pubsub / heartbeat thread (fields copied
    from the constructor); the mode table is filled by the real register_mode"""
    w = cls.__new__(cls)
    w._manager   = True
    w._rank      = 0
    w._raptor_id = 'master.0000'
    w._uid       = 'worker.0000'
    w._sid       = 'rp.session.verif.0000'
    w._sbox      = boot.SCRATCH
    w._ranks     = 1
    w._log       = boot.LOG
    w._prof      = boot.PROF
    w._modes     = dict()
    w.register_mode(TASK_FUNC,  w._dispatch_func)
    w.register_mode(TASK_METH,  w._dispatch_meth)
    w.register_mode(TASK_EVAL,  w._dispatch_eval)
    w.register_mode(TASK_EXEC,  w._dispatch_exec)
    w.register_mode(TASK_PROC,  w._dispatch_proc)
    w.register_mode(TASK_SHELL, w._dispatch_shell)
    w._task_env = dict()
    for k, v in os.environ.items():
        if not k.startswith('RP_'):
            w._task_env[k] = v
    return w


# ------------------------------------------------------------------------------
class EnvGuard(object):
    """the harness side of 'restore the true os.environ object and the streams
    between cases no matter what'"""

    def __enter__(self):
        os.environ = TRUE_ENVIRON
        self.snap  = dict(TRUE_ENVIRON)
        self.out, self.err = sys.stdout, sys.stderr
        self.cwd = os.getcwd()
        return self

    def __exit__(self, *a):
        os.environ = TRUE_ENVIRON
        for k in list(TRUE_ENVIRON.keys()):
            if k not in self.snap:
                del TRUE_ENVIRON[k]
        for k, v in self.snap.items():
            if TRUE_ENVIRON.get(k) != v or P.cgetenv(k) != v:
                TRUE_ENVIRON[k] = v
        for k in ENV_KEYS:
            if k not in self.snap and P.cgetenv(k) is not None:
                TRUE_ENVIRON[k] = ''
                del TRUE_ENVIRON[k]
        sys.stdout, sys.stderr = self.out, self.err
        try:
            os.chdir(self.cwd)
        except Exception:
            pass
        return False


# ------------------------------------------------------------------------------
def make_task(idx, req):
    """task dict as the master would send it: description through the real
    TaskDescription (defaults, verify)"""
    mode, prog = req['mode'], req['prog']
    d = {'uid': 'task.%06d' % idx,
         'environment': dict(req.get('env') or {})}
    if mode == 'func':
        d.update(mode=TASK_FUNC, function='c20_run', args=[prog])
    elif mode == 'func_kw':
        d.update(mode=TASK_FUNC, function='c20_run', kwargs={'prog': prog})
    elif mode == 'func_async':
        d.update(mode=TASK_FUNC, function='c20_run_async', args=[prog])
    elif mode == 'pytask':
        d.update(mode=TASK_FUNC,
                 function=rp.PythonTask(P.run_prog, args=(prog,), kwargs={}))
    elif mode == 'pytask_deco':
        d.update(mode=TASK_FUNC, function=rp.pythontask(P.run_prog)(prog))
    elif mode == 'pytask_default':
        # the form of the PythonTask docstring: wrapped function, no args/kwargs
        d.update(mode=TASK_FUNC,
                 function=rp.PythonTask(functools.partial(P.run_prog, prog)))
    elif mode == 'eval':
        d.update(mode=TASK_EVAL, code=P.render_eval(prog))
    elif mode == 'exec':
        d.update(mode=TASK_EXEC, code=P.render_exec(prog))
    elif mode == 'proc':
        d.update(mode=TASK_PROC, executable='/bin/sh',
                 arguments=['-c', P.render_sh(prog)])
    elif mode == 'shell':
        d.update(mode=TASK_SHELL, command=P.render_sh(prog))
    else:
        raise ValueError(mode)
    td = rp.TaskDescription(d)
    td.verify()
    return {'uid': d['uid'], 'type': 'task', 'state': 'AGENT_EXECUTING',
            'description': td.as_dict(), 'task_sandbox_path': boot.SCRATCH}


def _text(x):
    if x is None:
        return ''
    if isinstance(x, bytes):
        return x.decode('utf-8', 'replace')
    return str(x)


def norm_req(req):
    mode = req.get('mode')
    if mode not in P.PY_MODES + P.SH_MODES:
        return None
    prog = []
    for op in req.get('prog') or []:
        if not isinstance(op, list) or not op:
            continue
        n = {'out': 2, 'err': 2, 'setenv': 3, 'delenv': 2, 'getenv': 2,
             'cgetenv': 2, 'swap_out': 1, 'swap_err': 1, 'raise': 3,
             'return': 2}.get(op[0])
        if n is None or len(op) != n:
            continue
        prog.append(op)
    env = {str(k): str(v) for k, v in (req.get('env') or {}).items()}
    return {'mode': mode, 'prog': prog, 'env': env}


# ------------------------------------------------------------------------------
def run_dispatch_case(case):
    res  = CaseResult()
    reqs = [r for r in (norm_req(r) for r in case.get('reqs') or []
                        if isinstance(r, dict)) if r]

    nt = False
    n_spawn = 0
    with EnvGuard():
        TRUE_ENVIRON[BASE_KEY] = 'base'
        w = hollow_worker()
        base_task_env = dict(w._task_env)    # the worker's environment before any request

        for idx, req in enumerate(reqs):
            mode = req['mode']
            mcls = P.mode_class(mode)
            dcls = P.disp_class(mode)
            sh   = mode in P.SH_MODES
            task = make_task(idx, req)

            env0   = dict(os.environ)
            penv0  = {k: P.cgetenv(k) for k in set(ENV_KEYS) | set(req['env'])}
            out0, err0 = sys.stdout, sys.stderr

            # what the statement promises the request to see: the worker's
            # environment as it was before any request, plus its own settings
            if sh:
                start = dict(base_task_env)
            else:
                start = dict(env0)
            start.update(req['env'])
            exp = P.model(req['prog'], start, start, sh=sh)

            raised = None
            tup    = None
            try:
                disp = w.get_dispatcher(task['description']['mode'])
                if task['description']['mode'] in (TASK_FUNC, TASK_METH):
                    tup = asyncio.run(disp(task))      # as DefaultWorker does
                else:
                    tup = disp(task)
            except Exception as e:       # noqa
                raised = e
            finally:
                out1, err1 = sys.stdout, sys.stderr
                sys.stdout, sys.stderr = out0, err0
            if sh:
                n_spawn += 1

            # ---- restoration clauses (hold whatever the outcome was)
            env1 = dict(os.environ)
            if env1 != env0:
                diff = sorted(k for k in set(env0) | set(env1)
                              if env0.get(k) != env1.get(k))
                res.fail('env_not_restored:%s' % dcls,
                         'os.environ differs after %s in %s' % (mode, diff))
            penv1 = {k: P.cgetenv(k) for k in penv0}
            if penv1 != penv0:
                diff = sorted(k for k in penv0 if penv0[k] != penv1[k])
                res.fail('process_env_not_restored:%s' % dcls,
                         'process-level environment (libc getenv) differs after %s: %s'
                         % (mode, {k: (penv0[k], penv1[k]) for k in diff}))
            if out1 is not out0:
                res.fail('stdout_not_restored:%s' % dcls, 'sys.stdout is %r' % (out1,))
            if err1 is not err0:
                res.fail('stderr_not_restored:%s' % dcls, 'sys.stderr is %r' % (err1,))

            # ---- reporting clauses
            if raised is not None:
                res.fail(exc_sig('dispatch_raised:%s' % mcls, raised), repr(raised))
            elif not isinstance(tup, (tuple, list)) or len(tup) != 5:
                res.fail('result_shape:%s' % mcls, repr(tup)[:300])
            else:
                out, err, ret, val, exc = tup
                if exp.ok:
                    if ret != 0:
                        res.fail('ret_nonzero_but_succeeded:%s' % mcls,
                                 'ret=%r exc=%r err=%r' % (ret, exc, _text(err)[:300]))
                    else:
                        if val != exp.val:
                            res.fail('val_mismatch:%s' % mcls,
                                     'expected %r got %r' % (exp.val, val))
                        for name, segs, got in (('out', exp.out, out), ('err', exp.err, err)):
                            bad = P.match_output(segs, _text(got))
                            if bad:
                                kind = {'lit': '%s_mismatch' % name,
                                        'env': 'request_sees_wrong_env',
                                        'cenv': 'request_sees_wrong_process_env'}[bad[0]]
                                if bad[0] == 'cenv':
                                    # the cause sits in an earlier dispatch, any mode
                                    res.fail(kind, '%s request: %s' % (mode, bad[1]))
                                else:
                                    res.fail('%s:%s' % (kind, mcls if bad[0] == 'lit' else dcls),
                                             bad[1])
                        if exc and (exc[0] or exc[1]):
                            res.fail('exc_on_success:%s' % mcls, repr(exc)[:300])
                else:
                    if isinstance(ret, bool) or not isinstance(ret, int) or ret == 0:
                        res.fail('ret_zero_but_failed:%s' % mcls,
                                 'ret=%r after %s' % (ret, exp.exc))
                    elif not sh:
                        # a python exception exists: the report must name it
                        if not exc or not exc[0] or exp.exc not in str(exc[0]):
                            res.fail('exc_not_named:%s' % mcls,
                                     'raised %s, exc=%r' % (exp.exc, exc))

            if exp.prints and (not exp.ok or exp.changes_env):
                nt = True
            res.label('mode=%s' % mode, 'outcome=%s' % ('ok' if exp.ok else 'raise'))
            if exp.changes_env : res.label('changes_env')
            if exp.swaps       : res.label('swaps_stream')
            if req['env']      : res.label('has_task_env')
            if idx > 0         : res.label('follow_up_request')

    res.nontrivial = nt
    res.label('n_reqs=%d' % min(len(reqs), 4))
    if n_spawn:
        res.label('spawns=%d' % n_spawn)
    res.key = {'k': 'dispatch', 'r': reqs}
    return res
