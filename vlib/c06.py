"""C06 - Applications observe the linear task state model.  (DESIGN.md 4/C06, A.1)

Drive : hollow TaskManager; notification batches travel the production path
        state pubsub -> _state_sub_cb -> _update_tasks -> _task_state_progress
        -> Task._update -> _task_cb  (or _state_sub_cb called directly), real
        Task objects from the real submit_tasks, a wildcard callback and
        per-task callbacks registered through the real register_callback of the
        manager / of the task.
Oracle: reference model A.1 written from the documented state model (own
        literal table, never calls the code under test).  After every batch:
        no exception escaped the subscriber callback; Task.state == model for
        every task; per task the announced states (wildcard and per-task
        observer) == model stream; what a callback can read from Task.state is
        never behind what it is told; result fields of a final task are frozen.
        Part 2 enumerates all (current, target) pairs: the helper against its
        docstring and the pair end-to-end with bystanders in the same batch.
"""
import copy

from hypothesis import strategies as st

from . import boot                                    # noqa: F401
from .runner import CaseResult, Part, exc_sig
from .hollow import HollowSession, hollow_tmgr

import radical.pilot           as rp
import radical.pilot.states    as rps
import radical.pilot.task      as rp_task
import radical.pilot.constants as rpc

PID  = 'C06'
RULE = ('cases = (1-6 tasks submitted through the real submit_tasks, then a generated sequence of '
        'notification batches; per task a forward flow through the state model perturbed by '
        'duplicates, adjacent swaps, dropped states, contradictory / repeated finals and late '
        'non-final notifications, or uniformly random states; entries of all tasks merged and cut '
        'into batches of 1-30 entries, with unknown uids and non-task entries mixed in); '
        'non-trivial = some batch touches >=2 known tasks and contains an entry that skips >=2 '
        'states, moves backward / arrives after a final state, or names a contradictory final '
        'state; distinct = canonical (number of tasks, batches of (task, state), delivery mode)')
ASSUMPTIONS = [
    'TaskManager is built hollow (constructor fields copied, no components/bridges); its real '
    '_initialize, submit_tasks, advance/publish, register_callback, _state_sub_cb, _update_tasks, '
    '_task_cb run unmodified; Task objects come from the real constructor',
    'transport = in-memory pubsub with msgpack round trip, delivered synchronously, one batch at a '
    'time; exceptions escaping a subscriber callback are swallowed by the subscriber as in '
    'ru.zmq and read from the transport event log',
    'reference model = literal copy of the documented numeric state order (DESIGN appendix A.1)',
    'radical.utils.get_version shim (src/radical/pilot/VERSION absent in this tree)']
NOT_REACHED = [
    'Task._update(reconnect=True) (no caller in this tree)',
    'bulk callbacks (RADICAL_PILOT_BULK_CB, documented as unused)',
    'interleavings of _pilot_state_cb (pilot-manager thread, takes no _tasks_lock) with '
    '_update_tasks: a direct Task._update(FAILED) on a task that became CANCELED in between '
    'is not driven here (batches are delivered one at a time)']
EXHAUSTIVE = ('all 18 x 18 (current, target) pairs of named task states x 2 delivery modes: '
              'states._task_state_progress against its docstring, and the pair end-to-end '
              '(subject driven to current, then one batch [bystander, subject->target, bystander])')

BUDGET = {'quick': 90, 'thorough': 540}

# ------------------------------------------------------------------------------
# reference model (A.1): literal copy of the documented state model
ORDER = ['NEW',
         'TMGR_SCHEDULING_PENDING', 'TMGR_SCHEDULING',
         'TMGR_STAGING_INPUT_PENDING', 'TMGR_STAGING_INPUT',
         'AGENT_STAGING_INPUT_PENDING', 'AGENT_STAGING_INPUT',
         'AGENT_SCHEDULING_PENDING', 'AGENT_SCHEDULING',
         'AGENT_EXECUTING_PENDING', 'AGENT_EXECUTING',
         'AGENT_STAGING_OUTPUT_PENDING', 'AGENT_STAGING_OUTPUT',
         'TMGR_STAGING_OUTPUT_PENDING', 'TMGR_STAGING_OUTPUT']
FINALS = ['DONE', 'FAILED', 'CANCELED']
ALL    = ORDER + FINALS
VAL    = {s: i for i, s in enumerate(ORDER)}
VAL.update({s: len(ORDER) for s in FINALS})
TOP    = len(ORDER)                                   # 15


def m_step(cur, tgt):
    """(new state, announced states) for one notification"""
    if cur in FINALS:
        return cur, []
    if tgt in ('FAILED', 'CANCELED'):
        return tgt, [tgt]
    if VAL[tgt] > VAL[cur]:
        return tgt, ORDER[VAL[cur] + 1:VAL[tgt]] + [tgt]
    return cur, []


def m_class(cur, tgt):
    """input class of one notification, for NT / labels"""
    if cur in FINALS:
        if tgt == cur:
            return 'refinal'
        if tgt in FINALS:
            return 'contra_final'
        return 'late_nonfinal'
    if tgt in ('FAILED', 'CANCELED'):
        return 'abort_from_nonfinal'
    d = VAL[tgt] - VAL[cur]
    if d == 0:
        return 'dup'
    if d < 0:
        return 'backward'
    if d == 1:
        return 'step'
    if d == 2:
        return 'skip1'
    return 'skip2+'


OFFENDING = ('skip2+', 'backward', 'late_nonfinal', 'contra_final')


# ------------------------------------------------------------------------------
# generator
def _flow(draw):
    """emissions of one task: a forward walk, then perturbed"""
    end  = draw(st.integers(1, TOP))
    fin  = draw(st.sampled_from([None, 'DONE', 'DONE', 'FAILED', 'CANCELED']))
    pos  = 1
    ems  = []
    while pos < end:
        pos = min(end, pos + draw(st.sampled_from([1, 1, 1, 1, 2, 3, 6])))
        if pos < TOP:
            ems.append(ORDER[pos])
    if fin == 'DONE':
        if end == TOP:
            ems.append('DONE')
    elif fin:
        ems.append(fin)

    for op in draw(st.lists(st.sampled_from(['dup', 'swap', 'drop', 'contra', 'late',
                                             'refinal', 'dupnow']), max_size=4)):
        if op in ('contra', 'late', 'refinal'):
            if not any(e in FINALS for e in ems):
                ems.append(draw(st.sampled_from(FINALS)))
            last = [e for e in ems if e in FINALS][0]
            if op == 'contra':
                ems.append(draw(st.sampled_from([f for f in FINALS if f != last])))
            elif op == 'late':
                ems.append(draw(st.sampled_from(ORDER[1:])))
            else:
                ems.append(last)
            continue
        if not ems:
            continue
        i = draw(st.integers(0, len(ems) - 1))
        if op == 'dup':
            ems.insert(draw(st.integers(i, len(ems))), ems[i])
        elif op == 'dupnow':
            ems.insert(i, ems[i])
        elif op == 'swap' and i + 1 < len(ems):
            ems[i], ems[i + 1] = ems[i + 1], ems[i]
        elif op == 'drop':
            del ems[i]
    return ems


@st.composite
def histories(draw):
    n     = draw(st.integers(1, 6))
    via   = draw(st.sampled_from(['pubsub', 'pubsub', 'direct']))
    style = draw(st.sampled_from(['flow', 'flow', 'flow', 'random', 'storm']))

    streams = []
    for _ in range(n):
        if style == 'random':
            streams.append(draw(st.lists(st.sampled_from(ALL), max_size=8)))
        else:
            streams.append(_flow(draw))

    flat = [t for t, ems in enumerate(streams) for _ in ems]
    order = draw(st.permutations(flat)) if flat else []
    nxt = [0] * n
    entries = []
    for t in order:
        x = draw(st.sampled_from([0, 0, 0, 1, 2, 3, 4, 7, 16]))
        entries.append({'t': t, 's': streams[t][nxt[t]], 'x': x})
        nxt[t] += 1
        if draw(st.integers(0, 15)) == 0:
            # an entry for an unknown uid / a non-task thing rides along
            entries.append({'t': draw(st.sampled_from([n, draw(st.integers(0, n))])),
                            's': draw(st.sampled_from(ALL)),
                            'x': draw(st.sampled_from([0, 8]))})
    batches = []
    i = 0
    while i < len(entries):
        if style == 'storm':
            k = draw(st.integers(6, 30))
        else:
            k = draw(st.sampled_from([1, 1, 2, 2, 3, 4, 5, 8]))
        batches.append(entries[i:i + k])
        i += k
    if draw(st.integers(0, 9)) == 0:
        batches.insert(draw(st.integers(0, len(batches))), [])
    # the application waits on tasks between notifications (`Task.wait`, with and without an explicit
    # state, the state given as a string or a list): [before batch, task, state(s)]
    waits = []
    if draw(st.integers(0, 2)) == 0:
        for _ in range(draw(st.integers(1, 3))):
            w = draw(st.sampled_from(['none', 'one', 'list']))
            ws = None if w == 'none' else draw(st.sampled_from(ALL)) if w == 'one' else \
                 draw(st.lists(st.sampled_from(ALL), min_size=1, max_size=3))
            waits.append([draw(st.integers(0, len(batches))), draw(st.integers(0, n - 1)), ws])
    return {'kind': 'batches', 'n_tasks': n, 'via': via, 'batches': batches, 'waits': waits,
            'mutating': draw(st.integers(0, 3)) == 0,
            'service': draw(st.integers(0, 3)) == 0}


def pair_cases(tier):
    for cur in ALL:
        for tgt in ALL:
            for via in ('pubsub', 'direct'):
                yield {'kind': 'pair', 'cur': cur, 'tgt': tgt, 'via': via}


def parts(tier):
    return [Part('pairs_exhaustive', enum=pair_cases),
            Part('batch_histories', histories(), quick=2000, thorough=20000)]


def normalise(case):
    if not isinstance(case, dict) or case.get('kind') not in ('batches', 'pair'):
        return None
    if case['kind'] == 'pair':
        return case if case.get('cur') in ALL and case.get('tgt') in ALL else None
    if not isinstance(case.get('batches'), list):
        return None
    for b in case['batches']:
        if not isinstance(b, list):
            return None
        for e in b:
            if not isinstance(e, dict) or e.get('s') not in ALL:
                return None
            e.setdefault('t', 0)
            e.setdefault('x', 0)
    return case


# ------------------------------------------------------------------------------
RESULT_FIELDS = ('exit_code', 'stdout', 'stderr', 'exception', 'exception_detail',
                 'return_value')


def _entry_dict(uid, e, bi, ei):
    """the notification as a component would publish it (plain data, derived
    deterministically from the case)"""
    x = int(e.get('x', 0))
    d = {'uid': uid, 'type': 'task', 'state': e['s']}
    if x & 8:
        d['type'] = 'pilot'
    if x & 1:
        d['stdout'] = 'out-%d-%d' % (bi, ei)
        d['stderr'] = 'err-%d-%d' % (bi, ei)
    if x & 2:
        d['exit_code'] = (bi * 7 + ei) % 5
    if x & 4:
        d['exception'] = 'RuntimeError("e-%d-%d")' % (bi, ei)
        d['exception_detail'] = 'detail-%d-%d' % (bi, ei)
    if x & 16:
        d['target_state'] = 'DONE'
        d['pilot'] = 'pilot.0000'
    return d


def _stream_diff(real, model):
    """why two announced-state lists differ (signature component)"""
    if len(set(real)) != len(real):
        return 'duplicate'
    vals = [VAL[s] for s in real]
    if any(b < a for a, b in zip(vals, vals[1:])):
        return 'backward'
    it = iter(model)
    if all(s in it for s in real):
        return 'missing'
    it = iter(real)
    if all(s in it for s in model):
        return 'extra'
    return 'different'


class _WaitClock(object):
    """virtual clock for the polling loop of Task.wait"""
    def __init__(self):
        self.now = 1000.0
    def time(self):
        return self.now
    def sleep(self, dt):
        self.now += max(dt, 0.01)


class _Run(object):
    """one hollow task manager with observers, fed batch by batch"""

    def __init__(self, res, n, via, mutating=False, service=False):
        self.res  = res
        self.via  = via
        self.sess = HollowSession()
        self.tm   = hollow_tmgr(self.sess)
        self.obs  = {'w': [], 'p': []}            # (uid, announced, Task.state then)
        self.seen = {'w': 0, 'p': 0}
        self.dead = False                         # diverged: stop the case

        def wild(task, state):
            self.obs['w'].append((task.uid, state, task.state))

        def per_task(task, state, data=None):
            self.obs['p'].append((task.uid, state, task.state))

        self._per_task = per_task
        self.tm.register_callback(wild)

        self.uids  = ['task.%06d' % i for i in range(n)]
        self.model = {u: 'NEW' for u in self.uids}
        self.frozen = {}                          # uid -> result fields when it became final

        tds = [rp.TaskDescription({'uid': u, 'executable': '/bin/true'}) for u in self.uids]
        if mutating is not None and service:
            # the last task is a service task (mode task.service): its start-up info reaches the
            # task manager through the control channel (`service_up`) before it ends
            tds[-1] = rp.TaskDescription({'uid': self.uids[-1], 'executable': '/bin/true',
                                          'mode': rp.TASK_SERVICE})
        n0  = len(self.sess.net.log)
        self.tasks = dict()
        raised = None
        try:
            for t in self.tm.submit_tasks(tds):
                self.tasks[t.uid] = t
        except Exception as e:                    # noqa
            raised = e
        # submission is the first notification batch (NEW -> TMGR_SCHEDULING_PENDING)
        exp = {u: m_step('NEW', 'TMGR_SCHEDULING_PENDING') for u in self.uids}
        if raised is None and len(self.tasks) == n:
            self._after_batch('submit', exp, self._errors(n0, raised), per_task=False)
        else:
            res.fail(exc_sig('submit_raised', raised) if raised else 'submit_lost_tasks',
                     repr(raised))
            self.dead = True
            return

        for i, u in enumerate(self.uids):
            if i % 2 == 0:
                self.tm.register_callback(per_task, uid=u)
            else:
                self.tasks[u].register_callback(per_task, cb_data={'i': i})

        if mutating:
            # applications also use callbacks which change the callback tables while they are
            # being called: a one-shot callback which takes itself off, a callback which registers
            # a further one.  They observe nothing here - the recording callbacks above must see
            # exactly what they see without them.
            tm, u0 = self.tm, self.uids[0]

            def late(task, state):
                pass

            def oneshot(task, state):
                tm.unregister_callback(cb=oneshot, uid=u0)

            def registrar(task, state):
                if not registrar.done:
                    registrar.done = True
                    tm.register_callback(late)
            registrar.done = False
            tm.register_callback(oneshot, uid=u0)
            tm.register_callback(registrar)

            # ... and callbacks which share their name with the recording ones (closures of one
            # factory, methods of two watcher objects): taking one off must not take the other off
            def twin_m(task, state):
                tm.unregister_callback(cb=twin_m)

            def twin_t(task, state):
                tm.unregister_callback(cb=twin_t, uid=u0)
            twin_m.__name__ = twin_m.__qualname__ = wild.__name__
            twin_t.__name__ = twin_t.__qualname__ = per_task.__name__
            tm.register_callback(twin_m)
            tm.register_callback(twin_t, uid=u0)
            res.label('callbacks_changing_the_callback_tables')

        if service:
            self.tm._control_cb(rpc.CONTROL_PUBSUB, {'cmd': 'service_up',
                                'arg': {'uid': self.uids[-1], 'info': 'tcp://host:1234'}})
            res.label('service_task_with_startup_info')

    # --------------------------------------------------------------------------
    def wait(self, t, states):
        """the application waits on a task (bounded): the call returns the task's state and
        changes nothing - what the observers saw and what later notifications do stays the same"""
        uid  = self.uids[t]
        task = self.tasks[uid]
        clock = _WaitClock()
        old = rp_task.time
        rp_task.time = clock
        try:
            got = task.wait(state=states, timeout=0.3)
        except Exception as e:                    # noqa
            self.res.fail(exc_sig('task_wait_raised', e), 'Task.wait(%r) for %s' % (states, uid))
            self.dead = True
            return
        finally:
            rp_task.time = old
        self.res.label('task_wait', 'task_wait:%s' % ('final' if states is None else
                       'list' if isinstance(states, list) else 'state'))
        if got != self.model[uid] or task.state != self.model[uid]:
            self.res.fail('task_wait_value', 'Task.wait(%r) for %s returned %r, task state %r, '
                          'model %r' % (states, uid, got, task.state, self.model[uid]))
            self.dead = True
        if list(rps.FINAL) != FINALS:
            self.res.fail('final_states_changed_by_wait', 'after Task.wait(%r): states.FINAL is %r'
                          % (states, list(rps.FINAL)))

    def _errors(self, n0, raised):
        errs = [e[3] for e in self.sess.net.log[n0:] if e[0] == 'cb_error']
        if raised is not None:
            errs.append(raised)
        return errs

    def feed(self, bi, batch):
        """deliver one batch, compare with the model"""
        n      = len(self.uids)
        msgs   = []
        exp    = {}                               # uid -> (state, announced) of this batch
        klass  = []                               # (uid, class) per known-task entry
        for ei, e in enumerate(batch):
            t = int(e.get('t', 0)) % (n + 1)
            uid = self.uids[t] if t < n else 'task.%06d' % (900000 + ei)
            d = _entry_dict(uid, e, bi, ei)
            msgs.append(d)
            if t == n or d['type'] != 'task':
                klass.append((None, 'unknown_uid' if t == n else 'non_task'))
                continue
            cur = exp[uid][0] if uid in exp else self.model[uid]
            klass.append((uid, m_class(cur, e['s'])))
            new, ann = m_step(cur, e['s'])
            exp[uid] = (new, (exp[uid][1] if uid in exp else []) + ann)

        msg = {'cmd': 'update', 'arg': msgs}
        n0  = len(self.sess.net.log)
        raised = None
        try:
            if self.via == 'direct':
                self.tm._state_sub_cb(rpc.STATE_PUBSUB, copy.deepcopy(msg))
            else:
                self.tm.publish(rpc.STATE_PUBSUB, msg)
        except Exception as e:                    # noqa
            raised = e
        self._after_batch('batch %d %s' % (bi, [(m['uid'][-2:], m['state']) for m in msgs]),
                          exp, self._errors(n0, raised))
        return klass

    # --------------------------------------------------------------------------
    def _after_batch(self, what, exp, errors, per_task=True):
        res = self.res
        bad = False
        aborted = bool(errors)
        sfx = ':after_raise' if aborted else ''

        for e in errors:
            res.fail(exc_sig('batch_raised', e), '%s: %r' % (what, e))
            bad = True

        touched = set(exp)
        for uid in self.uids:
            task = self.tasks[uid]
            old  = self.model[uid]
            new, ann = exp.get(uid, (old, []))
            self.model[uid] = new

            # --- Task.state
            if task.state != new:
                bad = True
                if old in FINALS:
                    res.fail('final_state_changed:%s->%s' % (old, task.state),
                             '%s: %s was %s, now %s' % (what, uid, old, task.state))
                elif uid not in touched:
                    res.fail('untouched_task_changed' + sfx,
                             '%s: %s %s -> %s' % (what, uid, old, task.state))
                elif aborted:
                    res.fail('task_not_updated:after_raise',
                             '%s: %s is %s, model %s' % (what, uid, task.state, new))
                else:
                    res.fail('state_mismatch:%s' % m_class(old, new),
                             '%s: %s is %s, model %s (was %s)'
                             % (what, uid, task.state, new, old))

            # --- announced states
            for who in (('w', 'p') if per_task else ('w',)):
                got = self.obs[who][self.seen[who]:]
                mine = [o for o in got if o[0] == uid]
                real = [o[1] for o in mine]
                if real != ann:
                    bad = True
                    if aborted and not real:
                        res.fail('callbacks_lost:after_raise',
                                 '%s: %s observer=%s expected %s got none (Task.state=%s)'
                                 % (what, uid, who, ann, task.state))
                    else:
                        res.fail('cb_stream:%s:%s%s' % ('wildcard' if who == 'w' else 'per_task',
                                                        _stream_diff(real, ann), sfx),
                                 '%s: %s announced %s, model %s' % (what, uid, real, ann))
                for _, s, then in mine:
                    if s not in VAL or then not in VAL:
                        continue
                    if VAL[then] < VAL[s] or (s in FINALS and then != s):
                        bad = True
                        res.fail('cb_ahead_of_task_state',
                                 '%s: %s told %s while Task.state read %s' % (what, uid, s, then))

            # --- result fields of a final task are frozen
            fields = tuple(getattr(task, f) for f in RESULT_FIELDS)
            if uid in self.frozen:
                if fields != self.frozen[uid]:
                    bad = True
                    res.fail('final_fields_changed',
                             '%s: %s %r -> %r' % (what, uid, self.frozen[uid], fields))
            elif task.state in FINALS:
                self.frozen[uid] = fields

        # announcements for things that are no task of ours
        for who in ('w', 'p'):
            for o in self.obs[who][self.seen[who]:]:
                if o[0] not in self.model:
                    bad = True
                    res.fail('cb_for_unknown_task', '%s: %r' % (what, o))
            self.seen[who] = len(self.obs[who])

        if bad:
            self.dead = True


# ------------------------------------------------------------------------------
def _run_batches(res, case):
    n   = max(1, min(8, int(case.get('n_tasks', 1))))
    via = 'direct' if case.get('via') == 'direct' else 'pubsub'
    run = _Run(res, n, via, mutating=bool(case.get('mutating')), service=bool(case.get('service')))

    classes  = set()
    nt       = False
    n_ent    = 0
    max_b    = 0
    waits = [w for w in (case.get('waits') or [])
             if isinstance(w, list) and len(w) == 3 and
             (w[2] is None or w[2] in ALL or
              (isinstance(w[2], list) and w[2] and all(x in ALL for x in w[2])))]
    for bi, batch in enumerate(list(case.get('batches', [])) + [None]):
        if run.dead:
            break
        for w in waits:
            if int(w[0]) == bi:
                run.wait(int(w[1]) % n, w[2])
        if batch is None or run.dead:
            break
        klass = run.feed(bi, batch)
        n_ent += len(klass)
        max_b = max(max_b, len(klass))
        ks = set(k for _, k in klass)
        classes |= ks
        if len(set(u for u, _ in klass if u)) >= 2 and ks & set(OFFENDING):
            nt = True

    res.nontrivial = nt
    res.label('via=%s' % via, 'tasks=%d' % n)
    res.label(*['has:%s' % k for k in sorted(classes)])
    res.label('entries=%s' % ('0' if not n_ent else '1-5' if n_ent <= 5 else
                              '6-20' if n_ent <= 20 else '21+'))
    res.label('max_batch=%s' % ('<=1' if max_b <= 1 else '2-5' if max_b <= 5 else
                                '6-12' if max_b <= 12 else '13+'))
    if nt:
        res.label('nontrivial')
    finals = [s for s in run.model.values() if s in FINALS]
    if finals:
        res.label('some_task_final')
    res.key = {'n': n, 'via': via,
               'b': [[(int(e.get('t', 0)) % (n + 1), e['s'], bool(int(e.get('x', 0)) & 8))
                      for e in b] for b in case.get('batches', [])]}
    return res


def _run_pair(res, case):
    cur, tgt = case['cur'], case['tgt']

    # (a) the helper against its docstring
    ret = None
    try:
        ret = rps._task_state_progress('task.000001', cur, tgt)
    except Exception as e:                        # noqa
        res.fail(exc_sig('progress_raised', e) + ':' + m_class(cur, tgt), repr(e))
    if ret is not None:
        new, passed = ret[0], list(ret[1])
        if VAL[tgt] > VAL[cur]:
            want = (tgt, ORDER[VAL[cur] + 1:VAL[tgt]] + [tgt])
            ok   = (new, passed) == want
        else:
            # no progression; documented preference DONE/FAILED over CANCELED
            # may name the target as long as nothing is announced
            want = (cur, [])
            ok   = passed == [] and (new == cur or (cur == 'CANCELED' and new == tgt
                                                    and tgt in FINALS))
        if not ok:
            res.fail('progress_wrong:%s' % m_class(cur, tgt),
                     '(%s, %s) -> %r, documented %r' % (cur, tgt, (new, passed), want))

    # (b) the pair end-to-end, bystanders before and after in the same batch
    res.label('pair:%s' % m_class(cur, tgt))
    if cur == 'NEW':
        # a submitted task is past NEW when submit_tasks returns
        res.label('pair:helper_only')
        return res
    hist = {'kind': 'batches', 'n_tasks': 3, 'via': case.get('via', 'pubsub'),
            'batches': [[{'t': 1, 's': cur, 'x': 0}],
                        [{'t': 0, 's': 'TMGR_SCHEDULING', 'x': 0},
                         {'t': 1, 's': tgt, 'x': 3},
                         {'t': 2, 's': 'TMGR_SCHEDULING', 'x': 0}]]}
    sub = CaseResult()
    _run_batches(sub, hist)
    res.problems.extend(sub.problems)
    res.nontrivial = sub.nontrivial       # same rule: offending entry among >= 2 tasks
    return res


def run_case(case):
    res = CaseResult()
    rps.FINAL[:] = FINALS                         # module state: every case starts from the documented list
    if case.get('kind') == 'pair':
        return _run_pair(res, case)
    return _run_batches(res, case)
