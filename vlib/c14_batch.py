"""C14 part: the batch-job launchers report the end of a pilot's job for that pilot.

Real  : PilotLauncherSAGA.launch_pilots / _job_state_cb / _translate_state (pmgr/launching/saga.py)
        and PilotLauncherPSIJ.launch_pilots / _job_status_cb / _translate_state (psi_j.py) with the
        real psij Job / JobSpec / JobStatus objects.
Faked : radical.saga (not installed): a stand-in module with job.Service / Container / Description,
        state constants and jobs which keep their callbacks; the PSI/J job executor (would call the
        batch system): a recorder.  The batch system then reports job states, for any job of the
        bulk in any order.
Oracle: every reported job state reaches the state callback for the pilot whose job it is, mapped
        as documented (DONE / FAILED / CANCELED -> the same pilot state: "the final state tells why
        the pilot ended"; queued / running states never end a pilot), and for no other pilot.
"""
import types
import datetime                                       # noqa: F401

from hypothesis import strategies as st

from . import boot                                    # noqa: F401
from .runner import CaseResult, exc_sig

import logging
logging.disable(logging.INFO)                         # psi_j.py switches the root logger to DEBUG on import

import radical.utils as ru
import radical.pilot.states as rps
import radical.pilot.pmgr.launching.saga  as m_saga
import radical.pilot.pmgr.launching.psi_j as m_psij

S_STATES = ['Pending', 'Running', 'Suspended', 'Done', 'Failed', 'Canceled']
S_FINAL  = {'Done': rps.DONE, 'Failed': rps.FAILED, 'Canceled': rps.CANCELED}


@st.composite
def cases(draw):
    n = draw(st.integers(1, 4))
    events = draw(st.lists(st.tuples(st.integers(0, n - 1), st.sampled_from(S_STATES + ['Done', 'Failed'])
                                     ).map(list), min_size=1, max_size=8))
    return {'kind': 'batch_launcher', 'launcher': draw(st.sampled_from(['saga', 'saga', 'psij'])),
            'n': n, 'events': events}


def normalise(case):
    try:
        n = max(1, min(4, int(case.get('n') or 1)))
        ev = [[int(e[0]) % n, e[1]] for e in case.get('events', []) if e[1] in S_STATES]
        return {'kind': 'batch_launcher', 'launcher': 'psij' if case.get('launcher') == 'psij' else 'saga',
                'n': n, 'events': ev} if ev else None
    except Exception:
        return None


# ------------------------------------------------------------------------------
def _fake_saga():
    rs  = types.SimpleNamespace()
    job = types.SimpleNamespace(NEW='New', PENDING='Pending', RUNNING='Running', SUSPENDED='Suspended',
                                DONE='Done', FAILED='Failed', CANCELED='Canceled')
    rs.STATE, rs.FAILED = 'State', 'Failed'

    class Description(dict):
        def set_attribute(self, k, v):
            self[k] = v

        def __missing__(self, k):
            return None

    class Job(object):
        n = 0

        def __init__(self, jd):
            Job.n += 1
            self.id, self.name, self.jd = 'job.%04d' % Job.n, jd.get('name'), jd
            self.state, self.cbs = 'New', []
            self.stdout = self.stderr = ''

        def add_callback(self, metric, cb):
            self.cbs.append(cb)

        def cancel(self):
            pass

    class Service(object):
        def __init__(self, url):
            self.url, self.jobs = url, []

        def create_job(self, jd):
            j = Job(jd)
            self.jobs.append(j)
            return j

        def close(self):
            pass

    class Container(object):
        def __init__(self):
            self.tasks = []

        def add(self, j):
            self.tasks.append(j)

        def run(self):
            for j in self.tasks:
                j.state = 'Pending'

        def get_tasks(self):
            return list(self.tasks)

        def cancel(self):
            pass

        def wait(self):
            pass
    job.Description, job.Service, job.Container = Description, Service, Container
    rs.job = job
    rs.Session = lambda: None
    return rs


class _JD(dict):
    __getattr__ = dict.get


def _pilots(n):
    out = []
    for i in range(n):
        jd = _JD(name='pilot.%04d' % i, executable='/bin/sh', arguments=['bootstrap_0.sh', '-p', 'pilot.%04d' % i],
                 environment={}, working_directory='/tmp', output='out', error='err', wall_time_limit=10,
                 total_cpu_count=4, node_count=1, project=None, queue=None,
                 system_architecture={})
        out.append({'uid': 'pilot.%04d' % i, 'type': 'pilot', 'state': rps.PMGR_LAUNCHING, 'jd_dict': jd,
                    'description': {'resource': 'site.a', 'access_schema': 'ssh'}})
    return out


def run(case):
    res = CaseResult()
    n, kind = case['n'], case['launcher']
    res.label('batch_launcher', 'batch_launcher:%s' % kind, 'batch_launcher:bulk=%d' % n)
    seen = []                                         # (pilot uid, rp state) at the state callback

    def state_cb(pilot, rp_state):
        seen.append((pilot['uid'], rp_state))

    pilots = _pilots(n)
    rcfg   = ru.Config(from_dict={'job_manager_endpoint': 'slurm+ssh://site.a/'})
    old_rs = m_saga.rs
    try:
        if kind == 'saga':
            rs = _fake_saga()
            m_saga.rs = rs
            lp = m_saga.PilotLauncherSAGA.__new__(m_saga.PilotLauncherSAGA)
            lp._log = lp._prof = boot.LOG
            lp._name, lp._state_cb = 'SAGA', state_cb
            lp._jobs, lp._js, lp._pilots = dict(), dict(), dict()
            lp._lock = m_saga.mt.RLock()
            lp.launch_pilots(rcfg, pilots)
            jobs = lp._js[rcfg['job_manager_endpoint']].jobs

            def report(i, s):
                j = jobs[i]
                j.state = s
                for cb in list(j.cbs):
                    cb(j, rs.STATE, s)
        else:
            psij = m_psij.psij

            class Jex(object):
                def __init__(self):
                    self.jobs = []

                def submit(self, job):
                    self.jobs.append(job)
            lp = m_psij.PilotLauncherPSIJ.__new__(m_psij.PilotLauncherPSIJ)
            lp._log = lp._prof = boot.LOG
            lp._name, lp._state_cb = 'PSI_J', state_cb
            lp._jobs, lp._pilots = dict(), dict()
            lp._jex  = {'slurm': Jex()}
            lp._lock = m_psij.mt.RLock()
            lp.launch_pilots(rcfg, pilots)
            jobs = lp._jex['slurm'].jobs
            MAP = {'Pending': psij.JobState.QUEUED, 'Running': psij.JobState.ACTIVE,
                   'Suspended': psij.JobState.QUEUED, 'Done': psij.JobState.COMPLETED,
                   'Failed': psij.JobState.FAILED, 'Canceled': psij.JobState.CANCELED}

            def report(i, s):
                lp._job_status_cb(jobs[i], psij.JobStatus(MAP[s]))
    except Exception as e:                            # noqa
        res.fail(exc_sig('batch_launcher:launch_raised:%s' % kind, e), repr(e))
        m_saga.rs = old_rs
        return res

    try:
        if len(jobs) != n:
            res.fail('batch_launcher:jobs_submitted', '%d pilots, %d jobs' % (n, len(jobs)))
            return res
        ended, others_alive = set(), False
        for i, s in case['events']:
            i = i % n
            if i in ended:
                continue                              # a batch job ends once
            n0 = len(seen)
            try:
                report(i, s)
            except Exception as e:                    # noqa
                res.fail(exc_sig('batch_launcher:state_report_raised:%s' % kind, e), repr(e))
                break
            new = seen[n0:]
            wrong = [x for x in new if x[0] != pilots[i]['uid']]
            if wrong:
                res.fail('batch_launcher:state_credited_to_other_pilot:%s' % kind,
                         'job of %s is %s; reported for %s' % (pilots[i]['uid'], s, wrong))
            if s in S_FINAL:
                ended.add(i)
                if len(ended) < n:
                    others_alive = True
                if (pilots[i]['uid'], S_FINAL[s]) not in new:
                    res.fail('batch_launcher:job_end_not_reported:%s' % kind,
                             'job of %s ended %s; state callback saw %s' % (pilots[i]['uid'], s, new))
            elif any(x[1] in rps.FINAL for x in new):
                res.fail('batch_launcher:pilot_ended_by_nonfinal_job_state:%s' % kind,
                         'job of %s is %s; reported %s' % (pilots[i]['uid'], s, new))
        res.nontrivial = n >= 2 and others_alive
    finally:
        m_saga.rs = old_rs
    return res
