"""C10 engine: a real Popen executor (real _initialize/initialize, real Fork and
MPIRun launch methods through the real LaunchMethod constructors) on a hollow
agent session, whose generated launch/exec scripts are run by bash through the
executor's own `_launch_task` (real subprocess.Popen of <uid>.launch.sh).

What is faked (trusted base):
  * agent session           : vlib.hollow.HollowSession + the cfg/rcfg keys
                              AgentExecutingComponent.initialize reads
  * threads                 : executing.base.mt / popen.mt `Thread` is a recorder
                              (watcher / timeout threads never run)
  * ResourceManager.create  : FakeRM holding the REAL launch methods; uses the
                              real ResourceManager.find_launcher/get_launcher
  * pilot sandbox content   : `prof`, `gtod` -> /bin/true; env/bs0_orig.env with
                              a small base environment; a fake `mpirun` that
                              starts N copies of its command with PMIX_RANK=i;
                              a fast `sleep`
  * the task's executable   : a probe script dumping argc/argv/env/cwd
"""
import os
import signal
import subprocess
import shutil
import threading

from . import boot
from .hollow import HollowSession, comp_cfg
from .memnet import wire_copy

import radical.utils       as ru
import radical.pilot       as rp
import radical.pilot.agent as rpa

from radical.pilot.agent.executing          import base  as x_base
from radical.pilot.agent.executing          import popen as x_popen
from radical.pilot.agent.launch_method.base import LaunchMethod


BASE_VAR   = 'C10_BASE'           # exported by the launcher environment
BASE_VALUE = 'base value'
RUN_TIMEOUT = 20.0                # s; a script that does not end is a verdict


# ------------------------------------------------------------------------------
class _RecThread(object):
    """mt.Thread stand-in: records, never runs"""
    def __init__(self, target=None, args=(), kwargs=None, **kw):
        self.target = target
        self.daemon = False

    def start(self):
        pass

    def is_alive(self):
        return True

    def join(self, *a):
        pass


class _MT(object):
    Thread = _RecThread

    def __getattr__(self, name):
        return getattr(threading, name)


class FakeRM(object):
    """holds the real launch methods; lookup is the real RM code"""
    find_launcher = rpa.ResourceManager.find_launcher
    get_launcher  = rpa.ResourceManager.get_launcher

    def __init__(self, name, cfg, rcfg, log, prof):
        self._log  = log
        self._prof = prof
        lm_cfg = ru.Config(cfg={'reg_addr': cfg.reg_addr, 'pid': cfg.pid})
        self._launch_order = list(rcfg.launch_methods.order)
        self._launchers    = dict()
        for lm in self._launch_order:
            # real constructor: env/bs0_orig.env -> ru.env_prep -> env/lm_*.sh,
            # init_from_scratch (finds the fake mpirun, asks it for -V)
            self._launchers[lm] = LaunchMethod.create(lm, lm_cfg, None, log, prof)


FAKE_MPIRUN = r'''#!/bin/bash
# fake mpirun: "-np N", "-host LIST" then the command; every rank gets PMIX_RANK
if test "$1" = "-V"; then echo "@VERSION@"; exit 0; fi
np=1
while test $# -gt 0; do
    case "$1" in
        -np)   np=$2; shift 2;;
        -host) echo "$2" > c10.mpirun.hosts; shift 2;;
        -gpu)  shift;;
        -*)    echo "fake mpirun: unknown option $1" 1>&2; exit 99;;
        *)     break;;
    esac
done
pids=""
i=0
while test $i -lt $np; do
    PMIX_RANK=$i "$@" &
    pids="$pids $!"
    i=$((i+1))
done
ret=0
i=0
for p in $pids; do
    wait $p
    rc=$?
    echo $rc > c10.rank.$i.rc
    test $ret -eq 0 && ret=$rc
    i=$((i+1))
done
exit $ret
'''

FAKE_SLEEP = '#!/bin/bash\nexec /bin/sleep 0.02\n'

PROBE = r'''#!/bin/bash
D="${0%%/*}/dump"
r="${RP_RANK-none}"
echo $# > "$D/argc.$r"
printf '%%s\0' "$@" > "$D/argv.$r"
env -0 > "$D/env.$r"
/bin/pwd -P > "$D/cwd.$r"
echo "exe" >> "$D/trace.$r"
echo "$r exe" >> "$D/trace.all"
echo "OUT-$r"
echo "ERR-$r" 1>&2
case "$r" in
%s    *) exit 97;;
esac
'''


# ------------------------------------------------------------------------------
LAYOUTS = {
    # name: (sid, pid, resource, builder(root) -> (rsbox, ssbox, psbox))
    0: ('rp.session.c10.0000', 'pilot.0000', 'local.localhost'),
    1: ('rp.session.flat.0001', 'pilot.0001', 'local.localhost_test'),
    2: ('rp.session.link.0002', 'pilot.0002', 'local.localhost'),
}


PLATFORM_PRE_EXEC = ['export C10_PLATFORM_READY=yes']


class Engine(object):
    """one executor in one pilot sandbox; tasks run one after the other"""

    def __init__(self, layout):
        self.layout = layout
        self.owner  = os.getpid()
        self.root   = boot.fresh_dir('c10.')
        self.count  = 0

        sid, pid, resource = LAYOUTS[layout]
        self.sid, self.pid, self.resource = sid, pid, resource
        root = self.root
        if layout == 0:
            # the standard nesting: every sandbox variable gets rewritten
            rsbox = root + '/radical.pilot.sandbox'
            ssbox = rsbox + '/' + sid
            psbox = ssbox + '/' + pid
        elif layout == 1:
            # nothing nested: no rewriting at all
            rsbox = root + '/res'
            ssbox = root + '/ses/the_session'
            psbox = root + '/pil/the_pilot'
        else:
            # configured paths lead through a symlink; cwd is the real path
            os.makedirs(root + '/real')
            os.symlink(root + '/real', root + '/link')
            rsbox = root + '/link/radical.pilot.sandbox'
            ssbox = rsbox + '/' + sid
            psbox = ssbox + '/' + pid
        self.rsbox, self.ssbox, self.psbox = rsbox, ssbox, psbox

        os.makedirs(psbox + '/env')
        os.makedirs(psbox + '/fakebin')
        os.makedirs(root + '/tmp')
        os.makedirs(root + '/case/dump')
        os.makedirs(root + '/case/io')
        os.makedirs(root + '/elsewhere')
        # the MPI flavour the launch method detects differs per layout: Open MPI / IBM Spectrum MPI
        # (Open MPI based: the ranks get PMIX_RANK, too) / Open MPI
        version = {1: 'mpirun (IBM Spectrum MPI) 10.4.0.03rtm4'}.get(layout, 'mpirun (Open MPI) 4.1.0')
        for name, text in (('mpirun', FAKE_MPIRUN.replace('@VERSION@', version)), ('sleep', FAKE_SLEEP)):
            with open('%s/fakebin/%s' % (psbox, name), 'w') as f:
                f.write(text)
            os.chmod('%s/fakebin/%s' % (psbox, name), 0o755)
        os.symlink('/bin/true', psbox + '/prof')
        os.symlink('/bin/true', psbox + '/gtod')
        with open(psbox + '/env/bs0_orig.env', 'w') as f:
            f.write('export PATH="%s/fakebin:/usr/bin:/bin"\n' % psbox)
            f.write('export HOME="%s"\n' % root)
            f.write('export LANG="C.UTF-8"\n')
            f.write('export %s="%s"\n' % (BASE_VAR, BASE_VALUE))

        sess = HollowSession(uid=sid, module='agent', ns='c10.%d.%d' % (layout, self.owner),
                             sandbox=root)
        sess._cfg.pid              = pid
        sess._cfg.resource         = resource
        sess._cfg.resource_sandbox = rsbox
        sess._cfg.session_sandbox  = ssbox
        sess._cfg.pilot_sandbox    = psbox
        sess._rcfg = ru.Config(cfg={
            # what a platform config prescribes for every task (as ornl / access configs do)
            'task_pre_exec'       : list(PLATFORM_PRE_EXEC),
            'resource_manager'    : 'FORK',
            'agent_spawner'       : 'POPEN',
            'new_session_per_task': True,
            'launch_methods'      : {'order': ['FORK', 'MPIRUN'],
                                     'FORK': {}, 'MPIRUN': {}}})
        self.session = sess

        cfg = comp_cfg(sess, 'agent_executing.%04d' % layout,
                       kind='agent_executing', pid=pid)

        # the agent (and with it every component) runs in the pilot sandbox
        saved = (os.getcwd(), os.environ.get('TMPDIR'), x_base.mt, x_popen.mt,
                 rpa.ResourceManager.create)
        try:
            os.chdir(psbox)
            os.environ['TMPDIR'] = root + '/tmp'
            x_base.mt  = _MT()
            x_popen.mt = _MT()
            rpa.ResourceManager.create = staticmethod(
                lambda name, cfg, rcfg, log, prof: FakeRM(name, cfg, rcfg, log, prof))
            self.ex = rpa.Executing.create(cfg, sess)
            self.ex._initialize()           # real: base + Popen.initialize()
        finally:
            os.chdir(saved[0])
            if saved[1] is None: os.environ.pop('TMPDIR', None)
            else               : os.environ['TMPDIR'] = saved[1]
            x_base.mt, x_popen.mt = saved[2], saved[3]
            rpa.ResourceManager.create = saved[4]

        assert type(self.ex).__name__ == 'Popen', type(self.ex)
        self.real_psbox = os.path.realpath(psbox)

    # --------------------------------------------------------------------------
    def new_case_dir(self):
        """one case at a time: the directories are re-used, their files are
        removed after every case (cleanup)"""
        self.count += 1
        return self.root + '/case'

    def write_probe(self, cdir, exit_codes):
        arms = ''.join('    %d) exit %d;;\n' % (r, c) for r, c in enumerate(exit_codes))
        path = cdir + '/probe'
        with open(path, 'w') as f:
            f.write(PROBE % arms)
        os.chmod(path, 0o755)
        return path

    def set_control_addresses(self, pub, sub):
        self.session._reg['bridges.control_pubsub'] = {'addr_pub': pub,
                                                        'addr_sub': sub}

    # --------------------------------------------------------------------------
    def reset_platform(self):
        """every case starts from the configured platform settings (a fresh list object), so
        that what a case observes only depends on the tasks of that case"""
        self.session._rcfg['task_pre_exec'] = list(PLATFORM_PRE_EXEC)

    def run_predecessor(self, k, kind):
        """an earlier task of the same executor: trivial executable, own pre_exec"""
        pre = {'export': ['export C10_PREV_%d=leak' % k],
               'fail'  : ['false'],
               'rank'  : [{'0': 'export C10_PREV_R%d=leak' % k}]}[kind]
        td = {'executable': '/bin/true', 'arguments': [], 'ranks': 1, 'cores_per_rank': 1,
              'pre_exec': pre}
        slots = [{'cores': [{'index': 0, 'occupation': 1.0}], 'gpus': [], 'lfs': 0, 'mem': 0,
                  'node_index': 0, 'node_name': 'localhost', 'version': 1}]
        obs = self.run_task(td, slots, 'default', uid='task.9%05d' % k)
        shutil.rmtree(obs['sbox'], ignore_errors=True)
        return obs

    def run_task(self, td_dict, slots, sandbox_kind, uid=None):
        """td_dict -> real TaskDescription -> verified -> wire copy -> real
        Popen._handle_task (scripts + real launch).  Returns observation dict."""
        uid = uid or 'task.%06d' % self.layout
        td  = rp.TaskDescription(dict(td_dict, uid=uid))
        td.verify()

        if sandbox_kind == 'abs':
            sbox = '%s/elsewhere/sbox.custom/' % self.root
        elif sandbox_kind == 'rel':
            sbox = '%s/custom.sbox/' % self.psbox
        else:
            sbox = '%s/%s/' % (self.psbox, uid)

        task = wire_copy({
            'uid'              : uid,
            'type'             : 'task',
            'name'             : td.name,
            'origin'           : 'client',
            'state'            : 'AGENT_EXECUTING',
            'pilot'            : self.pid,
            'description'      : td.as_dict(),
            'task_sandbox'     : 'file://localhost' + sbox,
            'task_sandbox_path': sbox,
            'pilot_sandbox'    : self.psbox,
            'session_sandbox'  : self.ssbox,
            'resource_sandbox' : self.rsbox,
            'slots'            : slots})

        obs = {'uid': uid, 'sbox': sbox.rstrip('/'), 'launcher': None,
               'rc': None, 'hang': False, 'error': None, 'task': task}
        ex = self.ex
        try:
            ex._tasks[uid] = task            # what work() does before _handle_task
            ex._handle_task(task)
        except Exception as e:               # noqa
            obs['error'] = e
            ex._tasks.pop(uid, None)
            return obs

        obs['launcher'] = task.get('launcher_name')
        proc = task['proc']

        # blocking wait (wait(timeout) polls with sleeps); a watchdog ends a
        # script which does not end on its own - that is then a verdict
        def _kill():
            obs['hang'] = True
            try:
                os.killpg(proc.pid, signal.SIGKILL)
            except OSError:
                pass
        dog = threading.Timer(RUN_TIMEOUT, _kill)
        dog.daemon = True
        dog.start()
        try:
            obs['rc'] = proc.wait()
        finally:
            dog.cancel()
            ex._tasks.pop(uid, None)
            while not ex._watch_queue.empty():
                ex._watch_queue.get_nowait()
            del x_popen._pids[:]
        if obs['hang']:
            obs['rc'] = None
            # ranks started by the fake mpirun live in the same session
            try:
                os.killpg(proc.pid, signal.SIGKILL)
            except OSError:
                pass
        return obs

    def run_task_flux(self, td_dict, slots, sandbox_kind, uid=None, ranks_per_node=2):
        """the Flux path: the executor's real exec script (rank id taken from the Flux launch
        method), run once per rank the way the Flux job shell runs it - `/bin/sh -c <exec script>`
        in the task sandbox with FLUX_TASK_RANK (rank in the job) and FLUX_TASK_LOCAL_ID (rank on
        its node; `ranks_per_node` ranks per node) - output collected in the task's stdout / stderr
        files, the per-rank exit codes noted like the stand-in mpirun does"""
        from radical.pilot.agent.launch_method.flux import Flux as FluxLM
        uid = uid or 'task.%06d' % self.layout
        td  = rp.TaskDescription(dict(td_dict, uid=uid))
        td.verify()
        if sandbox_kind == 'abs':
            sbox = '%s/elsewhere/sbox.custom/' % self.root
        elif sandbox_kind == 'rel':
            sbox = '%s/custom.sbox/' % self.psbox
        else:
            sbox = '%s/%s/' % (self.psbox, uid)
        task = wire_copy({
            'uid': uid, 'type': 'task', 'name': td.name, 'origin': 'client',
            'state': 'AGENT_EXECUTING', 'pilot': self.pid, 'description': td.as_dict(),
            'task_sandbox': 'file://localhost' + sbox, 'task_sandbox_path': sbox,
            'pilot_sandbox': self.psbox, 'session_sandbox': self.ssbox,
            'resource_sandbox': self.rsbox, 'slots': slots})
        obs = {'uid': uid, 'sbox': sbox.rstrip('/'), 'launcher': 'FLUX',
               'rc': None, 'hang': False, 'error': None, 'task': task}
        lm = FluxLM.__new__(FluxLM)
        lm.name = 'FLUX'
        lm._log = lm._prof = boot.LOG
        try:
            # what Flux._create_spec does before it builds the job spec
            d = task['description']
            out = d.get('stdout') or '%s/%s.out' % (sbox, uid)
            err = d.get('stderr') or '%s/%s.err' % (sbox, uid)
            _, exec_path = self.ex._create_exec_script(lm, task)
        except Exception as e:               # noqa
            obs['error'] = e
            return obs
        n = int(d['ranks'])
        out = out if out.startswith('/') else sbox + out
        err = err if err.startswith('/') else sbox + err
        env = {'PATH': '%s/fakebin:/usr/bin:/bin' % self.psbox, 'HOME': self.root, 'LANG': 'C.UTF-8',
               BASE_VAR: BASE_VALUE, 'RP_TASK_SANDBOX': sbox.rstrip('/'),
               'FLUX_JOB_SIZE': str(n), 'FLUX_JOB_NNODES': str(-(-n // ranks_per_node))}
        for k, v in (d.get('environment') or {}).items():
            env[k] = str(v)
        procs = []
        with open(out, 'ab') as fo, open(err, 'ab') as fe:
            for r in range(n):
                renv = dict(env, FLUX_TASK_RANK=str(r), FLUX_TASK_LOCAL_ID=str(r % ranks_per_node))
                procs.append(subprocess.Popen(['/bin/sh', '-c', exec_path], cwd=sbox, env=renv,
                                              stdout=fo, stderr=fe, start_new_session=True))
            rcs = []
            for r, p in enumerate(procs):
                try:
                    rc = p.wait(timeout=RUN_TIMEOUT)
                except subprocess.TimeoutExpired:
                    obs['hang'] = True
                    try:
                        os.killpg(p.pid, signal.SIGKILL)
                    except OSError:
                        pass
                    rc = None
                rcs.append(rc)
                with open('%sc10.rank.%d.rc' % (sbox, r), 'w') as f:
                    f.write('%s\n' % rc)
        obs['rc'] = None if obs['hang'] else next((rc for rc in rcs if rc), 0)
        return obs

    def cleanup(self, cdir, obs):
        dirs = [cdir, cdir + '/dump', cdir + '/io']
        if obs and obs.get('sbox'):
            dirs.append(obs['sbox'])
        for d in dirs:
            try:
                names = os.listdir(d)
            except OSError:
                continue
            for n in names:
                f = d + '/' + n
                try:
                    if os.path.isdir(f) and not os.path.islink(f):
                        if f not in dirs:
                            shutil.rmtree(f, ignore_errors=True)
                    else:
                        os.unlink(f)
                except OSError:
                    pass


_ENGINES = dict()


def engine(layout):
    layout = int(layout) % len(LAYOUTS)
    e = _ENGINES.get(layout)
    if e is None or e.owner != os.getpid():
        e = _ENGINES[layout] = Engine(layout)
    return e


# ------------------------------------------------------------------------------
def read_bytes(path):
    try:
        with open(path, 'rb') as f:
            return f.read()
    except OSError:
        return None


def read_text(path):
    b = read_bytes(path)
    return None if b is None else b.decode('utf-8', 'surrogateescape')


def read_rank(cdir, r):
    """what the probe dumped for rank r (None if it never ran)"""
    d = cdir + '/dump'
    argc = read_text('%s/argc.%s' % (d, r))
    out = {'ran': argc is not None, 'argv': None, 'env': None, 'cwd': None}
    tr = read_text('%s/trace.%s' % (d, r))
    out['trace'] = tr.split('\n')[:-1] if tr else []
    if argc is None:
        return out
    n    = int(argc.strip() or 0)
    argv = read_text('%s/argv.%s' % (d, r)) or ''
    out['argv'] = argv.split('\0')[:-1] if n else []
    if n != len(out['argv']):
        out['argv_count_mismatch'] = (n, len(out['argv']))
    env = dict()
    for item in (read_text('%s/env.%s' % (d, r)) or '').split('\0'):
        if '=' in item:
            k, v = item.split('=', 1)
            env[k] = v
    out['env'] = env
    out['cwd'] = (read_text('%s/cwd.%s' % (d, r)) or '').rstrip('\n')
    return out
