"""detsched: deterministic cooperative thread scheduler (DESIGN.md 3.4).

Controlled activities are real threads that only run while they hold the
baton; they hand it back at *yield points* which are supplied from outside
through the objects the code under test already calls (fake queues, events,
locks, process handles, the module-level `time`).  The harness (main thread)
decides who runs next, so a schedule is plain data and replays exactly.
"""
import queue
import threading
import collections

WAIT_S = 60.0      # harness-error guard only; never a verdict


class DetSchedError(Exception):
    pass


class _CThread(object):
    def __init__(self, name, fn):
        self.name  = name
        self.fn    = fn
        self.sem   = threading.Semaphore(0)
        self.done  = False
        self.exc   = None
        self.tag   = 'start'
        self.steps = 0
        self.thread = None


class Baton(object):

    def __init__(self):
        self.threads  = collections.OrderedDict()
        self._main    = threading.Semaphore(0)
        self._by_id   = {}
        self.closing  = False
        self.now      = 0.0          # virtual clock shared by fakes

    # -- controlled threads ---------------------------------------------------
    def spawn(self, name, fn):
        ct = _CThread(name, fn)

        def body():
            ct.sem.acquire()
            try:
                ct.fn()
            except BaseException as e:       # noqa
                ct.exc = e
            finally:
                ct.done = True
                self._main.release()

        t = threading.Thread(target=body, name='det.%s' % name, daemon=True)
        ct.thread = t
        self.threads[name] = ct
        t.start()
        self._by_id[t.ident] = ct
        return ct

    def current(self):
        return self._by_id.get(threading.get_ident())

    def resume(self, name):
        """let thread `name` run to its next yield point (or to its end);
        returns the tag of the yield point, or None when the thread is done"""
        ct = self.threads[name]
        if ct.done:
            return None
        ct.steps += 1
        ct.sem.release()
        if not self._main.acquire(timeout=WAIT_S):
            raise DetSchedError('thread %s did not yield within %ss (tag %s)'
                                % (name, WAIT_S, ct.tag))
        return None if ct.done else ct.tag

    def yield_point(self, tag):
        """called by fakes; a no-op on non-controlled threads"""
        ct = self.current()
        if ct is None:
            return
        if self.closing:
            return
        ct.tag = tag
        self._main.release()
        ct.sem.acquire()

    def runnable(self):
        return [n for n, ct in self.threads.items() if not ct.done]

    def finish_all(self, limit=100000):
        """run every controlled thread to completion without further yields"""
        self.closing = True
        for name, ct in self.threads.items():
            n = 0
            while not ct.done:
                ct.sem.release()
                if not self._main.acquire(timeout=WAIT_S):
                    raise DetSchedError('thread %s cannot be finished' % name)
                n += 1
                if n > limit:
                    raise DetSchedError('thread %s does not end' % name)
            ct.thread.join(timeout=WAIT_S)
            if ct.thread.is_alive():
                raise DetSchedError('thread %s cannot be joined' % name)


# ------------------------------------------------------------------------------
# fakes carrying yield points
#
class FakeQueue(object):
    """mp.Queue / queue.Queue stand-in; `get` yields before looking"""
    def __init__(self, baton, name='q'):
        self.baton = baton
        self.name  = name
        self.items = collections.deque()

    def put(self, item, *a, **k):
        self.items.append(item)

    def put_nowait(self, item):
        self.items.append(item)

    def get(self, block=True, timeout=None):
        self.baton.yield_point('get:%s' % self.name)
        if self.items:
            return self.items.popleft()
        raise queue.Empty()

    def get_nowait(self):
        return self.get()

    def empty(self):
        return not self.items

    def qsize(self):
        return len(self.items)

    def close(self):
        pass

    def cancel_join_thread(self):
        pass


class FakeEvent(object):
    def __init__(self, baton=None):
        self.baton = baton
        self.flag  = False

    def is_set(self):
        return self.flag

    def set(self):
        self.flag = True

    def clear(self):
        self.flag = False

    def wait(self, timeout=None):
        if self.baton:
            self.baton.yield_point('evt_wait')
        return self.flag


class FakeProcess(object):
    """mp.Process that is never started (the harness runs the target itself)"""
    def __init__(self, target=None, args=(), kwargs=None, **kw):
        self.target = target
        self.args   = args
        self.kwargs = kwargs or {}
        self.daemon = False
        self.pid    = 0
        self.started = False

    def start(self):
        self.started = True

    def terminate(self):
        pass

    def kill(self):
        pass

    def join(self, timeout=None):
        pass

    def is_alive(self):
        return self.started


class FakeTime(object):
    """module-level `time` replacement: virtual clock, sleep = yield point"""
    def __init__(self, baton):
        self.baton = baton

    def time(self):
        return self.baton.now

    def sleep(self, dt):
        self.baton.now += float(dt)
        self.baton.yield_point('sleep')

    def __getattr__(self, name):
        import time as _t
        return getattr(_t, name)
