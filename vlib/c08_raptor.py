"""C08, raptor backlog part: tasks addressed to a raptor master wait in the agent scheduler until that
master registers its queue.  A cancel request which names some of them cancels exactly those; the
others stay where they are and are relayed to their master exactly once when it registers.

Real `AgentSchedulingComponent._schedule_incoming` / `control_cb` / `advance` of a hollow Continuous
scheduler (no zmq: `ru.zmq.Putter` is a recorder for the time of the case), against a model of the
backlog.
"""
import queue
import threading as mt
from collections import defaultdict

from hypothesis import strategies as st

from . import boot                                    # noqa: F401
from .runner import CaseResult, exc_sig

import radical.utils           as ru
import radical.pilot.states    as rps
import radical.pilot.constants as rpc

from radical.pilot.agent.scheduler.continuous import Continuous

MASTERS = ['master.0000', 'master.0001', 'master.0002']


class _Quiet(object):
    def __getattr__(self, name):
        return lambda *a, **k: None


class _Pub(object):
    def __init__(self):
        self.msgs = []

    def put(self, topic, msg):
        self.msgs.append(msg)


class _Term(object):
    def is_set(self):
        return False


@st.composite
def cases(draw):
    ops, n = [], 0
    for _ in range(draw(st.integers(2, 8))):
        k = draw(st.sampled_from(['submit', 'submit', 'submit', 'cancel', 'cancel', 'register']))
        if k == 'submit':
            grp = []
            for _ in range(draw(st.integers(1, 5))):
                grp.append(draw(st.sampled_from([0, 0, 0, 1, 1, 2])))
                n += 1
            ops.append(['submit', grp])
        elif k == 'cancel' and n:
            how = draw(st.sampled_from(['some', 'some', 'half_of_master', 'all', 'unknown']))
            if how == 'some':
                sel = draw(st.lists(st.integers(0, n - 1), min_size=1, max_size=4, unique=True))
            elif how == 'all':
                sel = list(range(n))
            elif how == 'unknown':
                sel = [n + 5, draw(st.integers(0, n - 1))]
            else:
                sel = ['half', draw(st.integers(0, 2)), draw(st.booleans())]
            ops.append(['cancel', sel])
        elif k == 'register':
            ops.append(['register', draw(st.integers(0, 2))])
    return {'kind': 'raptor_backlog', 'ops': ops}


def normalise(case):
    ops = []
    for op in case.get('ops', []):
        if not isinstance(op, list) or len(op) != 2:
            continue
        if op[0] == 'submit' and isinstance(op[1], list) and op[1]:
            ops.append(['submit', [int(m) % 3 for m in op[1]][:8]])
        elif op[0] == 'cancel' and isinstance(op[1], list) and op[1]:
            ops.append(op)
        elif op[0] == 'register':
            ops.append(['register', int(op[1]) % 3])
    return {'kind': 'raptor_backlog', 'ops': ops} if ops else None


def _scheduler():
    s = Continuous.__new__(Continuous)
    s._uid               = 'agent_scheduling.0000'
    s._log               = _Quiet()
    s._prof              = _Quiet()
    s._term              = _Term()
    s._scheduler_process = True
    s._waitpool          = defaultdict(dict)
    s._ts_map            = defaultdict(set)
    s._ts_valid          = False
    s._active_cnt        = 0
    s._named_envs        = list()
    s._queue_sched       = queue.Queue()
    s._queue_unsched     = queue.Queue()
    s._raptor_queues     = dict()
    s._raptor_tasks      = dict()
    s._raptor_lock       = mt.Lock()
    s._state_pub         = _Pub()
    s._publishers        = {rpc.STATE_PUBSUB: s._state_pub}
    s._outputs           = dict()
    s._cancel_list       = list()
    s._cancel_lock       = mt.RLock()
    return s


def run_case(case):
    res = CaseResult()
    relayed = defaultdict(list)                       # master -> uids put on its queue

    class Putter(object):
        def __init__(self, queue, addr):              # noqa
            self.name = queue

        def put(self, tasks, qname=None):
            relayed[self.name] += [t['uid'] for t in ru.as_list(tasks)]

    old = ru.zmq.Putter
    ru.zmq.Putter = Putter
    try:
        s = _scheduler()
        model_backlog = defaultdict(list)             # master -> uids waiting for it
        registered, owner, named_waiting, all_named = set(), {}, set(), set()
        n = 0
        halves = 0

        def deliver(msg, what):
            try:
                s.control_cb(rpc.CONTROL_PUBSUB, msg)
                s._schedule_incoming()
            except Exception as e:                    # noqa
                res.fail(exc_sig('raptor_backlog:%s_raised' % what, e), repr(e))

        for op in list(case['ops']) + [['register', m] for m in range(3)]:
            if op[0] == 'submit':
                tasks = []
                for m in op[1]:
                    uid = 'task.%06d' % n
                    n += 1
                    owner[uid] = MASTERS[m]
                    tasks.append({'uid': uid, 'type': 'task', 'state': rps.AGENT_SCHEDULING,
                                  'origin': 'client',
                                  'description': {'uid': uid, 'mode': 'task.function',
                                                  'raptor_id': MASTERS[m], 'ranks': 1,
                                                  'cores_per_rank': 1, 'gpus_per_rank': 0,
                                                  'priority': 0}})
                    if MASTERS[m] not in registered:
                        model_backlog[MASTERS[m]].append(uid)
                try:
                    s._queue_sched.put((tasks, s._SCHEDULE))
                    s._schedule_incoming()
                except Exception as e:                # noqa
                    res.fail(exc_sig('raptor_backlog:intake_raised', e), repr(e))
            elif op[0] == 'cancel':
                sel = op[1]
                if sel and sel[0] == 'half':
                    # exactly half of what waits for one master (first or second half)
                    wl = model_backlog[MASTERS[int(sel[1]) % 3]]
                    if len(wl) < 2:
                        continue
                    h = len(wl) // 2
                    uids = wl[:h] if sel[2] else wl[-h:]
                    halves += 1
                else:
                    uids = ['task.%06d' % int(i) for i in sel if isinstance(i, int)]
                if not uids:
                    continue
                all_named.update(uids)
                for m in MASTERS:
                    for u in list(model_backlog[m]):
                        if u in uids:
                            model_backlog[m].remove(u)
                            named_waiting.add(u)
                deliver({'cmd': 'cancel_tasks', 'arg': {'uids': list(uids)}}, 'cancel')
            elif op[0] == 'register':
                m = MASTERS[int(op[1]) % 3]
                if m in registered:
                    continue
                registered.add(m)
                model_backlog[m] = []
                deliver({'cmd': 'register_raptor_queue',
                         'arg': {'name': m, 'queue': m, 'addr': 'fake://%s' % m}}, 'register')

        canceled = [t['uid'] for msg in s._state_pub.msgs if msg.get('cmd') == 'update'
                    for t in ru.as_list(msg['arg']) if t['state'] == rps.CANCELED]
        for uid, m in owner.items():
            n_rel = relayed[m].count(uid)
            n_any = sum(v.count(uid) for v in relayed.values())
            n_can = canceled.count(uid)
            if uid in named_waiting:
                if n_can != 1:
                    res.fail('raptor_backlog:named_task_canceled_%s' % ('never' if not n_can else 'twice'),
                             '%s (waiting for %s) was reported CANCELED %d times' % (uid, m, n_can))
                if n_any:
                    res.fail('raptor_backlog:named_task_still_relayed', '%s -> %s' % (uid, m))
            else:
                if n_can:
                    res.fail('raptor_backlog:unnamed_task_canceled', uid)
                if n_any != 1 or n_rel != 1:
                    res.fail('raptor_backlog:bystander_relayed_%s'
                             % ('never' if not n_any else 'twice' if n_rel == n_any else 'to_other_master'),
                             '%s (for %s, %s) was relayed %d times to its master, %d times overall'
                             % (uid, m, 'named after it was relayed' if uid in all_named else
                                'not named', n_rel, n_any))
        left = {m: [t['uid'] for t in ts] for m, ts in s._raptor_tasks.items() if ts}
        if left:
            res.fail('raptor_backlog:left_behind', str(left))

        bystanders = [u for u in owner if u not in all_named]
        res.nontrivial = bool(named_waiting) and bool(bystanders)
        res.label('raptor_backlog')
        if halves:
            res.label('raptor_backlog:half_of_a_backlog_named')
        if named_waiting:
            res.label('raptor_backlog:waiting_task_named')
        res.key = case['ops']
    finally:
        ru.zmq.Putter = old
    return res
