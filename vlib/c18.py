"""C18 - The pilot offers exactly the nodes it was allocated.  (DESIGN.md 4/C18)

Drive : real ResourceManager.create -> __init__ -> _init_from_scratch ->
        <RM>.init_from_scratch -> _filter_nodes for Fork, Debug, Slurm, Torque,
        CCM, LSF, Cobalt (node file and partname), PBSPro (exec_vnode and node
        file paths) on a generated batch environment (node files, environment
        variables, qstat / ssh answers, agent layout), in-memory registry; then
        a second instance through the same factory call, which now initialises
        from the registry (what scheduler / executor components do).
Oracle: reference model in c18_model.expect(): which hosts are usable, how
        large a node is, how many nodes are offered / reserved, or that no
        acceptable list exists and an exception is the only acceptable answer.
        Clauses (signature prefixes): unknown_host, pseudo_node_offered,
        duplicate_host, inaccessible_node_used, offered_count, empty_list,
        longer_than_requested, index_not_unique, reserved_node_offered,
        agent_nodes_count, service_nodes_count, node_cores / blocked_cores_marks,
        node_gpus / blocked_gpus_marks, node_lfs, node_mem, info_cores_per_node,
        info_gpus_per_node, requested_nodes, registry_view_differs:<key>,
        registry_instance_raised, registry_changed_by_reader,
        unexpected_exception, no_exception.
        Signature = clause : RM/code path [: input class] where the input class
        is one of mixed_width (Slurm bracket with numbers of different printed
        width), slots!=configured (Torque/CCM node file whose lines per host
        differ from the configured cores per node), nodefile_smt>1 (PBSPro node
        file path with SMT > 1).
Files : c18_model.py (case format, reference model, node file / qstat / host
        list rendering), c18_env.py (environment construction, fakes, drive),
        c18_fuzz.py (optional atheris target, thorough tier).
"""
import os
import sys
import json
import subprocess
import multiprocessing

from hypothesis import strategies as st

from . import boot                                    # noqa: F401
from . import runner
from .runner import CaseResult, Part, exc_sig
from . import c18_model as M
from . import c18_env   as H

import radical.pilot.constants as rpc

PID  = 'C18'
RULE = ('cases = one generated allocation (1-8 hosts in 1-2 name groups with ranges / zero padding; '
        'node file with one line per slot, per usable slot or per node, in blocks, interleaved or '
        'split; LSF login/batch/unmarked pseudo hosts; Slurm host list expression; Cobalt partname; '
        'PBSPro qstat -f text with wrapped multi-chunk exec_vnode or fall-back to the node file; CCM '
        'with an older decoy node list) x resource config (cores/gpus per node configured or '
        'detected, SMT 1/2/4, blocked cores/gpus, lfs, mem) x request (nodes or cores, 0-2 backup '
        'nodes with ssh probe outcomes) x agent layout (0-2 node-target sub-agents, local '
        'sub-agents, services file) x 1 of 8 resource managers, plus ~15% inconsistent inputs; '
        'non-trivial = consistent input with >=2 usable hosts, a repeated-host node file / a range '
        'expression / >=2 vnode chunks / repeated localhost, and at least one of: agent or service '
        'nodes, backup nodes, blocked cores or gpus, pseudo hosts, more hosts than requested; '
        'distinct = the case without host name prefixes')
ASSUMPTIONS = [
    'ResourceManager._prepare_launch_methods replaced by a no-op (launch methods are not the subject)',
    'ru.zmq.RegistryClient = in-memory registry with msgpack round trip (memnet)',
    'rc.process.Process (ssh probe), ru.sh_callout (qstat -f) and multiprocessing.cpu_count (Fork) '
    'answered from the case; os.environ / cwd / $HOME set per case and restored',
    'agent config shaped as PMGRLaunchingComponent._prepare_pilot writes it: cores_per_node already '
    'multiplied by SMT, $RADICAL_SMT exported',
    'reference expansion of Slurm host list expressions written from the Slurm hostlist format '
    '(no padding unless the range bounds carry leading zeros)',
    'RMInfo class defaults (shared mutable lists, appended to in place by _filter_nodes) are reset '
    'before every case: a case stands for one fresh agent process',
    'thorough tier: vlib/c18_fuzz.py (atheris, 20000 executions, one shard) explores node file line '
    'orders / exec_vnode chunkings through the same harness and oracle; its findings are replayed '
    'as ordinary cases (coverage.atheris holds its statistics)',
    'radical.utils.get_version shim (src/radical/pilot/VERSION absent in this tree)']
NOT_REACHED = [
    'Yarn resource manager (needs a live Hadoop name node)',
    'which of the allocated hosts become agent / service nodes is not demanded',
    'blank lines / white space inside node files (no batch system writes them)',
    'content of RMInfo.backup_list is not demanded (the statement is about the offered list); the '
    'label note:backup_list_empty_despite_surplus counts the cases where accessible surplus nodes '
    'exist and backup_list is empty',
    'the ssh probe itself, qstat, and the launch methods prepared on top of the node list']
BUDGET = {'quick': 90, 'thorough': 1500}

PREFIXES = ['n', 'nid', 'node-b1-', 'c', 'frontier', 'x3006c0s13b', 'r1i0n',
            'lassen', 'h41n', 'gpu-', 'cn-', 'a']
SUFFIXES = ['', '', '', '', 'n0', '-ib']


# ------------------------------------------------------------------------------
@st.composite
def cases(draw):                                                   # noqa: C901
    rm   = draw(st.sampled_from(['SLURM', 'SLURM', 'TORQUE', 'TORQUE', 'CCM', 'LSF',
                                 'LSF', 'COBALT', 'PBSPRO', 'PBSPRO', 'PBSPRO',
                                 'FORK', 'DEBUG']))
    mode = draw(st.sampled_from(M.MODES[rm]))
    fault = draw(st.sampled_from([None] * 32 + [
        'req_gt_alloc', 'nonuniform', 'cpn_mismatch', 'drop_env', 'reserve_all',
        'all_probes_fail', 'blocked_oob', 'unconfigured']))

    # --- hosts
    n_hosts = draw(st.sampled_from([1, 2, 2, 3, 3, 4, 4, 5, 6, 8]))
    n_groups = 1 if n_hosts < 3 else draw(st.sampled_from([1, 1, 2]))
    pres = draw(st.lists(st.sampled_from(PREFIXES), min_size=n_groups,
                         max_size=n_groups, unique=True))
    groups, left = [], n_hosts
    for gi in range(n_groups):
        cnt = left if gi == n_groups - 1 else draw(st.integers(1, left - 1))
        left -= cnt
        ids, cur = [], draw(st.sampled_from([0, 1, 3, 7, 8, 9, 42, 97, 98, 120, 998]))
        for _ in range(cnt):
            ids.append(cur)
            cur += draw(st.sampled_from([1, 1, 1, 1, 2, 5]))
        digits = len(str(ids[-1]))
        w = draw(st.sampled_from([0, 0, digits, digits, digits + 1, 5]))
        if w and w < digits:
            w = digits
        groups.append({'pre': pres[gi], 'suf': draw(st.sampled_from(SUFFIXES)),
                       'w': w, 'ids': ids})

    # --- node size
    smt  = draw(st.sampled_from([1, 1, 1, 2, 4]))
    phys = draw(st.sampled_from([2, 3, 4, 6, 8, 16]))
    must_cfg = rm in ('COBALT', 'DEBUG') or (rm == 'PBSPRO' and mode != 'vnode')
    configured = True if must_cfg else draw(st.sampled_from([True, True, False]))
    if fault == 'unconfigured' and must_cfg:
        configured = False
    cpn  = phys if configured else 0
    E    = phys * smt                   # hardware threads of a node = len(node['cores'])
    gpn  = draw(st.sampled_from([0, 0, 1, 2, 4, 8]))
    gpu_env, gpu_hw = '', 0
    if rm == 'SLURM' and draw(st.booleans()):
        gpu_env = draw(st.sampled_from(['SLURM_GPUS_ON_NODE', 'SLURM_JOB_GPUS',
                                        'SLURM_STEP_GPUS', 'GPU_DEVICE_ORDINAL']))
        gpu_hw  = gpn or draw(st.sampled_from([1, 2, 4]))
        if draw(st.booleans()):
            gpn = 0                     # detected only
    G = gpn or gpu_hw

    blocked_cores, blocked_gpus = [], []
    if configured and draw(st.sampled_from([False, False, True])):
        blocked_cores = sorted(draw(st.sets(st.integers(0, E - 1), min_size=1,
                                            max_size=max(1, min(4, E - 1)))))
        if len(blocked_cores) >= E:
            blocked_cores = blocked_cores[:E - 1]
    if G and draw(st.sampled_from([False, False, True])):
        blocked_gpus = sorted(draw(st.sets(st.integers(0, G - 1), min_size=1,
                                           max_size=max(1, G - 1))))
    if fault == 'blocked_oob':
        if draw(st.booleans()) or not G:
            blocked_cores = blocked_cores + [E + draw(st.integers(0, 2))]
        else:
            blocked_gpus = blocked_gpus + [G + draw(st.integers(0, 2))]
    avail   = max(1, E - len(set(blocked_cores)))
    avail_g = max(0, G - len(set(blocked_gpus)))

    # hw: what the batch system reports
    if rm == 'LSF':
        hw = phys                       # one host file line per physical core
    else:
        hw = E
    if rm == 'FORK':
        hw = draw(st.sampled_from([E, E, E * 2, max(1, E // 2)]))
        if not configured:
            E = hw
            avail = E

    # --- request
    backup = 0
    if configured and n_hosts >= 2 and rm != 'DEBUG' and draw(st.sampled_from([False, True])):
        backup = draw(st.integers(1, min(2, n_hosts - 1)))
    if backup or draw(st.sampled_from([True, True, False])):
        want = n_hosts - backup                 # the allocation is nodes + backup
    else:
        want = draw(st.integers(1, n_hosts))    # fewer nodes requested than allocated
    n_alloc = want if rm == 'DEBUG' else n_hosts

    # ssh probes (only run when backup nodes were requested)
    probe = ['ok']
    if backup:
        probe  = ['ok'] * n_alloc
        n_fail = draw(st.integers(0, min(backup + 1, n_alloc - 1)))
        for k in draw(st.lists(st.integers(0, n_alloc - 1), min_size=n_fail,
                               max_size=n_fail, unique=True)):
            probe[k] = draw(st.sampled_from(['fail', 'timeout', 'hang']))
        if fault == 'all_probes_fail':
            probe = [draw(st.sampled_from(['fail', 'timeout', 'hang']))]
    kept = min(probe.count('ok') if backup else n_alloc, want)

    # agent layout: leave at least one node for tasks (unless the fault says otherwise)
    agents   = draw(st.lists(st.sampled_from(['node', 'node', 'local']), max_size=3))
    services = draw(st.sampled_from([False, False, True]))
    while agents.count('node') > 2:
        agents.remove('node')
    if fault == 'reserve_all':
        while agents.count('node') + (1 if services else 0) < kept:
            if agents.count('node') < 2:
                agents.append('node')
            elif not services:
                services = True
            else:
                break
    else:
        while agents.count('node') + (1 if services else 0) >= kept:
            if services:
                services = False
            elif 'node' in agents:
                agents.remove('node')
            else:
                break

    if configured:
        nodes = want
        cores = (nodes + backup) * avail
        gpus  = (nodes + backup) * avail_g
    else:
        nodes = 0
        cores = max(1, want * avail - draw(st.integers(0, avail - 1)))
        gpus  = draw(st.integers(0, want * avail_g)) if avail_g else 0
    if fault == 'req_gt_alloc':
        if configured:
            nodes = n_hosts + draw(st.integers(1, 2))
            cores = nodes * avail
        else:
            cores = n_hosts * avail + draw(st.integers(1, avail))

    # --- node file
    pseudo, lines, decoy, chunks = [], [], [], []
    per_host = 1
    if rm in M.FILE_RMS:
        if rm == 'LSF':
            per_host = phys
        elif not configured:
            per_host = hw
        else:
            per_host = draw(st.sampled_from([E, E, 1, avail]))
        order = draw(st.sampled_from(['block', 'block', 'interleaved', 'split']))
        if order == 'block' or per_host < 2:
            lines = [h for h in range(n_hosts) for _ in range(per_host)]
        elif order == 'interleaved':
            lines = [h for _ in range(per_host) for h in range(n_hosts)]
        else:
            a = per_host // 2
            lines = ([h for h in range(n_hosts) for _ in range(a)] +
                     [h for h in range(n_hosts) for _ in range(per_host - a)])
        if fault == 'nonuniform' and len(lines) > 1 and n_hosts > 1:
            lines = lines[:-1] if per_host > 1 else lines + [0]
        if rm == 'LSF':
            pseudo = draw(st.lists(st.sampled_from(['batch1', 'login1', 'batch13', 'login3',
                                                    'lassen7777', 'h41n7777']),
                                   max_size=3, unique=True))
            head = draw(st.booleans())
            for k in range(len(pseudo)):
                if head:
                    lines.insert(0, -k - 1)
                else:
                    lines.insert(draw(st.integers(0, len(lines))), -k - 1)
    if rm == 'CCM' and draw(st.booleans()):
        decoy = [draw(st.integers(0, n_hosts + 2)) for _ in range(draw(st.integers(1, 6)))]
    wrap, key = 0, 'ncpus'
    if rm == 'PBSPRO':
        wrap = draw(st.sampled_from([0, 0, 40, 60, 79]))
        key  = draw(st.sampled_from(['ncpus', 'ncpus', 'cpu']))
        hs, cur = list(range(n_hosts)), []
        if draw(st.booleans()):
            hs = hs[::-1]
        for h in hs:
            cur.append(h)
            if draw(st.sampled_from([True, True, False])):
                chunks.append(cur)
                cur = []
        if cur:
            chunks.append(cur)
        if draw(st.integers(0, 2)) == 0:
            # several select-chunks packed onto one host: the vnode is named again (its own
            # chunk, or inside another host's chunk)
            for _ in range(draw(st.integers(1, 2))):
                h = draw(st.sampled_from(hs))
                if draw(st.booleans()) or not chunks:
                    chunks.insert(draw(st.integers(0, len(chunks))), [h])
                else:
                    chunks[draw(st.integers(0, len(chunks) - 1))].append(h)

    case = {
        'rm': rm, 'mode': mode, 'groups': groups, 'pseudo': pseudo, 'lines': lines,
        'decoy': decoy, 'chunks': chunks, 'wrap': wrap, 'ncpus_key': key,
        'cpn': cpn, 'smt': smt,
        'smt_cfg': draw(st.sampled_from(['same', 'same', 'none', 'other'])),
        'hw': hw, 'cpus_env': True, 'gpn': gpn, 'gpu_env': gpu_env, 'gpu_hw': gpu_hw,
        'lfs': draw(st.sampled_from([0, 0, 1024, 100000])),
        'mem': draw(st.sampled_from([0, 0, 4096, 256000])),
        'blocked_cores': blocked_cores, 'blocked_gpus': blocked_gpus,
        'nodes': nodes, 'cores': cores, 'gpus': gpus, 'backup': backup,
        'probe': probe, 'agents': agents, 'services': services,
        'fake': draw(st.sampled_from([True, True, False])) if rm == 'FORK' else False,
        'drop_env': fault == 'drop_env', 'no_nodefile': False,
    }
    if rm == 'PBSPRO' and mode == 'vnode' and configured and not fault and draw(st.integers(0, 3)) == 0:
        # the chunks report another core count than the platform configuration (a partial node,
        # hardware threads counted): which one wins is open, the result must be consistent
        case['hw'] = draw(st.sampled_from([max(1, E // 2), E * 2, E + 1]))
    if rm == 'LSF' and fault == 'cpn_mismatch' and configured:
        case['cpn'] = phys + 1
        case['cores'] = (nodes + backup) * max(1, (phys + 1) * smt - len(blocked_cores))
    if rm == 'SLURM' and fault == 'unconfigured' and not configured:
        case['cpus_env'] = False
    if rm == 'PBSPRO' and fault == 'drop_env' and mode != 'vnode':
        case['drop_env'], case['no_nodefile'] = False, True
    return case


# ------------------------------------------------------------------------------
# optional atheris target (thorough tier): vlib/c18_fuzz.py run as a subprocess
# by exactly one shard; its findings come back as ordinary cases.
FUZZ_RUNS  = 20000
_FUZZ_OUT  = os.path.join(runner.OUT_DIR, 'C18-atheris')
_fuzz_lock = []


def _fuzz_cases(tier):
    if tier != 'thorough' or os.environ.get('C18_NO_ATHERIS'):
        return
    in_pool = multiprocessing.current_process().name != 'MainProcess'
    owner   = os.getppid() if in_pool else os.getpid()
    os.makedirs(_FUZZ_OUT, exist_ok=True)
    lock = os.path.join(_FUZZ_OUT, 'lock.%d' % owner)
    try:
        os.close(os.open(lock, os.O_CREAT | os.O_EXCL | os.O_WRONLY))
    except FileExistsError:
        return                          # another shard of this run does it
    _fuzz_lock.append(lock)
    stats = os.path.join(_FUZZ_OUT, 'stats.json')
    work  = boot.fresh_dir('fuzz.')
    out   = os.path.join(work, 'out.json')
    note  = None
    try:
        seed = int(os.environ.get('VERIF_SEED', '1') or 1)
        p = subprocess.run([sys.executable, '-m', 'vlib.c18_fuzz', out,
                            str(FUZZ_RUNS), str(seed)],
                           cwd=runner.HERE, stdout=subprocess.DEVNULL,
                           stderr=subprocess.PIPE, text=True, timeout=900)
        if not os.path.exists(out):
            note = 'atheris target did not run: %s' % (p.stderr or '')[-300:]
    except Exception as e:              # noqa
        note = 'atheris target did not run: %r' % (e,)
    data = {'execs': 0, 'found': {}, 'note': note}
    if note is None:
        with open(out) as f:
            data = json.load(f)
    with open(stats, 'w') as f:
        json.dump({'owner': owner, 'execs': data.get('execs', 0), 'note': note,
                   'verdicts': data.get('verdicts', {}), 'rms': data.get('rms', {}),
                   'signatures': {k: v['count'] for k, v in data['found'].items()}},
                  f, sort_keys=True)
    # the runner deals enumerated cases round-robin to its shards: repeat each
    # finding so that this shard keeps exactly one copy
    copies = runner.N_SHARDS if in_pool else 1
    for sig in sorted(data['found']):
        for _ in range(copies):
            yield data['found'][sig]['case']


def evidence_extra(col):
    extra = {}
    stats = os.path.join(_FUZZ_OUT, 'stats.json')
    mine  = os.path.join(_FUZZ_OUT, 'lock.%d' % os.getpid())
    if os.path.exists(mine) and os.path.exists(stats):
        with open(stats) as f:
            st = json.load(f)
        if st.get('owner') == os.getpid():
            st.pop('owner')
            extra['atheris'] = dict(st, target='vlib/c18_fuzz.py: node file lines / exec_vnode '
                                    'chunking as bytes, same oracle; coverage from '
                                    'agent.resource_manager only')
    for l in [mine] + _fuzz_lock:
        try:
            os.unlink(l)
        except OSError:
            pass
    return extra


def parts(tier):
    return [Part('atheris_findings', enum=_fuzz_cases),
            Part('allocations', cases(), quick=2500, thorough=6000)]


# ------------------------------------------------------------------------------
def normalise(case):
    if not isinstance(case, dict) or case.get('rm') not in M.RMS:
        return None
    if not M.names_of(case):
        return None
    return case


def _rm_tag(case):
    # call-site part of the signatures: the code path through the RM
    rm, mode = case['rm'], case.get('mode') or '-'
    if rm == 'PBSPRO':
        return 'PBSPRO/vnode' if mode == 'vnode' else 'PBSPRO/nodefile'
    if rm == 'COBALT':
        return '%s/%s' % (rm, mode)
    return rm


def run_case(case):                                                # noqa: C901
    res = CaseResult()
    e   = M.expect(case)
    tag = _rm_tag(case)
    rm  = case['rm']
    smt = max(1, int(case.get('smt') or 1))
    res.label('rm=%s' % tag, 'expect=%s' % e.verdict)
    if rm == 'PBSPRO':
        res.label('pbspro_mode=%s' % case.get('mode'))
    for k in e.klass:
        res.label(k)

    # input class qualifier of the signatures (root-cause bucketing)
    iq = ''
    if rm == 'SLURM' and 'slurm_mixed_width' in e.klass:
        iq = ':mixed_width'
    elif rm in ('TORQUE', 'CCM') and case.get('cpn') and e.E:
        _, cnt = M.count_hosts(M.file_hosts(case))
        if set(cnt.values()) != {e.E}:
            iq = ':slots!=configured'
    elif rm == 'PBSPRO' and case.get('mode') != 'vnode' and smt > 1:
        iq = ':nodefile_smt>1'

    out = H.drive(case, e)

    res.key = dict(case, groups=[{'ids': g.get('ids'), 'w': g.get('w')}
                                 for g in case.get('groups') or []])

    # ---- exceptions ---------------------------------------------------------
    if out.exc is not None:
        res.label('raised')
        if e.verdict == 'ok' and e.may_raise:
            res.label('raise:request exceeds allocation')
        elif e.verdict == 'ok':
            res.fail(exc_sig('unexpected_exception:%s%s' % (tag, iq), out.exc),
                     '%r on a consistent allocation' % (out.exc,))
        elif e.verdict == 'raise':
            res.label('raise:%s' % e.why.split(':')[0][:40])
        return res

    info = out.info
    if e.verdict == 'raise':
        res.fail('no_exception:%s%s:%s' % (tag, iq, e.why),
                 'inconsistent input (%s) accepted; node_list=%s'
                 % (e.why, [(n['name'], len(n['cores'])) for n in info['node_list']]))
        return res

    offered  = info['node_list']
    a_nodes  = info['agent_node_list']
    s_nodes  = info['service_node_list']
    everyone = list(offered) + list(a_nodes) + list(s_nodes)

    # ---- clauses which hold for every successful initialisation -------------
    if not offered:
        res.fail('empty_list:%s' % tag, 'no node offered and no exception')
    idx = [n['index'] for n in offered]
    if len(set(idx)) != len(idx):
        res.fail('index_not_unique:%s' % tag, 'indices %s' % idx)
    if len(offered) > info['requested_nodes']:
        res.fail('longer_than_requested:%s' % tag,
                 '%d offered, %d requested' % (len(offered), info['requested_nodes']))
    all_idx = [n['index'] for n in everyone]
    if len(set(all_idx)) != len(all_idx):
        res.fail('reserved_node_offered:%s' % tag,
                 'offered %s agent %s service %s' % (idx, [n['index'] for n in a_nodes],
                                                     [n['index'] for n in s_nodes]))

    # every component sees the same list
    if out.exc2 is not None:
        res.fail(exc_sig('registry_instance_raised:%s' % tag, out.exc2), repr(out.exc2))
    else:
        for k in sorted(info):
            if info[k] != out.info2.get(k):
                res.fail('registry_view_differs:%s' % k,
                         '%s: scratch %r registry %r' % (k, info[k], out.info2.get(k)))
        if out.reg_a != out.reg_b:
            res.fail('registry_changed_by_reader:%s' % tag, 'second instance rewrote rm.*')

    if e.verdict == 'either':
        res.label('either:%s' % e.why.split(':')[0][:40])
        if e.why.startswith('pbspro: ncpus differs') and not (case.get('blocked_cores') or []):
            # which of the two core counts wins is not demanded - but the nodes offered carry the
            # number of cores per node which the resource manager reports to every component
            cpn = info.get('cores_per_node')
            bad = [(n['name'], len(n['cores'])) for n in everyone if len(n['cores']) != cpn]
            if bad:
                res.fail('node_cores_vs_reported:%s' % tag,
                         'cores_per_node reported as %r, nodes offered with %s (configured %s, ncpus %s)'
                         % (cpn, bad[:4], case.get('cpn'), case.get('hw')))
            res.nontrivial = True
        return res

    # ---- model clauses ------------------------------------------------------
    bc = sorted(set(int(x) for x in case.get('blocked_cores') or []))
    bg = sorted(set(int(x) for x in case.get('blocked_gpus')  or []))

    q = iq if rm == 'SLURM' else ''
    unknown = False
    budget = {}
    for h in e.usable:
        budget[h] = budget.get(h, 0) + 1
    for n in everyone:
        name = n['name']
        if name in e.pseudo:
            res.fail('pseudo_node_offered:%s' % tag, '%s is a login/batch node' % name)
        elif name not in budget:
            unknown = True
            res.fail('unknown_host:%s%s' % (tag, q),
                     '%s is not in the allocation %s' % (name, sorted(budget)))
        else:
            budget[name] -= 1
            if budget[name] < 0:
                res.fail('duplicate_host:%s' % tag, '%s listed more often than allocated' % name)
        if name in e.bad:
            res.fail('inaccessible_node_used:%s' % tag, '%s failed the ssh probe' % name)

    if info['requested_nodes'] != e.requested:
        res.fail('requested_nodes:%s' % tag, 'reported %s, request means %s'
                 % (info['requested_nodes'], e.requested))
    if len(offered) != e.n_offered and not unknown:
        # (with unknown host names the ssh probe answers cannot be attributed)
        res.fail('offered_count:%s:%s' % (tag, 'short' if len(offered) < e.n_offered else 'long'),
                 '%d offered, expected %d (usable %d, requested %d, agent %d, service %d)'
                 % (len(offered), e.n_offered, len(e.usable), e.requested, e.n_agent, e.n_service))
    if len(a_nodes) != e.n_agent:
        res.fail('agent_nodes_count:%s' % tag, '%d reserved, %d node-target sub-agents'
                 % (len(a_nodes), e.n_agent))
    if len(s_nodes) != e.n_service:
        res.fail('service_nodes_count:%s' % tag, '%d reserved, %d needed' % (len(s_nodes), e.n_service))

    # node shape
    sq = iq if rm != 'SLURM' else ''
    want_c = [rpc.DOWN if i in bc else rpc.FREE for i in range(e.E)]
    want_g = [rpc.DOWN if i in bg else rpc.FREE for i in range(e.G)]
    for n in offered:
        if len(n['cores']) != e.E:
            res.fail('node_cores:%s%s' % (tag, sq), '%s has %d cores, node size is %d (reported '
                     'cores_per_node %s, %d blocked)' % (n['name'], len(n['cores']), e.E,
                                                          info['cores_per_node'], len(bc)))
        elif list(n['cores']) != want_c:
            res.fail('blocked_cores_marks:%s' % tag, '%s cores %s, blocked %s'
                     % (n['name'], n['cores'], bc))
        if len(n['gpus']) != e.G:
            res.fail('node_gpus:%s' % tag, '%s has %d gpus, expected %d'
                     % (n['name'], len(n['gpus']), e.G))
        elif list(n['gpus']) != want_g:
            res.fail('blocked_gpus_marks:%s' % tag, '%s gpus %s, blocked %s'
                     % (n['name'], n['gpus'], bg))
        if n['lfs'] != int(case.get('lfs') or 0):
            res.fail('node_lfs:%s' % tag, '%s lfs %s' % (n['name'], n['lfs']))
        if n['mem'] != int(case.get('mem') or 0):
            res.fail('node_mem:%s' % tag, '%s mem %s' % (n['name'], n['mem']))
    if info['cores_per_node'] != e.E - len(bc):
        res.fail('info_cores_per_node:%s%s' % (tag, sq), 'reported %s, usable cores per node %d'
                 % (info['cores_per_node'], e.E - len(bc)))
    if info['gpus_per_node'] != e.G - len(bg):
        res.fail('info_gpus_per_node:%s' % tag, 'reported %s, usable gpus per node %d'
                 % (info['gpus_per_node'], e.G - len(bg)))

    # ---- classification -----------------------------------------------------
    feats = []
    if e.n_agent:           feats.append('agent_nodes')
    if e.n_service:         feats.append('service_node')
    if case.get('backup'):  feats.append('backup')
    if bc or bg:            feats.append('blocked')
    if e.pseudo:            feats.append('pseudo')
    if len(e.usable) > e.requested: feats.append('surplus')
    if e.bad:               feats.append('probe_failed')
    if smt > 1:             feats.append('smt')
    repeated = False
    if rm in M.FILE_RMS and not (rm == 'PBSPRO' and case.get('mode') == 'vnode') \
            and not (rm == 'COBALT' and case.get('mode') == 'partname'):
        hosts = M.file_hosts(case)
        repeated = len(hosts) > len(set(hosts))
        if repeated:
            blocks = sum(1 for i in range(1, len(hosts)) if hosts[i] != hosts[i - 1]) + 1
            res.label('file=interleaved' if blocks > len(set(hosts)) else 'file=blocks')
        else:
            res.label('file=one_per_node')
    elif rm == 'SLURM':
        repeated = '[' in M.slurm_expr(case)[0]
    elif rm == 'COBALT':
        repeated = '-' in M.cobalt_expr(case)[0]
    elif rm == 'PBSPRO':
        repeated = len(case.get('chunks') or []) >= 2
    else:
        repeated = len(e.usable) >= 2
    for f in feats:
        res.label(f)
    if e.surplus and case.get('backup') and not info.get('backup_list'):
        res.label('note:backup_list_empty_despite_surplus')
    res.nontrivial = bool(len(e.usable) >= 2 and repeated and
                          set(feats) & {'agent_nodes', 'service_node', 'backup', 'blocked',
                                        'pseudo', 'surplus'})
    return res
