"""C12 - Each task is bound to exactly one eligible pilot.  (DESIGN.md 4/C12)

Drive : the real client-side scheduler components RoundRobin and Backfilling
        (real _initialize/initialize over a hollow Session and memnet), through
        the entry points the running component has: the registered input worker
        (`work`) for TMGR_SCHEDULING_PENDING bulks pushed by the real
        TaskManager.submit_tasks, `_control_cb` for the add_pilots /
        remove_pilots messages the real TaskManager publishes, `_base_state_cb`
        for pilot and task state notifications as `advance` publishes them.
Oracle: model of pilot roles / notified pilot states / task bookkeeping;
        observation point = tasks put on TMGR_STAGING_INPUT_QUEUE.  See RULE and
        the clause list in `run_case`.
"""
import collections

from hypothesis import strategies as st

from . import boot                                    # noqa: F401
from .runner import CaseResult, Part, exc_sig, exc_site
from .c12_sim import Sim, SCHEDULERS

import radical.utils        as ru
import radical.pilot.states as rps

import radical.pilot.tmgr.scheduler.backfilling as rp_bf

PID  = 'C12'
RULE = ('cases = (scheduler in {round_robin, backfilling}, 1-4 pilots sized by cores or nodes, '
        'history of <= 30 ops over <= 30 tasks: submit bulk (tasks unnamed or naming a pilot, '
        'possibly not yet / never added), add / remove / re-add pilots, pilot state notifications '
        'in any order incl. finals, task state notification batches incl. full-dict finals, '
        '"all tasks of a pilot finish", and low-weight traffic of a second task manager); '
        'non-trivial = >= 2 pilots and at least one of: pilot removed while tasks wait, task names '
        'a pilot before it is added, an added pilot leaves the eligible window (ACTIVE -> final), '
        'all tasks bound to a pilot get their final notification; distinct = the case itself')
ASSUMPTIONS = [
    'scheduler component built by __new__ + ClientComponent.__init__ (the skipped '
    'TMGRSchedulingComponent.__init__ only derives a uid); its real _initialize/initialize run',
    'TaskManager (ours and the foreign one) and Session are hollow (vlib.hollow); Pilot, Task and '
    'descriptions come from their real constructors; re-adds and the second manager use the '
    'documented pilot-dict form of add_pilots (Pilot.attach_tmgr refuses a second attach)',
    'transport = in-memory queues/pubsub with msgpack copies; every operation is delivered '
    'atomically in history order (no delivery while a component method runs)',
    'oracle reads the scheduler-private _wait_pool, _early and (backfilling) info["used"/"hwm"] '
    'for the no-loss and usage clauses; HWM / eligible window are read from the module constants',
    'radical.utils.get_version shim (src/radical/pilot/VERSION absent in this tree)']
NOT_REACHED = [
    'interleavings inside one component method (control/state callbacks racing `work` on the '
    'component locks) - operations are atomic here',
    'what happens to tasks already forwarded to a pilot that is later removed; drain; task '
    'cancellation while waiting in the scheduler (C08); contradictory pilot finals (C14)']
BUDGET = {'quick': 100, 'thorough': 1500}

ADDED, REMOVED = 'added', 'removed'

# the oracle's own pilot state order (DESIGN A.1), not taken from states.py
P_STATES = ['NEW', 'PMGR_LAUNCHING_PENDING', 'PMGR_LAUNCHING',
            'PMGR_ACTIVE_PENDING', 'PMGR_ACTIVE', 'DONE', 'FAILED', 'CANCELED']
PVAL     = {None: -1, 'NEW': 0, 'PMGR_LAUNCHING_PENDING': 1, 'PMGR_LAUNCHING': 2,
            'PMGR_ACTIVE_PENDING': 3, 'PMGR_ACTIVE': 4,
            'DONE': 5, 'FAILED': 5, 'CANCELED': 5}
FINAL    = ('DONE', 'FAILED', 'CANCELED')

# notifications a forwarded task can get; (state, published as full dict?)
T_STATES = [('TMGR_STAGING_INPUT', False), ('AGENT_STAGING_INPUT_PENDING', False),
            ('AGENT_SCHEDULING', False), ('AGENT_EXECUTING', False),
            ('AGENT_STAGING_OUTPUT_PENDING', False),
            ('TMGR_STAGING_OUTPUT_PENDING', True),      # agent staging output sets '$all'
            ('DONE', True), ('FAILED', True), ('CANCELED', True)]
FOREIGN = 9          # pilot index standing for the second manager's own pilot
MAX_TASKS = 30
MAX_OPS   = 30


def p_step(cur, tgt):
    if cur in FINAL:
        return cur
    if tgt in ('FAILED', 'CANCELED'):
        return tgt
    if PVAL[tgt] > PVAL[cur]:
        return tgt
    return cur


# ------------------------------------------------------------------------------
# generator
def _ops(n_p, sched='round_robin'):
    pidx  = st.integers(0, n_p - 1)
    named = st.sampled_from([-1] * 7 + [0, 1, 2, 3] + [FOREIGN]) if n_p > 1 else \
            st.sampled_from([-1] * 6 + [0, 0, 0, FOREIGN])
    spec  = st.tuples(named, st.integers(1, 3), st.integers(1, 2)).map(list)
    submit = st.tuples(st.just('submit'), st.lists(spec, min_size=1, max_size=6))
    add    = st.tuples(st.just('add'),
                       st.lists(pidx, min_size=1, max_size=n_p, unique=True))
    remove = st.tuples(st.just('remove'),
                       st.lists(pidx, min_size=1, max_size=2, unique=True))
    pbulk  = st.tuples(st.just('pstate_bulk'),
                       st.lists(st.tuples(st.sampled_from(list(range(n_p)) + [FOREIGN]),
                                          st.sampled_from([3, 4, 4, 4, 5, 6])).map(list),
                                min_size=2, max_size=3, unique_by=lambda x: x[0]))
    pstate = st.tuples(st.just('pstate'), pidx,
                       st.sampled_from([0, 1, 2, 3, 3, 3, 4, 4, 4, 4, 4, 4, 5, 6, 7]),
                       st.sampled_from([0, 0, 0, 0, 0, 0, 1, 2]))
    tstate = st.tuples(st.just('tstate'),
                       st.lists(st.tuples(st.integers(0, MAX_TASKS - 1),
                                          st.sampled_from([0, 1, 3, 4, 5, 5, 6, 6, 6, 7, 8])
                                          ).map(list),
                                min_size=1, max_size=4))
    finish = st.tuples(st.just('finish'), pidx, st.integers(0, 2))
    f_add  = st.tuples(st.just('f_add'),
                       st.lists(st.sampled_from(list(range(n_p)) + [FOREIGN]),
                                min_size=1, max_size=2, unique=True))
    f_rem  = st.tuples(st.just('f_remove'),
                       st.lists(st.sampled_from(list(range(n_p)) + [FOREIGN]),
                                min_size=1, max_size=2, unique=True))
    f_pst  = st.tuples(st.just('f_pstate'), st.sampled_from([0, 2, 4, 4, 5, 6]))
    f_task = st.tuples(st.just('f_task'), st.integers(0, 3),
                       st.sampled_from(list(range(n_p)) + [FOREIGN]),
                       st.sampled_from([0, 3, 5, 6, 6, 7, 8]))
    foreign = st.one_of(f_add, f_add, f_rem, f_pst, f_task, f_task, f_task)
    if sched == 'backfilling':
        # completion notifications drive the backfilling: weigh them up
        mix = [submit] * 5 + [add] * 2 + [remove] * 2 + [pstate] * 3 + [pbulk] + \
              [tstate] * 3 + [finish] * 4 + [foreign]
    else:
        mix = [submit] * 5 + [add] * 3 + [remove] * 2 + [pstate] * 4 + [pbulk] + \
              [tstate] * 3 + [finish] * 2 + [foreign]
    return st.one_of(*mix).map(list)


@st.composite
def histories(draw, sched):
    n_p = draw(st.sampled_from([1, 2, 2, 3, 3, 4]))
    pilots = []
    for _ in range(n_p):
        if draw(st.integers(0, 6)) == 0:
            pilots.append({'nodes': draw(st.integers(1, 2))})
        else:
            pilots.append({'cores': draw(st.sampled_from([1, 1, 2, 2, 3, 4, 6, 8]))})
    # scaffold (constructed, not filtered): most histories start with some
    # tasks submitted early, pilots added and - needed by backfilling - active
    ops = []
    one = _ops(n_p, sched)
    shape = draw(st.integers(0, 9))
    if shape >= 2:
        if draw(st.booleans()):
            ops.append(['submit', [[draw(st.sampled_from([-1, -1, 0, 1, 2, 3])),
                                    draw(st.integers(1, 3)), draw(st.integers(1, 2))]
                                   for _ in range(draw(st.integers(1, 6)))]])
        first = draw(st.lists(st.integers(0, n_p - 1), min_size=1, max_size=n_p,
                              unique=True))
        ops.append(['add', first])
        if sched == 'backfilling' or draw(st.booleans()):
            for i in first:
                if draw(st.integers(0, 4)) > 0:
                    ops.append(['pstate', i, draw(st.sampled_from([3, 4, 4, 4, 4, 4])), 0])
        if sched == 'backfilling' and shape >= 6:
            # pressure: more work than the high-water marks admit
            ops.append(['submit', [[-1, draw(st.integers(1, 3)), draw(st.integers(1, 2))]
                                   for _ in range(draw(st.integers(3, 6)))]])
    n = draw(st.integers(4, MAX_OPS - len(ops)))
    ops += draw(st.lists(one, min_size=n, max_size=n))
    if sched == 'backfilling' and draw(st.integers(0, 3)) == 0:
        # a pilot ends, a notification of an earlier state of it arrives afterwards (out of
        # order / late), then more work comes in: construct it instead of hoping for it
        i = draw(st.integers(0, n_p - 1))
        ops += [['add', [i]], ['pstate', i, 4, 0],
                ['pstate', i, draw(st.sampled_from([5, 6, 7])), 0],
                ['pstate', i, draw(st.sampled_from([3, 4, 4])), 1],
                ['submit', [[-1, 1, 1] for _ in range(draw(st.integers(1, 3)))]]]
    elif sched == 'backfilling' and draw(st.integers(0, 3)) == 0:
        # work waits; then ONE notification reports several pilots, among them (in any position)
        # pilots this task manager never added or removed again, and makes an added one eligible
        j = draw(st.integers(0, n_p - 1))
        others = [FOREIGN] + [k for k in range(n_p) if k != j]
        lead = draw(st.lists(st.sampled_from(others), min_size=1, max_size=2, unique=True))
        bulk = [[k, 4] for k in lead] + [[j, 4]]
        if draw(st.booleans()):
            bulk = list(reversed(bulk))
        ops += [['remove', [k for k in lead if k != FOREIGN]]] if any(k != FOREIGN for k in lead) else []
        ops += [['submit', [[-1, 1, 1] for _ in range(draw(st.integers(1, 3)))]],
                ['add', [j]], ['pstate_bulk', bulk]]
    elif sched == 'backfilling' and draw(st.integers(0, 3)) == 0:
        # a pilot's state notification overtakes its add_pilots (whose pilot document is older)
        j = draw(st.integers(0, n_p - 1))
        ops += [['remove', [j]], ['pstate', j, 4, 1], ['add', [j]],
                ['submit', [[-1, 1, 1] for _ in range(draw(st.integers(1, 3)))]]]
    return {'sched': sched, 'pilots': pilots, 'ops': ops}


def parts(tier):
    return [Part('round_robin', histories('round_robin'), quick=500, thorough=3000),
            Part('backfilling', histories('backfilling'), quick=500, thorough=3000)]


# ------------------------------------------------------------------------------
class _Task(object):
    __slots__ = ('uid', 'named', 'cores', 'n_fw', 'pid', 'epoch', 'fdict',
                 'done_seen', 'final_seen', 'dead', 'stuck')

    def __init__(self, uid, named, cores):
        self.uid, self.named, self.cores = uid, named, cores
        self.n_fw  = 0
        self.pid   = None       # pilot it was forwarded to
        self.epoch = None       # that pilot's add-epoch at binding time
        self.fdict = None       # the forwarded task dict
        self.done_seen  = False  # a full notification beyond AGENT_EXECUTING was delivered
        self.final_seen = False
        self.dead  = False      # lost / failed: reported once
        self.stuck = False      # waits although eligible pilot exists: reported once,
                                # after the operation that should have bound it


def run_case(case):             # noqa: C901
    res   = CaseResult()
    sname = case.get('sched')
    if sname not in SCHEDULERS:
        sname = 'round_robin'
    is_bf = sname == 'backfilling'
    pdescr = [p for p in case.get('pilots', []) if isinstance(p, dict)][:4]
    pdescr = [({'nodes': max(1, int(p['nodes']))} if p.get('nodes') else
               {'cores': max(1, int(p.get('cores') or 1))}) for p in pdescr]
    if not pdescr:
        pdescr = [{'cores': 1}]
    n_p  = len(pdescr)
    sim  = Sim(sname, pdescr)
    puid = [p.uid for p in sim.pilots]
    fuid = sim.FUID
    pobj = {p.uid: p for p in sim.pilots}
    cores_of = {puid[i]: int(pdescr[i].get('cores') or 0) for i in range(n_p)}
    hwm_of   = {pid: int(c * rp_bf._HWM / 100) for pid, c in cores_of.items()}
    w_lo, w_hi = PVAL.get(rp_bf._BF_START, 4), PVAL.get(rp_bf._BF_STOP, 4)

    # ---- model
    role    = {}                    # pid -> ADDED / REMOVED  (our manager)
    f_added = set()                 # pids currently added to the foreign manager
    ever    = set()
    epoch   = collections.Counter()
    sstate  = {}                    # pilot state as notified to the scheduler
    final_of = {}                   # the one final a pilot gets (no contradicting finals: C14)
    tasks   = collections.OrderedDict()
    fw_order = []                   # uids in order of first forward
    ftasks  = {}                    # foreign task dicts
    tainted = False                 # a scheduler callback raised: usage figures not judged

    nt = {'remove_while_waiting': False, 'named_before_add': False,
          'left_window': False, 'pilot_all_final': False}
    seen = collections.Counter()

    def fail(sig, msg):
        res.fail(sig, msg)

    def pres(i):
        if i == FOREIGN:
            return fuid
        return puid[int(i) % n_p]

    def pilot_final(pid, state):
        if state in FINAL:
            state = final_of.setdefault(pid, state)
        return state

    def strict_used(pid):
        return sum(t.cores for t in tasks.values()
                   if t.pid == pid and not t.named and t.n_fw
                   and t.epoch == epoch[pid] and not t.done_seen)

    def waiting_own():
        return [t for t in tasks.values() if not t.n_fw and not t.dead]

    # ---- oracle pieces
    def check_forwards(obs, kind):
        for bulk in obs.forwards:
            counts = collections.Counter()
            for t in bulk:
                uid = t.get('uid')
                rec = tasks.get(uid)
                if rec is None:
                    fail('unknown_task_forwarded:%s' % kind, '%s' % uid)
                    continue
                ctx = 'named' if rec.named else 'unnamed'
                pid = t.get('pilot')
                rec.n_fw += 1
                if rec.n_fw > 1:
                    readd = epoch[pid] > 1 if pid in epoch else False
                    fail('forwarded_twice:%s:%s%s' % (ctx, kind, ':readd' if readd else ''),
                         '%s forwarded again (to %s, first to %s) during %s'
                         % (uid, pid, rec.pid, kind))
                    continue
                fw_order.append(uid)
                seen['fw_in_' + kind] += 1
                rec.pid, rec.epoch, rec.fdict = pid, epoch.get(pid, 0), t
                if t.get('state') != rps.TMGR_STAGING_INPUT_PENDING:
                    fail('forwarded_in_wrong_state', '%s: %s' % (uid, t.get('state')))
                if pid == fuid:
                    pobj[fuid] = sim.fpilot
                if pid not in pobj:
                    fail('forwarded_without_known_pilot:%s' % ctx, '%s -> %r' % (uid, pid))
                    continue
                pd = pobj[pid].as_dict()
                exp = {'client_sandbox'  : str(sim.sess._get_client_sandbox()),
                       'endpoint_fs'     : pd['endpoint_fs'],
                       'resource_sandbox': pd['resource_sandbox'],
                       'session_sandbox' : pd['session_sandbox'],
                       'pilot_sandbox'   : pd['pilot_sandbox']}
                for k, v in exp.items():
                    if not t.get(k) or str(t.get(k)).rstrip('/') != str(v).rstrip('/'):
                        fail('sandbox_inconsistent:%s' % k,
                             '%s on %s: %r, pilot has %r' % (uid, pid, t.get(k), v))
                tsb = str(t.get('task_sandbox') or '')
                if not tsb.startswith(str(pd['pilot_sandbox']).rstrip('/') + '/') \
                        or tsb.rstrip('/').split('/')[-1] != uid:
                    fail('sandbox_inconsistent:task_sandbox', '%s on %s: %r' % (uid, pid, tsb))
                elif t.get('task_sandbox_path') != ru.Url(tsb).path:
                    fail('sandbox_inconsistent:task_sandbox_path',
                         '%s: %r vs %r' % (uid, t.get('task_sandbox_path'), tsb))

                if rec.named:
                    if pid != rec.named:
                        fail('named_task_to_other_pilot', '%s names %s, went to %s'
                             % (uid, rec.named, pid))
                    elif pid not in ever:
                        fail('named_task_before_pilot_added:%s' % kind,
                             '%s -> %s which was never added' % (uid, pid))
                    elif role.get(pid) == REMOVED:
                        seen['named_to_removed'] += 1
                else:
                    if role.get(pid) != ADDED:
                        fail('unnamed_task_to_%s_pilot:%s' % (role.get(pid) or 'never_added', kind),
                             '%s -> %s (role %s)' % (uid, pid, role.get(pid)))
                    elif is_bf:
                        v = PVAL.get(sstate.get(pid), -1)
                        if not (w_lo <= v <= w_hi):
                            fail('bf_bound_outside_window:%s' % ('early' if v < w_lo else 'late'),
                                 '%s -> %s in notified state %s' % (uid, pid, sstate.get(pid)))
                        used = strict_used(pid) - rec.cores   # rec itself is bound by now
                        if used + rec.cores >= hwm_of[pid]:
                            seen['bf_pilot_filled'] += 1
                        if used >= hwm_of[pid]:
                            fail('bf_bound_at_hwm', '%s (%d cores) -> %s with %d cores outstanding, '
                                 'hwm %d' % (uid, rec.cores, pid, used, hwm_of[pid]))
                    counts[pid] += 1
            if counts and not is_bf:
                added = [p for p in puid if role.get(p) == ADDED]
                cs = [counts.get(p, 0) for p in added]
                if cs and max(cs) - min(cs) > 1:
                    fail('rr_bulk_unbalanced', 'bulk of %d over %s: %s'
                         % (sum(counts.values()), added, dict(counts)))
                seen['rr_bulks_over_%d' % min(len(added), 3)] += 1

    def check_quiescent(obs, kind):
        nonlocal tainted
        for url, things in obs.other_puts:
            fail('put_on_other_queue:%s' % kind, '%s: %s' % (url, [x.get('uid') for x in things]))
        for t in obs.failed:
            rec = tasks.get(t.get('uid'))
            if rec is not None and not rec.dead:
                rec.dead = True
                fail('task_ended_by_scheduler:%s:%s' % (t.get('state'), kind),
                     '%s published %s: %s' % (rec.uid, t.get('state'), t.get('exception')))
        wait, early = sim.waiting_uids()
        any_added = any(r == ADDED for r in role.values())
        for rec in waiting_own():
            ctx = 'named' if rec.named else 'unnamed'
            if rec.uid not in wait and rec.uid not in early:
                rec.dead = True
                fail('task_lost:%s:%s' % (ctx, kind),
                     '%s neither forwarded nor held by the scheduler after %s' % (rec.uid, kind))
                continue
            if rec.stuck:
                continue
            if rec.named:
                if role.get(rec.named) == ADDED:
                    rec.stuck = True
                    fail('named_task_waits_with_added_pilot:%s' % kind,
                         '%s waits for %s which is added' % (rec.uid, rec.named))
            elif not is_bf:
                if any_added:
                    rec.stuck = True
                    fail('rr_task_waits_with_added_pilot:%s' % kind, rec.uid)
            elif not tainted:
                # (after a callback raised, the re-scheduling it skipped is a
                # consequence of that reported failure, not a second one)
                for pid in puid:
                    info = sim.bf_info(pid)
                    if role.get(pid) == ADDED and info \
                            and w_lo <= PVAL.get(sstate.get(pid), -1) <= w_hi \
                            and info['used'] < info['hwm']:
                        rec.stuck = True
                        fail('bf_task_waits_with_eligible_pilot:%s' % kind,
                             '%s waits, %s is added, %s, used %s < hwm %s'
                             % (rec.uid, pid, sstate.get(pid), info['used'], info['hwm']))
                        break
        for pid in puid:
            mine = [t for t in tasks.values() if t.pid == pid and not t.named
                    and t.n_fw and t.epoch == epoch[pid]]
            all_final = all(t.final_seen for t in mine)
            if mine and all_final:
                nt['pilot_all_final'] = True
            info = sim.bf_info(pid) if is_bf else None
            if not info:
                continue
            if info['used'] < 0:
                fail('bf_used_negative', '%s: %s' % (pid, info['used']))
            if all_final and not tainted and info['used'] != 0:
                fail('bf_used_not_zero_after_all_final',
                     '%s: used %s after final notifications for all of %s'
                     % (pid, info['used'], [t.uid for t in mine]))

    def entry_class(d):
        """input class of one notified task dict (for exception signatures)"""
        pid = d.get('pilot')
        if not pid or 'description' not in d:
            return None                         # short dict: carries no pilot
        rec = tasks.get(d['uid'])
        if pid not in role:
            return 'pilot_never_added' if pid in sim.sched._pilots else None
        if rec is None:
            return 'foreign_task'
        if rec.named:
            return 'early_bound'
        if rec.epoch != epoch[pid]:
            return 'previous_add_epoch'
        return None

    def report_errors(errors, kind, batch=None):
        nonlocal tainted
        for where, exc in errors:
            cls = kind
            if batch is not None:
                cls = 'plain'
                for d in batch:
                    c = entry_class(d)
                    if c:
                        cls = c
                        break
            if where != 'work':
                tainted = True
            fail('%s:%s' % (exc_sig('%s_raised' % where, exc), cls), repr(exc))

    def notify(things, foreign=False):
        """publish one batch; returns the list as published (for classification)"""
        out = []
        for d, state, full in things:
            d = dict(d)
            d['state'] = state
            if full and state not in FINAL:
                d['$all'] = True
            out.append(d)
        classes = [dict(d) for d in out]
        for d in classes:
            if d['state'] not in FINAL and '$all' not in d:
                d.pop('description', None)      # published short
        sim.task_states(out, foreign=foreign)
        return classes

    # ---- the history
    n_sub = 0
    for op in list(case.get('ops', []))[:MAX_OPS + 5]:
        if not isinstance(op, (list, tuple)) or not op:
            continue
        kind  = op[0]
        start = sim.begin()
        errs  = []
        batch = None
        try:
            if kind == 'submit':
                specs = []
                for sp in op[1]:
                    if n_sub >= MAX_TASKS:
                        break
                    named = None if sp[0] < 0 else pres(sp[0])
                    ranks, cpr = max(1, int(sp[1])), max(1, int(sp[2]))
                    uid = 'task.%06d' % n_sub
                    n_sub += 1
                    tasks[uid] = _Task(uid, named, ranks * cpr)
                    specs.append((uid, named, ranks, cpr))
                    if named and named not in ever:
                        nt['named_before_add'] = True
                        seen['named_never_added' if named == fuid else 'named_before_add'] += 1
                    elif named:
                        seen['named_after_add'] += 1
                if not specs:
                    continue
                errs = sim.submit(specs)
                if errs:
                    # the component would fail the whole bulk (work_cb); do not
                    # report these tasks a second time as lost
                    wait, early = sim.waiting_uids()
                    for uid, _, _, _ in specs:
                        if not tasks[uid].n_fw and uid not in wait and uid not in early:
                            tasks[uid].dead = True

            elif kind == 'add':
                idx = sorted(set(int(i) % n_p for i in op[1]))
                idx = [i for i in idx if role.get(puid[i]) != ADDED]
                if not idx:
                    continue
                for i in idx:
                    pid = puid[i]
                    if role.get(pid) == REMOVED:
                        seen['readd'] += 1
                    role[pid] = ADDED
                    ever.add(pid)
                    epoch[pid] += 1
                    # add_pilots ships the Pilot object's state
                    sstate[pid] = p_step(sstate.get(pid), sim.pilots[i]._state)
                sim.add(idx)

            elif kind == 'remove':
                idx = sorted(set(int(i) % n_p for i in op[1]))
                idx = [i for i in idx if role.get(puid[i]) == ADDED]
                if not idx:
                    continue
                if waiting_own():
                    nt['remove_while_waiting'] = True
                for i in idx:
                    role[puid[i]] = REMOVED
                sim.remove(idx)

            elif kind == 'pstate':
                i     = int(op[1]) % n_p
                pid   = puid[i]
                state = pilot_final(pid, P_STATES[int(op[2]) % len(P_STATES)])
                mode  = int(op[3]) % 3 if len(op) > 3 else 0
                if mode != 2:
                    old = sstate.get(pid)
                    sstate[pid] = p_step(old, state)
                    if role.get(pid) == ADDED and w_lo <= PVAL[old] <= w_hi \
                            and PVAL[sstate[pid]] > w_hi:
                        nt['left_window'] = True
                sim.pilot_state(sim.pilots[i], state, notify=(mode != 2), obj=(mode != 1))

            elif kind == 'pstate_bulk':
                # one notification for several pilots - also pilots this task manager does not
                # (or no longer) schedule over, in any position
                pairs = []
                for i, sidx in op[1]:
                    if i == FOREIGN:
                        state = pilot_final(fuid, P_STATES[int(sidx) % len(P_STATES)])
                        pairs.append((sim.fpilot, state))
                        seen['foreign'] += 1
                        continue
                    i     = int(i) % n_p
                    pid   = puid[i]
                    state = pilot_final(pid, P_STATES[int(sidx) % len(P_STATES)])
                    old = sstate.get(pid)
                    sstate[pid] = p_step(old, state)
                    if role.get(pid) == ADDED and w_lo <= PVAL[old] <= w_hi \
                            and PVAL[sstate[pid]] > w_hi:
                        nt['left_window'] = True
                    pairs.append((sim.pilots[i], state))
                if pairs:
                    seen['pstate_bulk'] = seen.get('pstate_bulk', 0) + 1
                    sim.pilot_states_bulk(pairs)

            elif kind in ('tstate', 'finish'):
                things = []
                if kind == 'tstate':
                    if not fw_order:
                        continue
                    for k, sidx in op[1]:
                        rec = tasks[fw_order[int(k) % len(fw_order)]]
                        state, full = T_STATES[int(sidx) % len(T_STATES)]
                        things.append((rec, state, full))
                else:
                    pid   = puid[int(op[1]) % n_p]
                    state = FINAL[int(op[2]) % 3]
                    for rec in tasks.values():
                        if rec.n_fw and rec.pid == pid and not rec.final_seen:
                            things.append((rec, state, True))
                    if not things:
                        continue
                    seen['finish_batches'] += 1
                batch = notify([(rec.fdict, state, full) for rec, state, full in things])
                for rec, state, full in things:
                    if full:
                        rec.done_seen = True
                    if state in FINAL:
                        rec.final_seen = True

            elif kind == 'f_add':
                idx = [i for i in dict.fromkeys(op[1]) if pres(i) not in f_added]
                if not idx:
                    continue
                f_added.update(pres(i) for i in idx)
                sim.add([None if i == FOREIGN else int(i) % n_p for i in idx], foreign=True)
                seen['foreign'] += 1

            elif kind == 'f_remove':
                idx = [i for i in dict.fromkeys(op[1]) if pres(i) in f_added]
                if not idx:
                    continue
                f_added.difference_update(pres(i) for i in idx)
                sim.remove([None if i == FOREIGN else int(i) % n_p for i in idx], foreign=True)
                seen['foreign'] += 1

            elif kind == 'f_pstate':
                state = pilot_final(fuid, P_STATES[int(op[1]) % len(P_STATES)])
                sim.pilot_state(sim.fpilot, state)
                seen['foreign'] += 1

            elif kind == 'f_task':
                uid = 'task.f%05d' % (int(op[1]) % 4)
                pid = pres(op[2])
                if uid not in ftasks:
                    ftasks[uid] = sim.foreign_task(uid, pid)
                state, full = T_STATES[int(op[3]) % len(T_STATES)]
                batch = notify([(ftasks[uid], state, full)], foreign=True)
                seen['foreign'] += 1

            else:
                continue
        except Exception as e:                              # noqa
            # an exception escaping a manager call is not the scheduler's
            if exc_site(e) is None:
                raise
            fail(exc_sig('driver_raised:%s' % kind, e), repr(e))
            break

        obs = sim.observe(start)
        seen['op_' + kind] += 1
        report_errors(errs + obs.errors, kind, batch)
        check_forwards(obs, kind)
        check_quiescent(obs, kind)

    # ---- classification
    res.nontrivial = n_p >= 2 and any(nt.values())
    res.label('sched=%s' % sname, 'pilots=%d' % n_p)
    for k, v in nt.items():
        if v:
            res.label('nt:' + k)
    for k in ('readd', 'named_before_add', 'named_never_added', 'named_after_add',
              'named_to_removed', 'foreign', 'finish_batches'):
        if seen[k]:
            res.label('has:' + k)
    n_fw = len(fw_order)
    res.label('forwarded=%s' % ('0' if not n_fw else '1-5' if n_fw <= 5 else
                                '6-15' if n_fw <= 15 else '16+'))
    if waiting_own():
        res.label('ends_with_waiting')
    if not is_bf and (seen['rr_bulks_over_2'] or seen['rr_bulks_over_3']):
        res.label('rr_bulk_over_2+_pilots')
    for k in ('submit', 'add', 'pstate', 'tstate', 'finish'):
        if seen['fw_in_' + k]:
            res.label('forwards_in:' + k)
    if seen['bf_pilot_filled']:
        res.label('bf:pilot_filled_to_hwm')
    if tainted:
        res.label('tainted')
    return res
