"""C09 helper: the world a launch method lives in, without registry / batch system.

* `LaunchMethod.__init__` (registry + environment probing) is replaced by a copy
  of what the real one stores, a lookup in an in-memory registry, and - when the
  registry has no entry - a direct call of the sub-class' real
  `init_from_scratch()` (the real base class runs that call in a forked
  `ru.EnvProcess`), followed by the real `init_from_info()`.
  The questions `init_from_scratch` asks the machine (`ru.which`,
  `ru.sh_callout('<mpi> --version' / '--help | grep -rf' / 'srun -V')`) are
  answered from the generated platform description.
* launchers are created by the real `ResourceManager._prepare_launch_methods()`
  / `LaunchMethod.create()` on a hollow resource manager and selected by the
  real `ResourceManager.find_launcher()`.
* JSRUN placements come from the real `ContinuousJsrun.schedule_task()` /
  `_find_resources()` / `_change_slot_states()` on a hollow scheduler.
"""
import os
import copy
import types
import contextlib

from . import boot

import radical.utils as ru

from radical.pilot.agent.launch_method.base       import LaunchMethod
from radical.pilot.agent.resource_manager.base    import RMInfo, ResourceManager
from radical.pilot                                import constants as rpc

# registry: reg_addr -> {'lm.<name>': lm_info}
REGISTRY = {}
_ANSWERS = {'cur': None}

VERSION_TEXT = {
    'OMPI'    : 'mpirun (Open MPI) 4.1.4\n\nReport bugs to http://www.open-mpi.org/community/help/\n',
    'HYDRA'   : 'HYDRA build details:\n    Version:                                 4.0.2\n'
                '    Release Date:                            Thu Apr  7 12:34:45 CDT 2022\n',
    'SPECTRUM': 'mpirun (IBM Spectrum MPI) 10.4.0.03rtm4\n',
    'PALS'    : 'mpiexec version 1.2.12 revision 37a0e3b\n',
    'INTEL'   : 'Intel(R) MPI Library for Linux* OS, Version 2021.5 Build 20211102 (id: 9279b7d62)\n',
    'MVAPICH' : 'MVAPICH2 Version      :\t2.3.7\n',
}


# ------------------------------------------------------------------------------
def _fake_lm_init(self, name, lm_cfg, rm_info, log, prof):
    # --- what the real LaunchMethod.__init__ stores
    self.name       = name
    self._lm_cfg    = lm_cfg
    self._rm_info   = rm_info
    self._log       = log
    self._prof      = prof
    self._pwd       = os.getcwd()
    self._env_orig  = {}
    self._in_pytest = False

    reg     = REGISTRY.setdefault(self._lm_cfg.reg_addr, {})
    key     = 'lm.%s' % self.name.lower()
    lm_info = reg.get(key)

    if lm_info == self.LM_INVALID or lm_info == self.LM_EMPTY:
        pass

    elif not lm_info:
        env_sh  = 'env/lm_%s.sh' % self.name.lower()
        env_lm  = {'PATH': '/usr/bin:/bin'}
        lm_info = self.init_from_scratch(env_lm, env_sh)
        if not lm_info:
            lm_info = self.LM_EMPTY
        reg[key] = copy.deepcopy(lm_info)

    else:
        lm_info = copy.deepcopy(lm_info)

    if lm_info != self.LM_INVALID:
        self.init_from_info(lm_info)


def _which(names):
    a = _ANSWERS['cur'] or {}
    for n in ru.as_list(names):
        if n in a.get('which', {}):
            return a['which'][n]
        if n in a.get('absent', ()):
            continue
        return '/usr/bin/%s' % n
    return None


def _sh_callout(cmd, stdout=True, stderr=True, shell=False, env=None, cwd=None):
    a = _ANSWERS['cur'] or {}
    if ' --help' in cmd and 'grep' in cmd:
        # `<mpiexec> --help [all|mapping] | grep -e "<opt>\>"`
        opt = cmd.split('grep -e "', 1)[1].split('\\>', 1)[0]
        ok  = opt in a.get('mpiexec_opts', ())
        return ('  %s  ...\n' % opt if ok else ''), '', (0 if ok else 1)
    exe = cmd.split()[0]
    if os.path.basename(exe).startswith('srun'):
        return 'slurm %s\n' % a.get('slurm_version', '22.05.8'), '', 0
    if cmd.split()[-1] in ('-V', '--version', '-info'):
        if cmd.split()[-1] != a.get('version_opt', '-V'):
            return '', 'unknown option', 1
        return VERSION_TEXT[a.get('mpi', 'OMPI')], '', 0
    return '', 'command not found: %s' % cmd, 127


@contextlib.contextmanager
def world(answers):
    """install the replaced base constructor and the machine answers"""
    saved = (LaunchMethod.__init__, ru.which, ru.sh_callout, _ANSWERS['cur'])
    LaunchMethod.__init__ = _fake_lm_init
    ru.which      = _which
    ru.sh_callout = _sh_callout
    _ANSWERS['cur'] = answers
    try:
        yield
    finally:
        LaunchMethod.__init__, ru.which, ru.sh_callout, _ANSWERS['cur'] = saved


# ------------------------------------------------------------------------------
def node_name(style, i):
    if style == 'hostlike':
        # names which contain / are contained in the agent's own host name
        h = ru.get_hostname()
        cand = [h[:-1], h[1:], h[:3], h + '0', 'x' + h, h[2:5], h[:1], h + '.cluster.org']
        cand = [c for k, c in enumerate(cand) if c and c != h and c != 'localhost'
                and c not in cand[:k]]
        if i < len(cand):
            return cand[i]
        return 'node%d' % (i + 1)
    if style == 'nid':
        return 'nid%05d' % (i + 7)
    if style == 'dash':
        return 'cn-%d-%d' % (i // 8, i % 8)
    if style == 'fqdn':
        return 'node%03d.cluster.example.org' % i
    return 'node%d' % (i + 1)


def make_rm_info(plat, launch_methods):
    n    = plat['nodes']
    cpn  = plat['cpn']
    gpn  = plat['gpn']
    base = plat.get('idx_base', 0)
    nodes = [{'name' : node_name(plat.get('names', 'node'), i),
              'index': i + base,
              'cores': [rpc.FREE] * cpn,
              'gpus' : [rpc.FREE] * gpn,
              'lfs'  : 0,
              'mem'  : 0} for i in range(n)]
    if plat.get('local_first'):
        nodes[0]['name'] = 'localhost'
    info = RMInfo({'requested_nodes' : n,
                   'requested_cores' : n * cpn,
                   'requested_gpus'  : n * gpn if plat.get('req_gpus', True) else 0,
                   'node_list'       : nodes,
                   'cores_per_node'  : cpn,
                   'gpus_per_node'   : gpn,
                   'threads_per_core': plat.get('smt', 1),
                   'details'         : {'exact'        : bool(plat.get('exact')),
                                        'oversubscribe': bool(plat.get('os_req')),
                                        'n_partitions' : 1,
                                        'network'      : None},
                   'launch_methods'  : launch_methods})
    info.verify()
    return info


_reg_counter = [0]


def hollow_rm(plat, order, lm_cfgs, reg_addr=None):
    """hollow ResourceManager (constructor fields copied) with the launchers
    created by the real `_prepare_launch_methods`"""
    launch_methods = {'order': list(order)}
    for name in order:
        launch_methods[name] = copy.deepcopy(lm_cfgs.get(name, {}))
    rm_info = make_rm_info(plat, launch_methods)

    if reg_addr is None:
        _reg_counter[0] += 1
        reg_addr = 'mem://c09.%d' % _reg_counter[0]
        REGISTRY[reg_addr] = {}

    rm = ResourceManager.__new__(ResourceManager)
    rm.name     = 'ResourceManager'
    rm._cfg     = ru.Config(from_dict={'pid'     : 'pilot.0000',
                                       'reg_addr': reg_addr,
                                       'resource': plat.get('resource', 'local.localhost')})
    rm._rcfg    = ru.Config(from_dict={})
    rm._log     = boot.LOG
    rm._prof    = boot.PROF
    rm._rm_info = rm_info
    rm._prepare_launch_methods()
    return rm, reg_addr


def drop_registry(reg_addr):
    REGISTRY.pop(reg_addr, None)


def prte_lm_info(plat, dvm_count, str_keys=False):
    """what PRTE._configure() returns (it starts DVM processes: not run here)"""
    import math
    n   = plat['nodes']
    per = int(math.ceil(n / float(dvm_count)))
    base = plat.get('idx_base', 0)
    dvm_list = {}
    for d in range(dvm_count):
        idxs = list(range(d * per, min(n, (d + 1) * per)))
        dvm_list[str(d) if str_keys else d] = {
            'nodes'  : [i + base for i in idxs],
            'dvm_uri': 'prte-dvm-%d@node%d:%d' % (d, d, 4000 + d)}
    return {'env'    : {'PATH': '/usr/bin:/bin'},
            'env_sh' : 'env/lm_prte.sh',
            'command': '/usr/bin/prun',
            'details': {'dvm_list'    : dvm_list,
                        'version_info': {'name': 'PRTE', 'version': '2.0'}}}


# ------------------------------------------------------------------------------
def hollow_jsrun_scheduler(rm_info, scattered=False):
    from radical.pilot.agent.scheduler.continuous_jsrun import ContinuousJsrun
    s = ContinuousJsrun.__new__(ContinuousJsrun)
    # fields of AgentSchedulingComponent.__init__/initialize and
    # ContinuousJsrun.__init__/_configure which schedule_task reads
    s._log           = boot.LOG
    s._prof          = boot.PROF
    s._rm            = types.SimpleNamespace(info=rm_info)
    s._partition_ids = []
    s.nodes          = copy.deepcopy(rm_info.node_list)
    s._colo_history  = dict()
    s._tagged_nodes  = set()
    s._scattered     = scattered
    s._node_offset   = 0
    return s
