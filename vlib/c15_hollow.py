"""c15_hollow: a hollow PilotManager for `wait_pilots` / `Pilot.wait`.

`PilotManager.__new__` + the fields the constructor initialises before it starts
bridges and components (copied from pilot_manager.py `__init__`), then the real
`ClientComponent.__init__` and the real `_initialize()` (publishers over the
in-memory transport).  Real methods used afterwards: `check_uid`,
`_update_pilot`, `_call_pilot_callbacks`, `advance`, `wait_pilots`.
Pilots come from the real `Pilot` constructor and are entered into `_pilots`
the way `submit_pilots` does (without pushing them to a launcher).
"""
import threading as mt

from . import boot
from .hollow import comp_cfg, real_pilot

import radical.pilot           as rp
import radical.pilot.constants as rpc
import radical.pilot.utils     as rpu


def hollow_pmgr(session, uid='pmgr.0000'):
    pm = rp.PilotManager.__new__(rp.PilotManager)
    pm._uid         = uid
    pm._uids        = list()
    pm._pilots      = dict()
    pm._pilots_lock = mt.RLock()
    pm._callbacks   = dict()
    pm._pcb_lock    = mt.RLock()
    pm._terminate   = mt.Event()
    pm._closed      = False
    for m in rpc.PMGR_METRICS:
        pm._callbacks[m] = dict()

    cfg = comp_cfg(session, uid, client_sandbox=session._get_client_sandbox())
    rpu.ClientComponent.__init__(pm, cfg, session=session)
    pm._initialize()
    pm._rep = boot.StubRep()
    session._pmgrs[uid] = pm
    return pm


def add_pilot(pm, uid):
    pilot = real_pilot(pm, uid)
    with pm._pilots_lock:
        pm._pilots[pilot.uid] = pilot
    return pilot
