"""C17 - Every shipped platform resolves and pilots are sized to fit.  (DESIGN.md 4/C17, A.6)

Drive : the shipped configs/resource_*.json as the session loads them, real
        Session.get_resource_config(resource, schema) on a hollow session for ALL
        shipped (resource, schema) pairs; the four real factories
        (ResourceManager.get_manager/create, LaunchMethod.create,
        AgentSchedulingComponent.create, AgentExecutingComponent.create) run up
        to the point where they instantiate the class they looked up; the agent
        config loader; real PilotDescription -> real Pilot -> as_dict(); real
        PMGRLaunchingComponent._prepare_pilot on a hollow launcher.
Oracle: per pair everything named resolves to a class / a non-empty agent
        config; per size the job description and the agent config (in memory
        and as written to agent_0.cfg) carry the figures of model A.6, computed
        in integer arithmetic from the raw config files.
"""
from hypothesis import strategies as st

from . import boot                                    # noqa: F401
from .runner import CaseResult, Part, exc_sig, exc_site
from . import c17_lib as L

from radical.pilot.agent.resource_manager.base import ResourceManager
from radical.pilot.agent.launch_method.base    import LaunchMethod
from radical.pilot.agent.scheduler.base        import AgentSchedulingComponent
from radical.pilot.agent.executing.base        import AgentExecutingComponent

PID  = 'C17'
PAIRS = L.pairs()
RULE = ('enumerated: 1 catalogue case + every shipped (resource, schema) pair (%d pairs of %d '
        'configs) resolved through the real session and factories + every pair x a fixed grid '
        'of 12 (size, RADICAL_SMT) requests; generated: a pair x a pilot size (nodes 1-64 with '
        '0-2 backup nodes, or cores/gpus at k*node+-delta incl. GPU-bound mixes) x RADICAL_SMT '
        'unset/2/4; non-trivial = node size known, platform has GPUs or SMT>1 or blocked cores, '
        'size given as cores/gpus and not a multiple of the node size; distinct = the case '
        'itself (pair, size, smt)' % (len(PAIRS), len(L.catalog())))
ASSUMPTIONS = [
    'Session is built hollow (real get_resource_config / sandbox methods over the configs '
    'loaded by the real loader); PMGRLaunchingComponent is built with __new__ + the fields '
    '_prepare_pilot reads; the config resolution + %(pd.*)s expansion lines of '
    '_start_pilot_bulk are copied into the harness',
    'factories are run unmodified up to instantiation: the base class __new__ is replaced '
    'for the duration of the call so that the looked-up class is reported instead of built',
    'pilot description always carries an explicit sandbox (no shell call-out for workdir '
    'expansion) and placeholder values for mandatory args',
    'oracle inputs (cores_per_node, gpus_per_node, smt, blocked cores/gpus) are read from the '
    'raw json files with radical.utils.read_json',
    'radical.utils.get_version shim (src/radical/pilot/VERSION absent in this tree)']
NOT_REACHED = [
    'launch methods / resource managers are resolved to classes, not initialised (their '
    'binaries and batch environments are absent)',
    'default_remote_workdir expansion by shell call-out, file staging and job submission '
    '(SAGA / PSI/J) are not exercised',
    'platforms whose node size is not configured (cores_per_node 0): only pass-through of the '
    'requested figures and job/agent agreement are checked']
EXHAUSTIVE = ('all shipped (resource, schema) pairs (every label of every configs/resource_*.json '
              'x each of its schemas): resolution, and sizing on a fixed 12-point grid')
BUDGET = {'quick': 90, 'thorough': 900}

SMTS = [0, 2, 4]


def _weighted_pairs():
    # the classes that matter are rare among the shipped configs (2 pairs block
    # cores, ~20 set smt): sample them more often instead of hoping for them
    out = []
    for resource, schema in PAIRS:
        f = L.facts(resource, schema)
        w = 1 + (8 if f['nbc'] or f['nbg'] else 0) + (2 if f['smt_cfg'] > 1 else 0) \
              + (1 if f['gpn'] else 0)
        out.extend([(resource, schema)] * w)
    return out


WEIGHTED_PAIRS = _weighted_pairs()


# ------------------------------------------------------------------------------
# generators
def _size_case(resource, schema, smt=0, nodes=0, cores=0, gpus=0, backup=0, bulk_pos=0):
    # bulk_pos: how many other pilots of the same bulk are prepared before this one with the
    # SAME resource config object (as _start_pilot_bulk does)
    return {'kind': 'size', 'resource': resource, 'schema': schema, 'smt': smt,
            'nodes': nodes, 'cores': cores, 'gpus': gpus, 'backup': backup,
            'bulk_pos': bulk_pos}


def _grid(resource, schema, tier):
    f = L.facts(resource, schema)

    def cg(smt):
        c, g, _ = L.node_size(f, smt)
        return (c or 16), g

    out = []

    def add(smt, nodes=0, cores=0, gpus=0, backup=0):
        out.append(_size_case(resource, schema, smt, nodes, cores, gpus, backup))

    def templates(smt, which):
        c, g = cg(smt)
        t = {0 : dict(nodes=1),
             1 : dict(nodes=3, backup=2),
             2 : dict(nodes=64, backup=1),
             3 : dict(cores=1),
             4 : dict(cores=c),
             5 : dict(cores=c + 1),
             6 : dict(cores=2 * c - 1),
             7 : dict(cores=7 * c + 1),
             8 : dict(cores=1,         gpus=g + 1 if g else 0),
             9 : dict(cores=c,         gpus=3 * g + 1 if g else 0),
             10: dict(cores=5 * c + 1, gpus=1 if g else 0),
             11: dict(cores=2 * c,     gpus=2 * g),
             12: dict(cores=33 * c),
             13: dict(cores=64 * c - 1, gpus=63 * g + 1 if g else 0),
             14: dict(nodes=17),
             15: dict(cores=3, gpus=2)}       # gpus asked where there may be none
        return t[which]

    if tier == 'quick':
        plan = [(0, 0), (0, 1), (2, 2), (0, 3), (0, 4), (0, 5), (2, 6), (4, 7),
                (0, 8), (2, 9), (4, 10), (0, 11)]
    else:
        plan = [(smt, w) for smt in SMTS for w in range(16)]
    for smt, which in plan:
        add(smt, **templates(smt, which))
    return out


def enum_cases(tier):
    yield {'kind': 'catalog'}
    for resource, schema in PAIRS:
        yield {'kind': 'resolve', 'resource': resource, 'schema': schema}
    # one session resolving a platform under several of its schemas, one after the other
    by_res = {}
    for resource, schema in PAIRS:
        by_res.setdefault(resource, []).append(schema)
    for resource, schemas in by_res.items():
        if len(schemas) > 1:
            yield {'kind': 'resolve_seq', 'resource': resource, 'schemas': list(schemas)}
            yield {'kind': 'resolve_seq', 'resource': resource, 'schemas': list(reversed(schemas))}
    for resource, schema in PAIRS:
        for case in _grid(resource, schema, tier):
            yield case


@st.composite
def size_cases(draw):
    resource, schema = draw(st.sampled_from(WEIGHTED_PAIRS))
    smt  = draw(st.sampled_from([0, 0, 2, 4]))
    f    = L.facts(resource, schema)
    c, g, _ = L.node_size(f, smt)
    mode = draw(st.sampled_from(['nodes', 'cores', 'cores', 'mix', 'gpu_bound']))
    if mode == 'nodes':
        return _size_case(resource, schema, smt,
                          nodes=draw(st.integers(1, 64)),
                          backup=draw(st.sampled_from([0, 0, 1, 2])),
                          bulk_pos=draw(st.sampled_from([0, 0, 1, 2])))
    cc = c or 16
    k  = draw(st.integers(0, 64))
    d  = draw(st.one_of(st.sampled_from([-1, 0, 1]), st.integers(-(cc - 1), cc - 1)))
    cores = max(1, k * cc + d)
    gpus  = 0
    if g and mode != 'cores':
        if mode == 'gpu_bound':
            # more nodes needed for the gpus than for the cores
            kn   = L.ceil_div(cores, cc)
            kg   = kn + draw(st.integers(0, 8))
            gpus = kg * g + draw(st.integers(1, g))
        else:
            kg   = draw(st.integers(0, 64))
            gpus = max(0, kg * g + draw(st.integers(-(g - 1), g - 1)) if g > 1 else kg)
    elif not g and mode != 'cores':
        gpus = draw(st.sampled_from([0, 0, 0, 1, 5]))
    return _size_case(resource, schema, smt, cores=cores, gpus=gpus,
                      bulk_pos=draw(st.sampled_from([0, 0, 1, 2])))


def parts(tier):
    return [Part('pairs_and_grid', enum=enum_cases),
            Part('sizes', size_cases(), quick=1500, thorough=1500)]


def normalise(case):
    if isinstance(case, dict) and case.get('kind') == 'resolve_seq':
        schemas = [sc for sc in case.get('schemas') or [] if (case.get('resource'), sc) in PAIRS]
        if not schemas:
            return None
        return {'kind': 'resolve_seq', 'resource': case['resource'], 'schemas': schemas}
    if not isinstance(case, dict) or case.get('kind') not in ('catalog', 'resolve', 'size'):
        return None
    if case['kind'] == 'catalog':
        return {'kind': 'catalog'}
    if (case.get('resource'), case.get('schema')) not in PAIRS:
        return None
    if case['kind'] == 'resolve':
        return {'kind': 'resolve', 'resource': case['resource'], 'schema': case['schema']}
    out = _size_case(case['resource'], case['schema'])
    for k in ('smt', 'nodes', 'cores', 'gpus', 'backup', 'bulk_pos'):
        v = case.get(k, 0)
        out[k] = max(0, v) if isinstance(v, int) and not isinstance(v, bool) else 0
    if out['smt'] not in SMTS:
        out['smt'] = 0
    if out['nodes']:
        out['cores'] = out['gpus'] = 0
    else:
        out['backup'] = 0
        out['cores']  = max(1, out['cores'])
    return out


# ------------------------------------------------------------------------------
def run_case(case):
    case = normalise_or_stale(case)
    if case is None:
        res = CaseResult()
        res.label('stale_or_malformed_case')
        return res
    try:
        if case['kind'] == 'catalog':
            return run_catalog()
        if case['kind'] == 'resolve':
            return run_resolve(case)
        if case['kind'] == 'resolve_seq':
            return run_resolve_seq(case)
        return run_size(case)
    finally:
        L.cleanup_tmp()


def normalise_or_stale(case):
    return normalise(case)


# ------------------------------------------------------------------------------
def run_catalog():
    """what the session loads vs. what is shipped"""
    res  = CaseResult()
    sess = L.new_session()
    res.label('kind=catalog')

    for resource, e in sorted(sess._rcfg_errors.items()):
        res.fail('config_load_error:%s' % resource, repr(e))

    for resource, raw in sorted(L.catalog().items()):
        site, label = resource.split('.', 1)
        if site not in sess._rcfgs or label not in sess._rcfgs[site]:
            if resource not in sess._rcfg_errors:
                res.fail('config_not_loaded:%s' % resource,
                         'shipped in resource_%s.json but not in the session' % site)
            continue
        schemas = raw.get('schemas')
        if not isinstance(schemas, dict) or not schemas:
            res.fail('no_schemas:%s' % resource, repr(schemas))
            continue
        default = raw.get('default_schema')
        if not default or default not in schemas:
            res.fail('default_schema_missing:%s' % resource,
                     'default_schema %r not in %s' % (default, sorted(schemas)))
            continue
        # a description without access_schema must get the default schema
        try:
            a = sess.get_resource_config(resource, None)
            b = sess.get_resource_config(resource, default)
        except Exception:       # noqa  (reported per pair by the resolve cases)
            continue
        if a.as_dict() != b.as_dict():
            res.fail('default_schema_differs:%s' % resource,
                     'schema=None and schema=%r resolve differently' % default)
    return res


# ------------------------------------------------------------------------------
def _is_sub(cls, base):
    return isinstance(cls, type) and issubclass(cls, base) and cls is not base


_PSIJ = []


def _psij_launcher():
    if _PSIJ:
        return _PSIJ[0]
    import logging
    logging.disable(logging.INFO)                     # psi_j.py switches the root logger to DEBUG on import
    from radical.pilot.pmgr.launching.psi_j import PilotLauncherPSIJ
    logging.getLogger().setLevel(logging.ERROR)
    logging.getLogger('psij').setLevel(logging.ERROR)
    lp = PilotLauncherPSIJ.__new__(PilotLauncherPSIJ)
    _PSIJ.append(lp)
    lp._log = boot.LOG
    lp._jex = {}
    lp._job_status_cb = lambda *a, **k: None
    return lp


def run_resolve(case):
    res = CaseResult()
    resource, schema = case['resource'], case['schema']
    res.label('kind=resolve')
    sess = L.new_session()

    try:
        rcfg = sess.get_resource_config(resource, schema)
    except Exception as e:      # noqa
        res.fail('config_unresolvable:%s' % resource,
                 'schema %s: %r @%s' % (schema, e, exc_site(e)))
        return res

    f = L.facts(resource, schema)
    arch = rcfg.system_architecture or {}
    got = {'cpn': rcfg.cores_per_node or 0, 'gpn': rcfg.gpus_per_node or 0,
           'smt_cfg': int(arch.get('smt') or 1),
           'nbc': len(arch.get('blocked_cores') or []),
           'nbg': len(arch.get('blocked_gpus') or [])}
    for k, v in got.items():
        if v != f[k]:
            res.fail('rcfg_field_mismatch:%s' % resource,
                     '%s: resolved %r, file says %r' % (k, v, f[k]))

    raw_schema = (L.catalog()[resource].get('schemas') or {}).get(schema)
    if isinstance(raw_schema, dict):
        for k, v in sorted(raw_schema.items()):
            if rcfg.get(k) != v:
                res.fail('schema_not_applied:%s' % resource,
                         'schema %s: %s resolved to %r, schema says %r'
                         % (schema, k, rcfg.get(k), v))

    for ep in ('job_manager_endpoint', 'filesystem_endpoint'):
        if not rcfg.get(ep) or not isinstance(rcfg.get(ep), str):
            res.fail('endpoint_missing:%s' % resource,
                     'schema %s: %s = %r' % (schema, ep, rcfg.get(ep)))

    # --- "can be turned into a batch job": a pilot launcher of the code base takes the endpoint.
    # The endpoint scheme names the batch system and optionally a transport (ssh / gsissh), in
    # either order (both orders are shipped); the PSI/J launcher (tried first by the launching
    # component) maps the batch system to its executor.  Endpoints naming a transport only
    # (plain shell access) are left to the SAGA launcher, which is not installed here.
    ep = rcfg.get('job_manager_endpoint')
    if isinstance(ep, str) and ep:
        parts = ep.split(':')[0].split('+')
        batch = [x for x in parts if x not in ('ssh', 'gsissh')]
        if len(batch) == 1:
            want = {'pbspro': 'pbs', 'fork': 'local'}.get(batch[0], batch[0])
            try:
                lp = _psij_launcher()
                got = lp._get_schema(rcfg)
                if got != want:
                    res.fail('no_pilot_launcher:%s' % resource,
                             'schema %s: endpoint %s names batch system %r, the PSI/J launcher '
                             'maps it to %r (expected %r): no launcher takes the pilot'
                             % (schema, ep, batch[0], got, want))
                elif not lp.can_launch(rcfg, [{'uid': 'pilot.0000'}]):
                    res.fail('no_pilot_launcher:%s' % resource,
                             'schema %s: endpoint %s: PSI/J launcher refuses (executor %r)'
                             % (schema, ep, got))
                res.label('launcher=psij:%s' % want)
                if parts[0] in ('ssh', 'gsissh'):
                    res.label('endpoint_names_transport_first')
            except Exception as e:      # noqa
                res.fail(exc_sig('pilot_launcher_raised:%s' % resource, e), 'schema %s: %r' % (schema, e))
        else:
            res.label('launcher=saga_only(not installed)')

    # --- resource manager
    name = rcfg.resource_manager
    try:
        direct, via = L.resolve_rm(name)
        if not _is_sub(direct, ResourceManager) or via is not direct:
            res.fail('rm_unresolved:%s' % resource, '%r -> %r / %r' % (name, direct, via))
        else:
            res.label('rm=%s' % direct.__name__)
    except Exception as e:      # noqa
        res.fail('rm_unresolved:%s' % resource, '%r: %r' % (name, e))

    # --- launch methods: what ResourceManager._prepare_launch_methods will walk
    lms   = rcfg.launch_methods or {}
    names = [k for k in lms if k != 'order']
    order = lms.get('order') or list(lms)
    if not names or not order:
        res.fail('no_launch_method:%s' % resource, repr(dict(lms)))
    for lm in order:
        if lm not in names:
            res.fail('lm_order_undefined:%s' % resource,
                     'order names %r which has no entry in launch_methods' % (lm,))
    for lm in sorted(set(names) | set(order)):
        try:
            cls = L.resolve_lm(lm)
            if not _is_sub(cls, LaunchMethod):
                res.fail('lm_unresolved:%s' % resource, '%r -> %r' % (lm, cls))
            else:
                res.label('lm=%s' % lm)
        except Exception as e:  # noqa
            res.fail('lm_unresolved:%s' % resource, '%r: %r' % (lm, e))

    # --- agent scheduler and executor (factories read session.rcfg)
    try:
        cls = L.resolve_scheduler(rcfg)
        if not _is_sub(cls, AgentSchedulingComponent):
            res.fail('scheduler_unresolved:%s' % resource,
                     '%r -> %r' % (rcfg.agent_scheduler, cls))
        else:
            res.label('scheduler=%s' % cls.__name__)
    except Exception as e:      # noqa
        res.fail('scheduler_unresolved:%s' % resource,
                 '%r: %r' % (rcfg.agent_scheduler, e))
    try:
        cls = L.resolve_executor(rcfg)
        if not _is_sub(cls, AgentExecutingComponent):
            res.fail('executor_unresolved:%s' % resource,
                     '%r -> %r' % (rcfg.agent_spawner, cls))
        else:
            res.label('executor=%s' % cls.__name__)
    except Exception as e:      # noqa
        res.fail('executor_unresolved:%s' % resource, '%r: %r' % (rcfg.agent_spawner, e))

    # --- agent config
    try:
        acfg = L.load_agent_config(rcfg.agent_config)
        if not acfg or not len(acfg):
            res.fail('agent_config_unresolved:%s' % resource,
                     'agent_config %r loads empty' % (rcfg.agent_config,))
        else:
            res.label('agent_config=%s' % (rcfg.agent_config
                                           if isinstance(rcfg.agent_config, str) else 'dict'))
    except Exception as e:      # noqa
        res.fail('agent_config_unresolved:%s' % resource, '%r: %r' % (rcfg.agent_config, e))

    # --- and a pilot naming it becomes a job description
    out = _prepare(resource, schema, f, smt=0, nodes=0, cores=1, gpus=0, backup=0)
    if out['error'] is not None:
        e = out['error']
        res.fail('prepare_failed:%s' % resource, '%s: %r @%s' % (out['stage'], e, exc_site(e)))
    elif out['pilot'].get('jd_dict') is None:
        res.fail('prepare_failed:%s' % resource, 'no job description')
    return res


# ------------------------------------------------------------------------------
def run_resolve_seq(case):
    """resolution under a schema does not depend on what the same session resolved before:
    differential against a fresh session per (resource, schema)"""
    res = CaseResult()
    res.label('kind=resolve_seq')
    resource = case['resource']
    sess = L.new_session()
    for n, schema in enumerate(case['schemas']):
        try:
            got  = sess.get_resource_config(resource, schema).as_dict()
            want = L.new_session().get_resource_config(resource, schema).as_dict()
        except Exception as e:      # noqa
            res.fail('config_unresolvable:%s' % resource,
                     'schema %s (resolution #%d of one session): %r @%s' % (schema, n, e, exc_site(e)))
            return res
        diff = sorted(k for k in set(got) | set(want) if got.get(k) != want.get(k))
        if diff:
            res.fail('resolution_depends_on_history',
                     '%s under %s after %s: %s differ (e.g. %s: %r, fresh session %r)'
                     % (resource, schema, case['schemas'][:n], diff, diff[0],
                        got.get(diff[0]), want.get(diff[0])))
    res.nontrivial = len(case['schemas']) > 1
    return res


def _prepare(resource, schema, f, smt, nodes, cores, gpus, backup, bulk_pos=0):
    """pilot description -> pilot dict -> _prepare_pilot; returns dict with
    'pilot', 'agent_file' (parsed agent_0.cfg), 'error', 'stage'"""
    out  = {'pilot': None, 'agent_file': None, 'error': None, 'stage': None}
    sess = L.new_session()
    descr = {'uid': 'pilot.0000', 'resource': resource, 'access_schema': schema,
             'runtime': 15, 'sandbox': '/tmp/verif_sandbox', 'exit_on_error': False,
             'project': 'verif'}
    for ma in f['mandatory']:
        descr.setdefault(ma, 'verif')
    if nodes:
        descr['nodes'] = nodes
        descr['backup_nodes'] = backup
    else:
        descr['cores'] = cores
        descr['gpus']  = gpus

    with L.smt_env(smt):
        try:
            out['stage'] = 'pilot'
            pilot = L.pilot_doc(sess, descr)
            out['stage'] = 'resource_config'
            rcfg, expand = L.bulk_rcfg(sess, resource, schema, pilot)
            out['stage'] = 'prepare_pilot'
            lc = L.hollow_launcher(sess)
            for k in range(min(3, bulk_pos)):
                # earlier pilots of the same bulk share the resource config object
                other = L.pilot_doc(sess, dict(descr, uid='pilot.%04d' % (k + 1)))
                lc._prepare_pilot(resource, rcfg, other, expand, 'verif.tgz')
            lc._prepare_pilot(resource, rcfg, pilot, expand, 'verif.tgz')
            out['pilot'] = pilot
            out['rcfg']  = rcfg
            out['stage'] = 'agent_cfg_file'
            out['agent_file'], _ = L.read_staged_agent_cfg(pilot)
        except Exception as e:      # noqa
            out['error'] = e
    return out


def run_size(case):
    res = CaseResult()
    resource, schema = case['resource'], case['schema']
    smt_env, nodes, cores, gpus, backup = (case['smt'], case['nodes'], case['cores'],
                                            case['gpus'], case['backup'])
    f = L.facts(resource, schema)
    c, g, smt = L.node_size(f, smt_env)

    gpu_bound = bool(not nodes and c and g and
                     L.ceil_div(gpus, g) > L.ceil_div(cores, c))
    mode = 'nodes' if nodes else 'gpu_bound' if gpu_bound else 'cores'
    res.label('kind=size', 'mode=%s' % mode, 'smt_env=%s' % (smt_env or 'unset'),
              'node_size=%s' % ('known' if c else 'unknown'))
    if backup:
        res.label('backup_nodes')
    if f['nbc']:
        res.label('blocked_cores')
    if smt > 1:
        res.label('smt>1')
    if g:
        res.label('gpu_platform')
    nonmult = bool(not nodes and c and (cores % c or (g and gpus % g)))
    if nonmult:
        res.label('non_multiple')
    res.nontrivial = bool(c and nonmult and (g or smt > 1 or f['nbc']))

    out = _prepare(resource, schema, f, smt_env, nodes, cores, gpus, backup,
                   case.get('bulk_pos', 0))
    if case.get('bulk_pos'):
        res.label('later_pilot_of_a_bulk')
    e   = out['error']

    if e is not None and out['stage'] in ('pilot', 'resource_config'):
        # the platform itself does not resolve (same bucket as the resolve case)
        res.fail('config_unresolvable:%s' % resource,
                 'schema %s: %r @%s' % (schema, e, exc_site(e)))
        return res

    if nodes and not c:
        # documented contract: whole nodes cannot be requested where the node
        # size is not configured
        if isinstance(e, RuntimeError) and 'use "cores"' in str(e):
            res.label('nodes_refused_on_unknown_node_size')
        elif e is not None:
            res.fail(exc_sig('prepare_raised:%s' % mode, e), repr(e))
        return res

    if e is not None:
        res.fail(exc_sig('prepare_raised:%s' % mode, e), '%s: %r' % (out['stage'], e))
        return res

    pilot = out['pilot']
    jd    = pilot['jd_dict']

    def is_int(x):
        return isinstance(x, int) and not isinstance(x, bool)

    # ---- expectation (A.6), integers only
    if nodes:
        n = nodes
    elif c:
        n = max(L.ceil_div(cores, c), L.ceil_div(gpus, g) if g else 0)
    else:
        n = None
    if n is not None:
        x_nodes = n + backup
        x_cores = x_nodes * c
        x_gpus  = x_nodes * g if g else None      # no gpus configured: not demanded
    else:
        x_nodes = None
        x_cores = cores
        x_gpus  = gpus if not g else None

    def check(sig, got, want):
        if want is None:
            return
        if not is_int(got) or got != want:
            res.fail('%s:%s' % (sig, mode),
                     '%s %s smt=%s nodes=%s+%s cores=%s gpus=%s (node = %s cores, %s gpus): '
                     'got %r, expected %r'
                     % (resource, schema, smt, nodes, backup, cores, gpus, c, g, got, want))

    # ---- the job
    check('job_node_count',      jd.get('node_count'),      x_nodes)
    check('job_total_cpu_count', jd.get('total_cpu_count'), x_cores)
    check('job_total_gpu_count', jd.get('total_gpu_count'), x_gpus)
    if n is not None and not nodes:
        # whole nodes, covering, smallest (restated independently of x_*)
        jn = jd.get('node_count')
        if is_int(jn):
            if jn * c < cores or (g and jn * g < gpus):
                res.fail('job_does_not_cover_request:%s' % mode,
                         '%s nodes of (%s, %s) for cores=%s gpus=%s' % (jn, c, g, cores, gpus))
            elif jn > 0 and (jn - 1) * c >= cores and (not g or (jn - 1) * g >= gpus):
                res.fail('job_not_smallest:%s' % mode,
                         '%s nodes of (%s, %s) for cores=%s gpus=%s' % (jn, c, g, cores, gpus))

    # ---- the agent is told what the job requests
    env = jd.get('environment') or {}
    if str(env.get('RADICAL_SMT')) != str(smt):
        res.fail('job_env_smt:%s' % mode,
                 'RADICAL_SMT forwarded as %r, sizing used %r' % (env.get('RADICAL_SMT'), smt))

    # what reaches the pilot sandbox (agent_0.cfg) is what counts; the in-memory
    # copy kept in the pilot dict must say the same
    a_mem, a_file = pilot.get('cfg'), out['agent_file']
    if a_mem is not None and a_file is not None:
        for key in ('nodes', 'backup_nodes', 'cores', 'gpus', 'cores_per_node',
                    'gpus_per_node'):
            if a_mem.get(key) != a_file.get(key):
                res.fail('agent_file_differs_from_cfg:%s' % key,
                         'pilot[cfg] %r, agent_0.cfg %r' % (a_mem.get(key), a_file.get(key)))
    for where, acfg in (('agent', a_file),):
        if acfg is None:
            res.fail('agent_cfg_file_missing:%s' % mode, 'no agent_0.cfg staged')
            continue
        a_nodes, a_backup = acfg.get('nodes'), acfg.get('backup_nodes')
        if x_nodes is not None:
            check('%s_nodes' % where,        a_nodes,  n)
            check('%s_backup_nodes' % where, a_backup, backup)
            if is_int(a_nodes) and is_int(a_backup) and is_int(jd.get('node_count')) \
                    and a_nodes + a_backup != jd.get('node_count'):
                res.fail('%s_nodes_vs_job:%s' % (where, mode),
                         'agent %s+%s nodes, job %s' % (a_nodes, a_backup, jd.get('node_count')))
        for key, jkey in (('cores', 'total_cpu_count'), ('gpus', 'total_gpu_count')):
            if acfg.get(key) != jd.get(jkey):
                res.fail('%s_%s_vs_job:%s' % (where, key, mode),
                         'agent told %s=%r, job requests %s=%r'
                         % (key, acfg.get(key), jkey, jd.get(jkey)))
        if c:
            # the agent's resource manager subtracts the blocked cores itself
            a_cpn = acfg.get('cores_per_node')
            if not is_int(a_cpn) or a_cpn - f['nbc'] != c:
                res.fail('%s_cores_per_node:%s' % (where, mode),
                         'agent cores_per_node=%r, %d blocked; job sized with %d per node'
                         % (a_cpn, f['nbc'], c))
        if g:
            a_gpn = acfg.get('gpus_per_node')
            if not is_int(a_gpn) or a_gpn - f['nbg'] != g:
                res.fail('%s_gpus_per_node:%s' % (where, mode),
                         'agent gpus_per_node=%r, %d blocked; job sized with %d per node'
                         % (a_gpn, f['nbg'], g))
    # ---- the batch job as the PSI/J launcher submits it requests the same figures
    try:
        rcfg = out.get('rcfg')
        lp   = _psij_launcher()
        sch  = lp._get_schema(rcfg) if rcfg is not None else None
        if sch and lp.can_launch(rcfg, [pilot]):
            jobs = []

            class _Jex(object):
                def submit(self, job):
                    jobs.append(job)
            import threading as _mt
            real_jex = lp._jex.get(sch)
            lp._jex[sch] = _Jex()
            lp._jobs, lp._pilots, lp._lock = dict(), dict(), _mt.RLock()
            try:
                lp.launch_pilots(rcfg, [pilot])
            finally:
                lp._jex[sch] = real_jex
            r = jobs[0].spec.resources if jobs else None
            if r is None:
                res.fail('psij_job_not_submitted:%s' % mode, resource)
            else:
                res.label('psij_job_submitted')
                if r.computed_process_count != jd.get('total_cpu_count'):
                    res.fail('psij_job_cores_vs_agent:%s' % mode,
                             'the submitted job asks for %r processes (nodes %r x per node %r), the agent '
                             'is told %r cores' % (r.computed_process_count, r.node_count,
                                                   r.processes_per_node, jd.get('total_cpu_count')))
                if jd.get('node_count') and r.computed_node_count != jd.get('node_count'):
                    res.fail('psij_job_nodes_vs_agent:%s' % mode,
                             'the submitted job asks for %r nodes, sized %r'
                             % (r.computed_node_count, jd.get('node_count')))
    except Exception as e:      # noqa
        res.fail(exc_sig('psij_launch_raised:%s' % mode, e), repr(e))
    return res


# ------------------------------------------------------------------------------
def evidence_extra(col):
    return {'shipped_configs': len(L.catalog()),
            'shipped_pairs'  : len(PAIRS)}
