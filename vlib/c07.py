"""C07 - The executor finishes each task exactly once.  (DESIGN.md 4/C07)"""
from hypothesis import strategies as st

from . import boot                                    # noqa: F401
from .runner import CaseResult, Part
from . import execsim
from . import fluxsim
from . import c07_dragon

PID  = 'C07'
RULE = ('cases = 1-4 tasks in 1-3 bulks (scripted exit code, optional launch fault point: no launcher / '
        'script creation / launch-output open / spawn; optional timeout or startup_timeout) x move list '
        '(submit next bulk / run the k-th runnable activity n yield points / process k exits / cancel '
        'request for tasks / advance the virtual clock); activities = intake (work_cb), the real watcher '
        'loop, the real timeout watcher loop, one cancel handler per request.  oracle per accepted uid '
        'over the transport event log: AGENT_EXECUTING announced once and before any hand-on; '
        '#pushes to staging output + #FAILED == 1; #unschedule == 1; outcome attached and consistent with '
        'the scripted process and requests; nothing left behind at quiescence.  non-trivial = schedule '
        'in which >=2 activities were simultaneously inside their work (not idle) and a cancel, timeout '
        'or launch fault is present; distinct = canonical case')
ASSUMPTIONS = [
    'Popen executor built by its real factory and real initialize(); mt.Thread recorded-not-started and '
    'run under the baton, mt.Lock -> yielding FakeLock, sp.Popen -> FakeProc (exit decided by the harness), '
    'queue.Queue -> yielding FakeQueue, time -> virtual clock (sleep = yield), launcher and resource '
    'manager faked (find_launcher / cancel_task with yield point)',
    'atomicity between yield points: a thread switch can only happen at poll/wait/lock/queue/sleep/kill/'
    'publish/advance; races inside those sections are out of reach',
    'in-memory transport with msgpack copies; get_version shim']
NOT_REACHED = ['real signal delivery and real process groups (groups with a SIGINT-immune member are modelled)',
               'the Flux instances and the Dragon runtime themselves (stand-ins); run-time limits of the Dragon executor']
BUDGET = {'quick': 160, 'thorough': 1500}


@st.composite
def task_spec(draw):
    s = {'exit': draw(st.sampled_from([0, 0, 0, 1, 2, 127]))}
    k = draw(st.integers(0, 11))
    if k == 0:
        s['fault'] = 'no_launcher'
    elif k == 1:
        s['fault'] = 'script'
    elif k == 2:
        s['fault'] = 'open'
    elif k == 3:
        s['fault'] = 'spawn'
    if draw(st.integers(0, 3)) == 0:
        s['stubborn'] = True      # a process of the task's group handles SIGINT / SIGTERM itself
    if draw(st.integers(0, 2)) == 0:
        s['srun'] = True          # launched through Srun (its own kill routine)
    k = draw(st.integers(0, 5))
    if k == 0:
        s['timeout'] = draw(st.sampled_from([1, 5, 30]))
    elif k == 1:
        s['startup_timeout'] = draw(st.sampled_from([1, 5]))
        if draw(st.booleans()):
            s['timeout'] = draw(st.sampled_from([1, 5]))
    return s


@st.composite
def schedules(draw, spawner='POPEN'):
    nb = draw(st.integers(1, 3))
    bulks = [draw(st.lists(task_spec(), min_size=1, max_size=3)) for _ in range(nb)]
    if spawner == 'NOOP':
        # the NOOP executor "runs" sleep commands for their first argument (seconds; sleep(1) also
        # takes a unit suffix), everything else ends at once
        for b in bulks:
            for sp in b:
                if draw(st.booleans()):
                    sp['sleep_arg'] = draw(st.sampled_from(['0', '0.5', '2', '1m', '0.5s', 'x', None]))
    nt = sum(len(b) for b in bulks)
    moves = [['submit']]
    for _ in range(draw(st.integers(3, 45))):
        k = draw(st.integers(0, 19))
        if k < 6:
            moves.append(['run', draw(st.integers(0, 5)), draw(st.integers(1, 8))])
        elif k < 10:
            moves.append(['until', draw(st.integers(0, 5)),
                          draw(st.sampled_from(['poll', 'lock', 'tasks', 'kill', 'publish', 'advance',
                                                'wait', 'spawn', 'sleep', 'get']))])
        elif k < 13:
            moves.append(['exit', draw(st.integers(0, 3))])
        elif k < 16:
            moves.append(['cancel', draw(st.lists(st.integers(0, nt - 1), min_size=1, max_size=2))])
        elif k < 17:
            moves.append(['tick', draw(st.sampled_from([0.5, 1, 2, 6, 40]))])
        elif k < 18:
            moves.append(['startup', draw(st.integers(0, 3))])
        else:
            moves.append(['submit'])
    return {'kind': 'sched', 'spawner': spawner, 'bulks': bulks, 'moves': moves}


def dfs_cases(tier):
    """systematic: 1 task, cancel handler vs watcher vs intake - all choice sequences of
    bounded length over <=3 runnable activities (base-3 digits), process exits at a chosen step"""
    depth = 7 if tier == 'quick' else 9
    for exit_at in (0, 2, 4, 6):
        for cancel_at in (0, 1, 3):
            for code in range(3 ** depth):
                digits, c = [], code
                for _ in range(depth):
                    digits.append(c % 3)
                    c //= 3
                if tier == 'quick' and (code * 7 + exit_at + cancel_at) % 27:
                    continue          # quick: a fixed 1/9 sample of the enumeration
                moves = [['submit']]
                for i, d in enumerate(digits):
                    if i == cancel_at:
                        moves.append(['cancel', [0]])
                    if i == exit_at:
                        moves.append(['exit', 0])
                    moves.append(['run', d, 2])
                yield {'kind': 'dfs', 'spawner': 'POPEN', 'bulks': [[{'exit': 0}]], 'moves': moves}


def sweep_cases(tier):
    """systematic preemption sweep: activity A is stopped after i yield points, then the
    process exits (or not), then activity B runs j yield points, then everything runs out.
    A/B over {cancel handler, watcher, timeout watcher}"""
    imax = 14 if tier == 'quick' else 22
    # intake preempted after i yield points by a complete cancel request (and the process exiting)
    for i in range(imax + 10):
        for ex in ('none', 'mid', 'late'):
            for j in (0, 16):
                moves = [['submit'], ['named', 'intake', i], ['cancel', [0]], ['named', 'cancel', 60]]
                if ex == 'mid':
                    moves.append(['exit', 0])
                moves.append(['named', 'watch', j])
                moves.append(['named', 'intake', 3])
                if ex == 'late':
                    moves.append(['exit', 0])
                yield {'kind': 'sweep', 'spawner': 'POPEN', 'bulks': [[{'exit': 0}]], 'moves': moves}
    for a, b in (('cancel', 'watch'), ('watch', 'cancel'), ('to', 'watch'), ('watch', 'to'),
                 ('cancel', 'to'), ('to', 'cancel')):
        for i in range(imax):
            for j in (0, 4, 8, 16, 40):
                for ex in ('none', 'before', 'mid'):
                    spec = {'exit': 0}
                    if 'to' in (a, b):
                        spec['timeout'] = 1
                    moves = [['submit'], ['named', 'intake', 60]]
                    if ex == 'before':
                        moves.append(['exit', 0])
                    if 'to' in (a, b):
                        moves.append(['tick', 5])
                    if 'cancel' in (a, b):
                        moves.append(['cancel', [0]])
                    moves.append(['named', a, i])
                    if ex == 'mid':
                        moves.append(['exit', 0])
                    moves.append(['named', b, j])
                    yield {'kind': 'sweep', 'spawner': 'POPEN', 'bulks': [[spec]], 'moves': moves}


def sweep2_cases(tier):
    """two running tasks in one watcher pass: one exits on its own, the other one's cancel (or
    run-time limit) is in flight - stopped after i yield points - when the watcher makes its pass.
    Both orders of the two tasks in the watch list."""
    imax = 14 if tier == 'quick' else 22
    for who in ('cancel', 'to'):
        for victim in (0, 1):            # the task canceled / timed out; the other one exits
            other = 1 - victim
            for i in range(imax):
                for ex in ('before', 'mid', 'none'):
                    for pre in (0, 40):      # the watcher has (not) taken both tasks over before
                        specs = [{'exit': 0}, {'exit': 0}]
                        if who == 'to':
                            specs[victim]['timeout'] = 1
                        moves = [['submit'], ['named', 'intake', 60]]
                        if pre:
                            moves.append(['named', 'watch', pre])
                        if ex == 'before':
                            moves.append(['exit', other])
                        if who == 'to':
                            moves.append(['tick', 5])
                        else:
                            moves.append(['cancel', [victim]])
                        moves.append(['named', who, i])
                        if ex == 'mid':
                            # `other` is the only/other live process: index among live ones
                            moves.append(['exit', other])
                        moves.append(['named', 'watch', 40])
                        yield {'kind': 'sweep', 'spawner': 'POPEN', 'bulks': [specs], 'moves': moves}


def startup_cases(tier):
    """a task with a start-up limit reports its start-up in time, then runs longer than that
    limit: it must not be killed by the start-up limit (with a run-time limit: only by that one)"""
    for su in (1, 5):
        for to in (0, 5, 30):
            for tick in (0.5, 2, 7, 40):
                for watch_first in (0, 40):
                    for late_exit in (True, False):
                        spec = {'exit': 0, 'startup_timeout': su}
                        if to:
                            spec['timeout'] = to
                        moves = [['submit'], ['named', 'intake', 60]]
                        if watch_first:
                            moves.append(['named', 'to', watch_first])
                        moves += [['startup', 0], ['named', 'to', 40], ['tick', tick], ['named', 'to', 40],
                                  ['named', 'watch', 40]]
                        if late_exit:
                            moves += [['exit', 0], ['named', 'watch', 40]]
                        yield {'kind': 'sweep', 'spawner': 'POPEN', 'bulks': [[spec]], 'moves': moves}


def limit_cases(tier):
    """a task with only a start-up limit reports its start-up (which ends its limit); another task
    with a run-time limit then overruns it: that one must still be stopped"""
    for su in (1, 5):
        for to in (1, 5):
            for first in (0, 1):
                for tick in (7, 40):
                    for n_other in (0, 2):
                        a = {'exit': 0, 'startup_timeout': su}
                        b = {'exit': 0, 'timeout': to}
                        specs = ([a, b] if first == 0 else [b, a]) + [{'exit': 0}] * n_other
                        yield {'kind': 'sweep', 'spawner': 'POPEN', 'bulks': [specs],
                               'moves': [['submit'], ['named', 'intake', 60 * len(specs)],
                                         ['named', 'to', 40], ['startup', first], ['named', 'to', 40],
                                         ['tick', tick], ['named', 'to', 80], ['named', 'watch', 80]]}


def burst_cases(tier):
    """more tasks are launched between two passes of the process watcher than it takes over in one
    pass (its bulk limit is 100): none may be lost"""
    for n in (100, 101, 130):
        for code in (0, 1):
            yield {'kind': 'sweep', 'spawner': 'POPEN', 'bulks': [[{'exit': code} for _ in range(n)]],
                   'moves': [['submit'], ['named', 'intake', 30 * n]]}


def parts(tier):
    return [
        # (cheap and constructed parts first: a wall-clock budget hit leaves the long random part short)
        Part('flux_pipeline', fluxsim.cases(), quick=300, thorough=2500),
        Part('dragon_executor', c07_dragon.cases(), quick=300, thorough=2500),
        Part('noop_schedules', schedules(spawner='NOOP'), quick=40, thorough=200),
        Part('startup_report', enum=startup_cases),
        Part('limit_after_startup_report', enum=limit_cases),
        Part('launch_bursts', enum=burst_cases),
        Part('one_task_interleavings', enum=dfs_cases),
        Part('preemption_sweep', enum=sweep_cases),
        Part('two_task_sweep', enum=sweep2_cases),
        Part('popen_schedules', schedules(), quick=300, thorough=2500),
    ]


def normalise(case):
    if isinstance(case, dict) and case.get('kind') == 'fluxsim':
        return fluxsim.normalise(case)
    if isinstance(case, dict) and case.get('kind') == 'dragon':
        return c07_dragon.normalise(case)
    try:
        case = dict(case)
        case['bulks'] = [b for b in case.get('bulks', []) if b]
        if not case['bulks']:
            return None
        mv = []
        for m in case.get('moves', []):
            if not isinstance(m, list) or not m:
                continue
            if m[0] in ('until', 'named') and len(m) < 3:
                continue
            if m[0] in ('run', 'exit', 'tick', 'startup') and len(m) < 2:
                continue
            if m[0] == 'cancel' and (len(m) < 2 or not m[1]):
                continue
            mv.append(m)
        case['moves'] = mv
        return case
    except Exception:
        return None


def noop_view(case):
    if case.get('spawner') == 'NOOP':
        # NOOP has no cancel / timeout / launch faults: success path only
        case = dict(case)
        case['bulks'] = [[({'exit': 0, 'sleep_arg': sp['sleep_arg']} if isinstance(sp, dict) and
                           'sleep_arg' in sp else {'exit': 0}) for sp in b] for b in case['bulks']]
        case['moves'] = [m for m in case['moves'] if m[0] != 'cancel']
    return case


def run_case(case):
    if case.get('kind') == 'fluxsim':
        return fluxsim.run_case_for(PID, case)
    if case.get('kind') == 'dragon':
        return c07_dragon.run(case)
    case = noop_view(case)
    sim = execsim.run_schedule(case)
    res = CaseResult()
    seen = set()
    for p, sig, msg in sim.problems:
        if p == PID and (sig, msg) not in seen:
            seen.add((sig, msg))
            res.fail(sig, msg)
    special = any(sim.tasks[u].get('fault') or sim.tasks[u].get('timeout') or
                  sim.tasks[u].get('startup_timeout') for u in sim.order) or bool(sim.cancel_req)
    res.nontrivial = bool(sim.coincide >= 1 and special)
    res.label('spawner=%s' % case.get('spawner', 'POPEN'), 'kind=%s' % case.get('kind'))
    for u in sim.order:
        if u in sim.accepted:
            res.label('ending=%s' % sim.ending(u))
        else:
            res.label('filtered_before_intake')
    if sim.coincide:
        res.label('coinciding_activities')
    return res
