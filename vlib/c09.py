"""C09 - Launch commands enact the placement they were given.  (DESIGN.md 4/C09, A.4)

Drive : every launch-method class through the real `ResourceManager.
        _prepare_launch_methods` -> `LaunchMethod.create` -> sub-class `__init__`
        -> (replaced base `__init__`: store arguments, real `init_from_scratch`
        answered from a generated platform, real `init_from_info`), then the
        real `find_launcher` / `can_launch` / `get_launch_cmds` /
        `get_launcher_env` / `get_rank_cmd` for 1-5 tasks on the SAME instance.
Oracle: the command and the files it refers to are interpreted by a small CLI
        interpreter per launcher (vlib/c09_cli.py) into (process count, node
        multiset or set, per-rank cores/GPUs where expressed) and compared with
        the placement; history independence against a fresh instance.
"""
import os
import copy
import json

from hypothesis import strategies as st

from . import boot                                    # noqa: F401
from .runner import CaseResult, Part, exc_sig
from . import c09_env as env
from . import c09_cli as cli

import radical.utils as ru
import radical.pilot as rp

from radical.pilot.resource_config import Slot

PID  = 'C09'
RULE = ('case = (launch method + flavour/platform answers, launch order, 1-5 placements issued through the '
        'same launcher instance); placement = 1-64 ranks over 1-50 nodes built in the slot format the '
        'launchers read (JSRUN: resource sets produced by the real ContinuousJsrun.schedule_task on a '
        'partly busy hollow scheduler); non-trivial = the judged command belongs to a task with >=2 ranks '
        'on >=2 nodes unevenly distributed, or with more than 42 ranks or nodes (host-file / node-file '
        'threshold), or issued after >=1 other task on the same instance; distinct = (launcher, flavour '
        'flags, per task: sorted ranks-per-node profile, cores/gpus per rank, contiguity, order class)')
ASSUMPTIONS = [
    'LaunchMethod.__init__ (registry, environment probing) is replaced by: store the same attributes, '
    'in-memory registry lookup, direct call of the real init_from_scratch (no ru.EnvProcess fork), real '
    'init_from_info; ru.which / ru.sh_callout answer from the generated platform description',
    'PRTE._configure (starts DVM processes) is not run: its lm_info is generated in the shape it returns',
    'ResourceManager and ContinuousJsrun are built hollow (constructor fields copied); their '
    '_prepare_launch_methods / find_launcher / schedule_task / _find_resources / _change_slot_states are real',
    'launcher CLIs are interpreted by vlib/c09_cli.py from their public documentation (DESIGN A.4): '
    'MPT mpirun starts -np processes per listed host; PALS mpiexec fills the host file in order with --ppn '
    'ranks per host and --cpu-bind list entries are read per global rank; ibrun builds a host list with '
    'IBRUN_TASKS_PER_NODE entries per node and -o indexes it',
    'radical.utils (create_hostfile, sh_quote) as installed; get_version shim']
NOT_REACHED = [
    'PRTE DVM start-up (_configure) and launcher cancel_task are not exercised',
    'core/GPU pinning of launchers that cannot pin on the command line (mpirun -host, srun, prun, '
    'jsrun resource-set mode, aprun, ibrun, ssh): only process count and nodes are judged',
    'IBRUN: only the process count and the node addressed by the offset are judged',
    'PALS --cpu-bind list is judged under the reading most favourable to the code (one entry per global rank)',
    'Flux and Dragon launch methods (not part of the property statement)']
BUDGET = {'quick': 120, 'thorough': 1500}

THRESHOLD = 42

LM_FAMILY = {
    'FORK': 'FORK', 'SSH': 'SSH', 'RSH': 'RSH',
    'MPIRUN': 'MPIRUN', 'MPIRUN_MPT': 'MPIRUN', 'MPIRUN_RSH': 'MPIRUN',
    'MPIRUN_CCMRUN': 'MPIRUN', 'MPIRUN_DPLACE': 'MPIRUN',
    'MPIEXEC': 'MPIEXEC', 'MPIEXEC_MPT': 'MPIEXEC',
    'SRUN': 'SRUN', 'APRUN': 'APRUN', 'CCMRUN': 'CCMRUN', 'IBRUN': 'IBRUN',
    'JSRUN': 'JSRUN', 'JSRUN_ERF': 'JSRUN', 'PRTE': 'PRTE',
}
SINGLE_RANK_ONLY = ('FORK', 'SSH', 'RSH')
# launchers which leave node selection to the batch system when they name none
DELIBERATE_EXC = (RuntimeError, ValueError, AssertionError, NotImplementedError)

LM_WEIGHTED = (['FORK', 'SSH', 'RSH', 'APRUN', 'CCMRUN', 'IBRUN', 'IBRUN', 'PRTE', 'PRTE',
                'JSRUN', 'JSRUN', 'JSRUN_ERF', 'JSRUN_ERF', 'SRUN', 'SRUN', 'SRUN',
                'MPIRUN', 'MPIRUN', 'MPIRUN_MPT', 'MPIRUN_MPT', 'MPIRUN_RSH', 'MPIRUN_CCMRUN',
                'MPIRUN_DPLACE', 'MPIEXEC', 'MPIEXEC', 'MPIEXEC', 'MPIEXEC', 'MPIEXEC_MPT',
                'MPIEXEC_MPT'])


# ------------------------------------------------------------------------------
# generator
#
@st.composite
def placement(draw, plat, single_only=False):
    n, cpn, gpn = plat['nodes'], plat['cpn'], plat['gpn']
    cpr = draw(st.sampled_from([1, 1, 1, 2, 2, 3, 4]))
    cpr = min(cpr, cpn)
    cap = max(1, cpn // cpr)                 # ranks a node can hold
    shapes = ['single', 'even', 'uneven', 'uneven']
    if n > THRESHOLD:
        shapes += ['wide', 'wide']
    if cap * n > THRESHOLD:
        shapes += ['dense']
    if single_only:
        shapes = ['single', 'single', 'single', 'even']
    shape = draw(st.sampled_from(shapes))

    if shape == 'single' or n == 1 and shape in ('uneven', 'wide'):
        counts = [1] if shape == 'single' else [draw(st.integers(1, min(cap, 8)))]
    elif shape == 'even':
        k = draw(st.integers(1, min(n, 8)))
        m = draw(st.integers(1, min(cap, max(1, 64 // k), 8)))
        counts = [m] * k
    elif shape == 'uneven':
        k = draw(st.integers(2, min(n, 8)))
        counts = [draw(st.integers(1, min(cap, 8))) for _ in range(k)]
        if len(set(counts)) == 1 and cap > 1:
            i = draw(st.integers(0, k - 1))
            counts[i] = counts[i] % min(cap, 8) + 1
    elif shape == 'wide':
        k = draw(st.integers(THRESHOLD + 1, n))
        counts = [1] * k
        if cap > 1:
            for _ in range(draw(st.integers(0, 64 - k))):
                counts[draw(st.integers(0, k - 1))] += 1
            counts = [min(c, cap) for c in counts]
    else:   # dense: more than 42 ranks on few nodes
        total = draw(st.integers(THRESHOLD + 1, min(64, cap * n)))
        k = draw(st.integers(-(-total // cap), min(n, max(-(-total // cap), 6))))
        counts = [total // k] * k
        for i in range(total - sum(counts)):
            counts[i % k] += 1
        if k > 1 and draw(st.booleans()) and counts[0] < cap and counts[-1] > 1:
            counts[0] += 1
            counts[-1] -= 1

    k = len(counts)
    if draw(st.booleans()):
        start = draw(st.integers(0, n - k))
        nodes = list(range(start, start + k))
    else:
        nodes = sorted(draw(st.lists(st.integers(0, n - 1), min_size=k, max_size=k, unique=True)))
    if single_only and plat.get('local_first') and draw(st.integers(0, 3)):
        nodes = sorted(set([0] + nodes[1:]))
        counts = counts[:len(nodes)]

    layout = draw(st.sampled_from(['packed', 'packed', 'offset', 'gappy', 'random']))
    perm = draw(st.permutations(list(range(cpn)))) if layout == 'random' else None
    off  = draw(st.integers(0, cpn - 1)) if layout == 'offset' else 0
    gpr  = draw(st.sampled_from([0, 0, 1, 1, 2])) if gpn else 0
    gpr  = min(gpr, gpn)
    goff = draw(st.integers(0, max(0, gpn - 1)))

    ranks = []
    for ni, cnt in zip(nodes, counts):
        for j in range(cnt):
            if layout == 'random':
                rot = ni % cpn
                pool = perm[rot:] + perm[:rot]
                cores = sorted(pool[j * cpr:(j + 1) * cpr])
            elif layout == 'gappy' and 2 * cpr * cnt <= cpn:
                cores = [2 * (j * cpr + i) + (ni % 2) for i in range(cpr)]
            else:
                base = off if (off + cpr * cnt) <= cpn else 0
                cores = [base + j * cpr + i for i in range(cpr)]
            gpus = sorted(set((goff + j * gpr + i) % gpn for i in range(gpr))) if gpr else []
            ranks.append([ni, cores, gpus])

    order = draw(st.sampled_from(['grouped'] * 5 + ['reversed', 'interleaved']))
    if order == 'reversed':
        ranks = ranks[::-1]
    elif order == 'interleaved' and len(ranks) > 2:
        ranks = ranks[0::2] + ranks[1::2]

    return {'ranks'    : ranks,
            'threading': draw(st.sampled_from(['', '', 'OpenMP'])),
            'gpu_type' : draw(st.sampled_from(['', 'CUDA'])),
            'mem'      : draw(st.sampled_from([0, 0, 512])),
            'use_mpi'  : draw(st.sampled_from([None, None, True, False])),
            'slot_obj' : draw(st.sampled_from([False, False, False, True])),
            'args'     : draw(st.sampled_from([[], ['-x', '1'], ['a b', '$HOME']])),
            'gpu_share': gpr == 1 and draw(st.sampled_from([False, False, True])),
            'from_reg' : draw(st.booleans())}


@st.composite
def jsrun_request(draw, plat):
    n, cpn, gpn = plat['nodes'], plat['cpn'], plat['gpn']
    smt = plat.get('smt', 1)
    cpr = min(cpn, draw(st.sampled_from([1, 1, 2, 2, 4])) * draw(st.sampled_from([1, smt])))
    cap = max(1, cpn // cpr)
    gpr_num, gpr_den = draw(st.sampled_from([(0, 1), (0, 1), (1, 1), (1, 1), (2, 1), (2, 1), (3, 1), (1, 2), (1, 4)]))
    if not gpn or gpr_num > gpn:
        gpr_num, gpr_den = 0, 1
    ranks = draw(st.sampled_from([1, 1, 2, 3, 4, 6, 8, 12, 16, 24, 43, 48, 64]))
    ranks = max(1, min(ranks, cap * n))
    if gpr_den > 1:
        ranks = max(gpr_den, ranks - ranks % gpr_den)
    return {'js'       : {'ranks': ranks, 'cpr': cpr, 'gpr': [gpr_num, gpr_den]},
            'threading': draw(st.sampled_from(['', '', 'OpenMP'])),
            'gpu_type' : draw(st.sampled_from(['', 'CUDA'])),
            'args'     : [],
            'from_reg' : draw(st.booleans())}


@st.composite
def cases(draw, lms=None):
    lm  = draw(st.sampled_from(lms or LM_WEIGHTED))
    fam = LM_FAMILY[lm]
    big = draw(st.sampled_from([False, False, True]))
    if fam == 'SRUN':
        big = draw(st.booleans())
    if fam in SINGLE_RANK_ONLY:
        big = False
    if big:
        nodes = draw(st.integers(THRESHOLD + 1, 50))
    else:
        nodes = draw(st.sampled_from([1, 2, 2, 3, 4, 5, 8, 12, 20, 42]))
    plat = {'nodes'   : nodes,
            'cpn'     : draw(st.sampled_from([4, 8, 16, 16, 32, 64])),
            'gpn'     : draw(st.sampled_from([0, 1, 2, 4, 6, 8])),
            'smt'     : draw(st.sampled_from([1, 1, 2, 4])),
            'idx_base': draw(st.sampled_from([0, 0, 1])),
            'names'   : draw(st.sampled_from(['node', 'nid', 'dash', 'fqdn', 'hostlike'] +
                                             (['hostlike'] * 3 if fam in ('FORK', 'SSH', 'RSH') else []))),
            'req_gpus': draw(st.booleans()),
            'exact'   : draw(st.booleans()),
            'os_req'  : draw(st.booleans()),
            'resource': draw(st.sampled_from(['local.localhost', 'local.localhost',
                                              'princeton.traverse', 'tacc.frontera'])),
            'local_first': fam == 'FORK' or draw(st.sampled_from([False, False, True]))}
    if fam == 'JSRUN':
        plat['cpn'] = draw(st.sampled_from([8, 16, 42, 64]))
        plat['gpn'] = draw(st.sampled_from([0, 2, 4, 6]))

    # MPI flavour and the options `mpiexec --help` lists decide the host syntax:
    # construct each syntax class instead of hoping for it
    mpi  = draw(st.sampled_from(['OMPI', 'OMPI', 'HYDRA', 'SPECTRUM', 'PALS', 'INTEL', 'MVAPICH']))
    opts = draw(st.sampled_from([['-rf'], ['-rf', '--oversubscribe'], ['-f'], [],
                                 ['--oversubscribe'], ['-rf', '-f'], ['-f', '--oversubscribe']]))
    if fam == 'MPIEXEC':
        syntax = draw(st.sampled_from(['rankfile', 'pals', 'colon', 'slots']))
        if syntax == 'rankfile':
            opts = draw(st.sampled_from([['-rf'], ['-rf', '--oversubscribe'], ['-rf', '-f']]))
        elif syntax == 'pals':
            mpi  = 'PALS'
            opts = draw(st.sampled_from([[], ['-f'], ['--oversubscribe']]))
        elif syntax == 'colon':
            mpi  = draw(st.sampled_from(['HYDRA', 'INTEL', 'MVAPICH', 'OMPI']))
            opts = draw(st.sampled_from([['-f'], ['-f', '--oversubscribe']]))
        else:
            mpi  = draw(st.sampled_from(['OMPI', 'SPECTRUM', 'HYDRA']))
            opts = draw(st.sampled_from([[], ['--oversubscribe']]))
    ans = {'mpi'         : mpi,
           'version_opt' : draw(st.sampled_from(['-V', '-V', '--version', '-info'])),
           'mpiexec_opts': opts,
           'slurm_version': draw(st.sampled_from(['17.11.2', '18.08.7', '19.05.5', '22.05.8',
                                                  '22.05.8', '23.02.1']))}

    lm_cfg = {}
    if fam == 'IBRUN' and draw(st.integers(0, 2)) == 0:
        lm_cfg = {'options': {'tasks_per_node': draw(st.sampled_from([1, 4, plat['cpn']]))}}
    if fam == 'PRTE':
        lm_cfg = {'dvm_count': draw(st.integers(1, min(3, nodes)))}

    if fam in SINGLE_RANK_ONLY:
        # the configured order ends with a launcher that can start anything
        post  = draw(st.sampled_from([[], [], ['MPIRUN'], ['SRUN'], ['MPIEXEC']]))
        order = [lm] + post
    else:
        pre   = draw(st.sampled_from([[], [], [], ['FORK'], ['SSH'], ['FORK', 'RSH'], ['RSH', 'SSH']]))
        order = pre + [lm]

    n_tasks = draw(st.integers(1, 5))
    if fam == 'IBRUN':
        # commands depend on the task at hand only: several tasks of different sizes per launcher
        n_tasks = draw(st.integers(3, 6))
        plat['nodes'] = max(plat['nodes'], 3) if not big else plat['nodes']
    tasks = []
    for _ in range(n_tasks):
        if fam == 'JSRUN':
            tasks.append(draw(jsrun_request(plat)))
        else:
            tasks.append(draw(placement(plat, single_only=fam in SINGLE_RANK_ONLY
                                        and draw(st.integers(0, 3)) > 0)))
    case = {'lm': lm, 'plat': plat, 'answers': ans, 'lm_cfg': lm_cfg, 'order': order,
            'tasks': tasks}
    if fam == 'JSRUN':
        case['busy'] = draw(st.lists(st.tuples(st.integers(0, nodes - 1), st.integers(0, 63),
                                               st.integers(1, 6)), max_size=6))
        case['busy'] = [list(b) for b in case['busy']]
        case['scattered'] = draw(st.booleans())
    return case


GROUPS = [   # (part name, launch methods, quick cases, thorough cases per shard)
    ('single_rank_launchers', ['FORK', 'SSH', 'RSH'],                                   120,  500),
    ('mpirun',  ['MPIRUN', 'MPIRUN_MPT', 'MPIRUN_MPT', 'MPIRUN_RSH', 'MPIRUN_CCMRUN', 'MPIRUN_DPLACE'], 330, 1800),
    ('mpiexec', ['MPIEXEC', 'MPIEXEC', 'MPIEXEC_MPT'],                                   360, 2000),
    ('srun',    ['SRUN'],                                                               170,  900),
    ('batch_placed', ['APRUN', 'CCMRUN', 'IBRUN', 'IBRUN'],                             220,  900),
    ('jsrun',   ['JSRUN', 'JSRUN_ERF'],                                                 220, 1100),
    ('prte',    ['PRTE'],                                                               130,  600),
]


def parts(tier):
    return [Part(name, cases(lms), quick=q, thorough=t) for name, lms, q, t in GROUPS]


# ------------------------------------------------------------------------------
# building tasks from case data (total: every sub-structure of a case is a case)
#
def _ints(xs):
    return [int(x) for x in xs if isinstance(x, (int, float)) and not isinstance(x, bool)] \
        if isinstance(xs, list) else []


def resolve_ranks(plat, spec, part_nodes=None):
    """-> [(node position, cores, gpus)] with uniform cores/gpus per rank"""
    n, cpn, gpn = int(plat['nodes']), int(plat['cpn']), int(plat['gpn'])
    raw = spec.get('ranks') or [[0, [0], []]]
    out = []
    first = raw[0] if isinstance(raw[0], list) and len(raw[0]) == 3 else [0, [0], []]
    cpr = max(1, min(cpn, len(set(c % cpn for c in _ints(first[1]))) or 1))
    gpr = min(gpn, len(set(g % gpn for g in _ints(first[2])))) if gpn else 0
    for r in raw:
        if not (isinstance(r, list) and len(r) == 3):
            r = [0, [0], []]
        ni = int(r[0]) % n if isinstance(r[0], int) else 0
        if part_nodes:
            ni = part_nodes[ni % len(part_nodes)]
        cores = sorted(set(c % cpn for c in _ints(r[1])))[:cpr]
        c = (cores[-1] + 1) if cores else 0
        while len(cores) < cpr:
            if c % cpn not in cores:
                cores.append(c % cpn)
            c += 1
        gpus = sorted(set(g % gpn for g in _ints(r[2])))[:gpr] if gpn else []
        g = (gpus[-1] + 1) if gpus else 0
        while len(gpus) < gpr:
            if g % gpn not in gpus:
                gpus.append(g % gpn)
            g += 1
        out.append((ni, sorted(cores), sorted(gpus)))
    return out, cpr, gpr


def make_td(spec, ranks, cpr, gpr):
    d = {'executable'    : '/bin/app',
         'arguments'     : [str(a) for a in (spec.get('args') or [])],
         'ranks'         : ranks,
         'cores_per_rank': cpr,
         'gpus_per_rank' : float(gpr),
         'threading_type': spec.get('threading') or '',
         'gpu_type'      : spec.get('gpu_type') or '',
         'mem_per_rank'  : int(spec.get('mem') or 0)}
    if spec.get('use_mpi') is not None:
        d['use_mpi'] = bool(spec['use_mpi'])
    td = rp.TaskDescription(d)
    td.verify()
    return td.as_dict()


class Placement(object):
    """the reference: what the task's slots say, per rank"""
    def __init__(self):
        self.hosts = []      # node name per rank
        self.idx   = []      # node index per rank
        self.cores = []      # core ids per rank
        self.gpus  = []      # gpu ids per rank

    @property
    def ranks(self):
        return len(self.hosts)

    def profile(self):
        cnt = {}
        for h in self.hosts:
            cnt[h] = cnt.get(h, 0) + 1
        return cnt


def build_task(case, rm_info, i, spec, sbox, js_sched=None, fam=None):
    """-> (task dict, Placement) or (None, reason)"""
    plat  = case['plat']
    nodes = rm_info.node_list
    pl    = Placement()

    if fam == 'JSRUN':
        js  = spec.get('js') or {}
        num, den = (js.get('gpr') or [0, 1])[:2]
        den = max(1, int(den))
        gpr = float(int(num)) / den
        ranks = max(1, int(js.get('ranks') or 1))
        cpr   = max(1, min(int(js.get('cpr') or 1), int(plat['cpn'])))
        if gpr > plat['gpn']:
            gpr = 0.
        td = make_td(spec, ranks, cpr, 0)
        td['gpus_per_rank'] = gpr
        task = {'uid': 'task.%06d' % i, 'description': td, 'task_sandbox_path': sbox,
                'partition': 0}
        try:
            slots, _ = js_sched.schedule_task(task)
        except (ValueError, AssertionError) as e:
            return None, 'unschedulable:%s' % type(e).__name__
        if not slots:
            return None, 'no_resources'
        js_sched._change_slot_states(slots, env.rpc.BUSY)
        task['slots'] = json.loads(json.dumps(slots))
        for rs in slots:
            for k, cmap in enumerate(rs['cores']):
                pl.hosts.append(rs['node_name'])
                pl.idx.append(rs['node_index'])
                pl.cores.append(sorted(cmap))
                pl.gpus.append(sorted(rs['gpus'][k]) if rs['gpus'] else [])
        if pl.ranks != ranks:
            return None, 'scheduler_rank_mismatch'
        return task, pl

    part_nodes = None
    partition  = 0
    if fam == 'PRTE':
        dvms = max(1, int((case.get('lm_cfg') or {}).get('dvm_count') or 1))
        dvms = min(dvms, len(nodes))
        per  = -(-len(nodes) // dvms)
        raw0 = (spec.get('ranks') or [[0, [0], []]])[0]
        first = (raw0[0] if isinstance(raw0, list) and raw0 and isinstance(raw0[0], int) else 0) \
            % len(nodes)
        partition  = first // per
        part_nodes = list(range(partition * per, min(len(nodes), (partition + 1) * per)))

    rr, cpr, gpr = resolve_ranks(plat, spec, part_nodes)
    # a rank may hold a share of one GPU (gpus_per_rank 0.5): its slot names that GPU with the
    # share as occupation, as the Continuous scheduler writes it
    share = 0.5 if (spec.get('gpu_share') and gpr == 1) else 1.0
    slots = []
    for ni, cores, gpus in rr:
        node = nodes[ni]
        d = {'cores'     : [{'index': c, 'occupation': 1.0} for c in cores],
             'gpus'      : [{'index': g, 'occupation': share} for g in gpus],
             'lfs'       : 0,
             'mem'       : 0,
             'node_index': node['index'],
             'node_name' : node['name'],
             'version'   : 1}
        slots.append(d)
        pl.hosts.append(node['name'])
        pl.idx.append(node['index'])
        pl.cores.append(list(cores))
        pl.gpus.append(list(gpus))
    td   = make_td(spec, len(slots), cpr, gpr * share)
    task = {'uid': 'task.%06d' % i, 'description': td, 'slots': slots,
            'task_sandbox_path': sbox, 'partition': partition,
            '_slot_obj': bool(spec.get('slot_obj'))}
    return task, pl


def materialise(task, sbox=None):
    """a private copy of the (plain data) task, as the executor would hold it:
    slots as plain dicts (after transport) or as Slot objects"""
    t = json.loads(json.dumps(task))
    if t.pop('_slot_obj', False):
        t['slots'] = [Slot(s) for s in t['slots']]
    if sbox:
        t['task_sandbox_path'] = sbox
    return t


# ------------------------------------------------------------------------------
# one launch through a resource manager
#
class Outcome(object):
    def __init__(self):
        self.refused  = None      # reason string
        self.lname    = None
        self.cmd      = None
        self.parsed   = None
        self.lenv     = None
        self.rank_cmd = None


def launch(res, rm, task, tag_hint, sbox=None):
    """find_launcher + get_launch_cmds + env/rank cmds on a private copy of the task"""
    out  = Outcome()
    task = materialise(task, sbox)
    exec_path = '$RP_TASK_SANDBOX/%s.exec.sh' % task['uid']
    try:
        launcher, lname = rm.find_launcher(task)
    except Exception as e:                  # noqa
        res.fail(exc_sig('can_launch_raised:%s' % tag_hint, e), repr(e))
        out.refused = 'can_launch_raised'
        return out
    if not launcher:
        out.refused = 'can_launch_false'
        return out
    out.lname = lname
    fam = LM_FAMILY.get(lname, lname)
    try:
        cmds = launcher.get_launch_cmds(task, exec_path)
    except DELIBERATE_EXC as e:
        out.refused = 'raised:%s' % type(e).__name__
        return out
    except Exception as e:                  # noqa
        res.fail(exc_sig('launch_cmd_raised:%s' % fam, e), repr(e))
        out.refused = 'crashed'
        return out
    out.cmd = ' '.join(str(c) for c in ru.as_list(cmds))
    # the executor substitutes nothing in the command; $RP_TASK_SANDBOX is expanded
    # by the shell only in the exec path, which the interpreters treat as opaque
    out.parsed = cli.INTERPRETERS[fam](out.cmd, exec_path)
    try:
        out.lenv     = list(launcher.get_launcher_env())
        out.rank_cmd = launcher.get_rank_cmd()
    except Exception as e:                  # noqa
        res.fail(exc_sig('launcher_env_raised:%s' % fam, e), repr(e))
    return out


# ------------------------------------------------------------------------------
# the oracle
#
def judge(res, case, rm, task, pl, out):
    fam = LM_FAMILY.get(out.lname, out.lname)
    p   = out.parsed
    tag = '%s/%s' % (fam, p.mode) if p.mode else fam
    ranks = pl.ranks
    want  = pl.profile()
    info  = rm.info

    def fail(clause, msg):
        res.fail('%s:%s' % (clause, tag),
                 '%s | cmd: %s | placement: %s' % (msg, out.cmd, _pl_text(pl)))

    for what, detail in p.errors:
        fail('uninterpretable:%s' % what, detail)
    if p.errors:
        return tag

    # ---- the command is written for the mpiexec which is installed: a Cray PALS mpiexec (found
    # under .../pals/...) reads plain host names with --ppn, not Open MPI's `slots=` / Hydra's `host:n` host files
    # (a rank file is used whenever the installed mpiexec lists -rf)
    if fam == 'MPIEXEC' and (case.get('answers') or {}).get('mpi') == 'PALS' and \
            p.mode in ('hostfile_slots', 'hostfile_colon'):
        fail('syntax_of_other_mpi', 'the installed mpiexec is Cray PALS, the command uses the %s form'
             % p.mode)

    # ---- process count
    if p.procs is None:
        fail('no_process_count', 'command expresses no process count')
    elif p.procs != ranks:
        fail('process_count', 'command starts %d processes, task has %d ranks' % (p.procs, ranks))

    # ---- nodes
    named = None
    if p.hosts is not None:
        named = {}
        for h in p.hosts:
            named[h] = named.get(h, 0) + 1
    elif p.host_set is not None:
        named = {h: None for h in p.host_set}

    if fam == 'JSRUN' and p.mode == 'erf':
        # ERF names hosts by node index
        want = {}
        for i in pl.idx:
            want[str(i)] = want.get(str(i), 0) + 1

    if named is not None:
        outside = sorted(set(named) - set(want))
        omitted = sorted(set(want) - set(named))
        if outside:
            fail('node_outside_placement', 'names %s which the placement does not contain' % outside[:5])
        if omitted:
            fail('node_omitted', 'does not name %s of the placement' % omitted[:5])
        if not outside and not omitted and p.hosts is not None and p.procs == ranks:
            diff = {h: (named[h], want[h]) for h in want if named[h] != want[h]}
            if diff:
                fail('node_counts', 'processes per node (command, placement): %s'
                     % dict(sorted(diff.items())[:5]))
    else:
        if fam == 'FORK':
            local = ('localhost', ru.get_hostname())
            if any(h not in local for h in pl.hosts):
                fail('fork_not_local', 'local fork for a placement on %s' % sorted(set(pl.hosts)))
        elif fam == 'IBRUN':
            tpn = p.extra.get('tasks_per_node')
            off = p.extra.get('offset')
            if tpn and off is not None:
                pos  = off // tpn
                npos = [k for k, nd in enumerate(info.node_list) if nd['index'] in set(pl.idx)]
                if pos != npos[0]:
                    fail('ibrun_offset_node',
                         'offset %d with %d host-list entries per node addresses node #%d, the '
                         'first node of the placement is #%d' % (off, tpn, pos, npos[0]))
        elif len(info.node_list) > 1:
            # no node directive at all although the allocation has several nodes
            fail('nodes_not_named', 'command names no node; allocation has %d nodes, placement is on %s'
                 % (len(info.node_list), sorted(want)[:5]))

    if fam == 'SRUN' and p.host_set is not None:
        nn = p.extra.get('nodes')
        if nn is not None and nn != len(p.host_set):
            fail('srun_node_count', '--nodes %s with %d nodes listed' % (nn, len(p.host_set)))
        if p.extra.get('nodelist_len') != len(p.host_set):
            fail('srun_duplicate_nodes', 'node list repeats nodes')

    if fam == 'SRUN' and pl.gpus:
        # --gpus-per-task is srun's way to give each rank the GPUs of its slot (a count)
        want_g = len(pl.gpus[0])
        got_g  = p.extra.get('gpus_per_task')
        if got_g is not None and got_g != want_g:
            fail('srun_gpus_per_task', '--gpus-per-task %s, each rank of the placement holds %d GPU(s) %s'
                 % (got_g, want_g, pl.gpus[0]))
        elif got_g is None and want_g and info.get('requested_gpus'):
            fail('srun_gpus_not_requested', 'no --gpus-per-task although each rank holds %d GPU(s)' % want_g)

    if fam == 'PRTE':
        dl  = launcher_details(rm, out.lname).get('dvm_list', {})
        uri = (dl.get(task['partition']) or {}).get('dvm_uri')
        if uri is not None and p.extra.get('dvm_uri') != uri:
            fail('prte_dvm', 'dvm uri %r, partition %r has %r'
                 % (p.extra.get('dvm_uri'), task['partition'], uri))

    # ---- per-rank pinning where expressed
    if p.per_rank is not None and len(p.per_rank) == ranks:
        for r, pr in enumerate(p.per_rank):
            host_want = str(pl.idx[r]) if (fam == 'JSRUN') else pl.hosts[r]
            if pr['host'] != host_want:
                same = sorted((x['host'], tuple(x['cores'] or ())) for x in p.per_rank) == \
                       sorted(((str(pl.idx[k]) if fam == 'JSRUN' else pl.hosts[k]), tuple(pl.cores[k]))
                              for k in range(ranks))
                fail('rank_order' if same else 'rank_host',
                     'rank %d on %s, slot %d is on %s' % (r, pr['host'], r, host_want))
                break
            if pr['cores'] is not None and sorted(pr['cores']) != sorted(pl.cores[r]):
                extra = sorted(set(pr['cores']) - set(pl.cores[r]))
                fail('cores_outside_placement' if extra else 'cores_omitted',
                     'rank %d pinned to %s, slot has %s' % (r, pr['cores'], pl.cores[r]))
                break
            if pr['gpus'] is not None and sorted(pr['gpus']) != sorted(pl.gpus[r]):
                fail('rank_gpus', 'rank %d gets gpus %s, slot has %s' % (r, pr['gpus'], pl.gpus[r]))
                break
    elif p.per_rank is not None:
        fail('rank_entries', '%d rank entries for %d ranks' % (len(p.per_rank), ranks))

    if p.mode == 'pals' and 'bind_lists' in p.extra:
        lists = p.extra['bind_lists']
        if len(lists) != ranks:
            fail('rank_entries', '%d cpu-bind entries for %d ranks' % (len(lists), ranks))
        else:
            for r, cs in enumerate(lists):
                if sorted(cs) != sorted(pl.cores[r]):
                    extra = sorted(set(cs) - set(pl.cores[r]))
                    fail('cores_outside_placement' if extra else 'cores_omitted',
                         'rank %d bound to %s, slot has %s' % (r, cs, pl.cores[r]))
                    break
    return tag


def launcher_details(rm, lname):
    return getattr(rm.get_launcher(lname), '_details', None) or {}


def _pl_text(pl):
    items = ['%s:%s' % (h, c) for h, c in zip(pl.hosts, pl.cores)]
    if len(items) > 8:
        items = items[:8] + ['... %d ranks' % len(items)]
    return ' '.join(items)


def canon_cmd(cmd, sbox):
    toks = cmd.replace(sbox, '@SBOX@').split()
    return [','.join(sorted(t.split(','))) if ',' in t else t for t in toks]


def compare_history(res, tag, kind, a, sbox_a, b, sbox_b):
    """a: outcome on the shared instance, b: on a fresh one"""
    if (a.refused is None) != (b.refused is None) or \
            (a.refused is not None and a.refused != b.refused):
        res.fail('history:%s:refusal_differs:%s' % (kind, tag),
                 'shared instance: %s / fresh instance: %s' % (a.refused or a.cmd, b.refused or b.cmd))
        return
    if a.refused is not None:
        return
    if a.lname != b.lname:
        res.fail('history:%s:launcher_differs:%s' % (kind, tag), '%s vs %s' % (a.lname, b.lname))
        return
    sa, sb = a.parsed.structure(), b.parsed.structure()
    if sa != sb:
        res.fail('history:%s:structure_differs:%s' % (kind, tag),
                 'shared: %s | fresh: %s' % (a.cmd, b.cmd))
    elif canon_cmd(a.cmd, sbox_a) != canon_cmd(b.cmd, sbox_b):
        res.fail('history:%s:command_differs:%s' % (kind, tag),
                 'shared: %s | fresh: %s' % (a.cmd, b.cmd))
    if (a.lenv, a.rank_cmd) != (b.lenv, b.rank_cmd):
        res.fail('history:%s:launcher_env_differs:%s' % (kind, tag),
                 'shared: %r | fresh: %r' % ((a.lenv, a.rank_cmd), (b.lenv, b.rank_cmd)))


# ------------------------------------------------------------------------------
def _answers(case):
    a   = dict(case.get('answers') or {})
    mpi = a.get('mpi', 'OMPI')
    if mpi not in env.VERSION_TEXT:
        mpi = 'OMPI'
    a['mpi'] = mpi
    if mpi == 'PALS':
        a['which'] = {'mpiexec': '/opt/cray/pals/1.2/bin/mpiexec',
                      'mpirun' : '/opt/cray/pals/1.2/bin/mpirun'}
    a['mpiexec_opts'] = [str(x) for x in (a.get('mpiexec_opts') or [])]
    return a


_SBOX = {}


def _sandboxes():
    """one scratch tree per process (removing directories is slow here): the task
    sandboxes `shared`, `fresh`, `again` are emptied after every case"""
    top = _SBOX.get(os.getpid())
    if top is None:
        top = _SBOX[os.getpid()] = boot.fresh_dir('c09.')
        for d in ('shared', 'fresh', 'again'):
            os.makedirs(os.path.join(top, d), exist_ok=True)
    return top


def _clear_sandboxes(top):
    for d in ('shared', 'fresh', 'again'):
        with os.scandir(os.path.join(top, d)) as it:
            for e in it:
                os.unlink(e.path)


def run_case(case):
    res  = CaseResult()
    lm   = case['lm']
    fam  = LM_FAMILY[lm]
    plat = dict(case['plat'])
    plat['nodes'] = max(1, min(50, int(plat['nodes'])))
    plat['cpn']   = max(1, min(128, int(plat['cpn'])))
    plat['gpn']   = max(0, min(16, int(plat['gpn'])))
    plat['smt']   = max(1, int(plat.get('smt') or 1))
    case  = dict(case, plat=plat)
    order = [x for x in (case.get('order') or [lm]) if x in LM_FAMILY] or [lm]
    if lm not in order:
        order.append(lm)
    lm_cfgs = {lm: dict(case.get('lm_cfg') or {})}
    tasks = list(case.get('tasks') or [])[:5]
    top   = _sandboxes()
    regs  = []

    def new_rm(reg_addr=None):
        rm, addr = env.hollow_rm(plat, order, lm_cfgs, reg_addr)
        if 'PRTE' in order and 'PRTE' not in rm._launchers:
            pass
        regs.append(addr)
        for name in order:
            if name not in rm._launchers:
                # creation failed inside _prepare_launch_methods (which only logs):
                # repeat it directly so that the cause is reported
                from radical.pilot.agent.launch_method.base import LaunchMethod
                cfg = ru.Config(from_dict=dict(lm_cfgs.get(name, {})))
                cfg.pid, cfg.reg_addr, cfg.resource = 'pilot.0000', addr, plat.get('resource')
                LaunchMethod.create(name, cfg, rm.info, boot.LOG, boot.PROF)
                raise RuntimeError('launch method %s was skipped but can be created' % name)
        return rm, addr

    def seed_prte(addr):
        if 'PRTE' in order:
            dvms = max(1, min(int(lm_cfgs[lm].get('dvm_count') or 1), plat['nodes'])) \
                if lm == 'PRTE' else 1
            env.REGISTRY.setdefault(addr, {})['lm.prte'] = env.prte_lm_info(plat, dvms)

    nt = False
    tags = set()
    key_tasks = []
    try:
        with env.world(_answers(case)):
            # the shared instance
            env._reg_counter[0] += 1
            addr0 = 'mem://c09.%d' % env._reg_counter[0]
            env.REGISTRY[addr0] = {}
            seed_prte(addr0)
            rm0, _ = new_rm(addr0)
            js0 = None
            if fam == 'JSRUN':
                js0 = env.hollow_jsrun_scheduler(rm0.info, bool(case.get('scattered')))
                for b in (case.get('busy') or []):
                    if isinstance(b, list) and len(b) == 3:
                        node = js0.nodes[int(b[0]) % len(js0.nodes)]
                        for c in range(int(b[1]), int(b[1]) + max(0, int(b[2]))):
                            node['cores'][c % len(node['cores'])] = env.rpc.BUSY

            done = []          # (spec, task, pl, outcome, sandbox)
            for i, spec in enumerate(tasks):
                if not isinstance(spec, dict):
                    continue
                sbox = os.path.join(top, 'shared')
                os.makedirs(sbox, exist_ok=True)
                task, pl = build_task(case, rm0.info, i, spec, sbox, js0, fam)
                if task is None:
                    res.label('unplaced:%s' % pl)
                    continue
                out = launch(res, rm0, task, fam)
                n_before = len(done)
                done.append((spec, task, pl, out, sbox))

                prof   = sorted(pl.profile().values())
                uneven = len(prof) >= 2 and len(set(prof)) > 1
                above  = pl.ranks > THRESHOLD or len(prof) > THRESHOLD
                contig = all(c == list(range(c[0], c[0] + len(c))) for c in pl.cores)
                key_tasks.append((prof, len(pl.cores[0]), len(pl.gpus[0]), contig,
                                  out.refused or out.lname))
                if out.refused is not None:
                    res.label('refused:%s' % fam, 'refusal=%s' % out.refused)
                    if out.refused == 'can_launch_false' and fam not in SINGLE_RANK_ONLY:
                        res.label('refused_by_capable_launcher')
                else:
                    tag = judge(res, case, rm0, task, pl, out)
                    tags.add(tag)
                    res.label('lm=%s' % out.lname, 'mode=%s' % tag)
                    if out.parsed.unknown:
                        res.label('ignored_tokens')
                    if uneven:
                        res.label('uneven')
                    if above:
                        res.label('above_threshold')
                    if not contig:
                        res.label('noncontiguous_cores')
                    if fam == 'JSRUN' and any(len(rs['cores']) > 1 for rs in task['slots']):
                        res.label('jsrun_multi_rank_resource_sets')
                    if n_before:
                        res.label('after_history')
                    if uneven or above or n_before:
                        nt = True

                # ---- history independence: same task on a fresh instance
                if n_before:
                    from_reg = bool(spec.get('from_reg'))
                    if from_reg:
                        rm1, addr1 = new_rm(addr0)       # second instance from registry info
                    else:
                        env._reg_counter[0] += 1
                        addr1 = 'mem://c09.%d' % env._reg_counter[0]
                        env.REGISTRY[addr1] = {}
                        seed_prte(addr1)
                        rm1, _ = new_rm(addr1)
                    sbox1 = os.path.join(top, 'fresh')
                    os.makedirs(sbox1, exist_ok=True)
                    out1 = launch(res, rm1, task, fam, sbox1)
                    compare_history(res, fam, 'registry' if from_reg else 'fresh',
                                    out, sbox, out1, sbox1)

            # ---- the first task once more on the used instance
            if len(done) >= 2:
                spec, task, pl, out, sbox = done[0]
                sbox2 = os.path.join(top, 'again')
                os.makedirs(sbox2, exist_ok=True)
                out2 = launch(res, rm0, task, fam, sbox2)
                compare_history(res, fam, 'again', out2, sbox2, out, sbox)
    finally:
        for a in set(regs):
            env.drop_registry(a)
        _clear_sandboxes(top)

    res.nontrivial = nt
    res.label('tasks=%d' % len(key_tasks))
    flags = case.get('answers') or {}
    res.key = {'lm': lm, 'order': order, 'tags': sorted(tags), 'tasks': key_tasks,
               'smt': plat['smt'], 'mpi': flags.get('mpi'), 'opts': flags.get('mpiexec_opts'),
               'slurm': flags.get('slurm_version'), 'res': plat.get('resource'),
               'cfg': case.get('lm_cfg')}
    return res


def normalise(case):
    """candidates of the minimiser: keep only cases of the generated domain, so
    that a minimised replay reads like a real platform / placement"""
    try:
        plat = case['plat']
        n, cpn, gpn = plat['nodes'], plat['cpn'], plat['gpn']
        if not (1 <= n <= 50 and 1 <= cpn <= 128 and 0 <= gpn <= 16 and plat['smt'] >= 1):
            return None
        if case['lm'] not in LM_FAMILY or not case.get('order') or case['order'][-1] != case['lm'] \
                and case['order'][0] != case['lm']:
            return None
        if not case['tasks']:
            return None
        for t in case['tasks']:
            if LM_FAMILY[case['lm']] == 'JSRUN':
                js = t['js']
                if js['ranks'] < 1 or js['cpr'] < 1 or len(js['gpr']) != 2 or js['gpr'][1] < 1:
                    return None
                continue
            if not t['ranks']:
                return None
            cpr, gpr = len(t['ranks'][0][1]), len(t['ranks'][0][2])
            for r in t['ranks']:
                if len(r) != 3 or not (0 <= r[0] < n) or not r[1] or len(r[1]) != cpr \
                        or len(r[2]) != gpr or r[1] != sorted(set(r[1])) or r[2] != sorted(set(r[2])) \
                        or not all(0 <= c < cpn for c in r[1]) or not all(0 <= g < gpn for g in r[2]):
                    return None
        for b in case.get('busy') or []:
            if len(b) != 3:
                return None
    except (KeyError, TypeError, IndexError, AttributeError):
        return None
    return case


def evidence_extra(col):
    per_lm = {k[3:]: v for k, v in col.labels.items() if k.startswith('lm=')}
    return {'commands_judged_per_launcher': dict(sorted(per_lm.items())),
            'modes': {k[5:]: v for k, v in sorted(col.labels.items()) if k.startswith('mode=')}}
