"""C02 - A granted placement has exactly the requested shape.  (DESIGN.md 4/C02)"""
from . import boot                                    # noqa: F401
from .runner import CaseResult, Part
from . import schedsim, schedgen, nodelistsim

PID  = 'C02'
RULE = ('same scheduler-pair histories as C01 (placements are made on partially occupied pilots '
        'reached by scheduling and releasing other tasks), shape oracle per scheduler-made grant: '
        '#slots == ranks, per slot exactly max(1,cores_per_rank) distinct cores, GPUs as requested '
        '(whole: n distinct at 1.0; share: one GPU at that share), lfs/mem as requested, ranks_per_node '
        'respected, colocate only on nodes already used for the tag, oversize per-rank requests never '
        'granted; plus NodeList.find_slots shape.  non-trivial = a grant while other tasks hold '
        'resources, or spanning >1 node, or with ranks_per_node / colocate / fractional GPU, or a '
        'rejected oversize request')
ASSUMPTIONS = ['see C01 (same engine)',
               'ContinuousJsrun slots are resource sets: only rank count and core distinctness are judged']
normalise = schedgen.normalise
BUDGET = {'quick': 160, 'thorough': 1500}


def parts(tier):
    T = (tier == 'thorough')      # thorough: larger layouts, longer histories
    return [
        Part('continuous', schedgen.histories(max_ops=35 if not T else 70, big=T, app=False), quick=200, thorough=1000),
        Part('colocate', schedgen.histories(max_ops=25 if not T else 50, big=T, app=False, colo=True), quick=60, thorough=400),
        Part('jsrun_gpu_shares_lfs_mem', schedgen.histories(max_ops=20 if not T else 40, big=T, cls='jsrun', app=False,
                                                            heavy=True, gpu_focus=True), quick=50, thorough=300),
        Part('jsrun', schedgen.histories(max_ops=25 if not T else 50, big=T, cls='jsrun', app=False), quick=40, thorough=200),
        Part('nodelist', nodelistsim.nl_cases(), quick=250, thorough=2500),
        Part('nodelist_numa', nodelistsim.numa_cases(), quick=60, thorough=600),
    ]


def run_case(case):
    if case.get('kind') == 'nodelist':
        P, s = nodelistsim.run_nodelist(case)
        res = CaseResult()
        for p, sig, msg in P:
            if p == PID:
                res.fail(sig, msg)
        res.nontrivial = s['finds_ok'] >= 1 and (s['multi_slot'] > 0 or s['shared'] > 0)
        res.label('nodelist')
        if s['finds_invalid']:
            res.label('nodelist:rejected_request')
        return res
    sim = schedsim.run_history(case)
    s = sim.stats
    nt = (s['grants'] > 0 and (s['grants_shared_node'] or s['multi_node'] or s['rpn'] or
                                s['colo'] or s['frac_gpu'])) or s['oversize_rejected']
    res = schedgen.to_result(sim, PID, nt)
    res.label('cls=%s' % case.get('cls', 'continuous'))
    for k in ('multi_node', 'rpn', 'colo', 'frac_gpu', 'oversize_rejected', 'lfs_mem'):
        if s[k]:
            res.label(k)
    return res
