"""entry point: python -m vlib.run <ID> [--tier quick|thorough] [--replay path] [--jobs N]"""
import os
import sys
import argparse
import importlib
import traceback


def main():
    ap = argparse.ArgumentParser()
    ap.add_argument('pid')
    ap.add_argument('--tier', default=os.environ.get('VERIF_TIER', 'quick'),
                    choices=['quick', 'thorough'])
    ap.add_argument('--replay', default=None)
    ap.add_argument('--jobs', type=int, default=None)
    ap.add_argument('--budget', type=float, default=None,
                    help='wall guard in seconds for the generation phase '
                         '(hit => inconclusive beyond, never a violation)')
    args = ap.parse_args()
    if args.replay:
        args.replay = os.path.abspath(args.replay)

    try:
        seed = int(os.environ.get('VERIF_SEED', '1') or '1')
    except ValueError:
        seed = 1

    try:
        from vlib import boot      # noqa: F401  (must precede radical.pilot)
        from vlib import runner
        pid = args.pid.upper()
        mod = importlib.import_module('vlib.%s' % pid.lower())
        budget = args.budget
        if budget is None:
            budget = getattr(mod, 'BUDGET', {}).get(args.tier)
        rc = runner.main(mod, tier=args.tier, seed=seed, replay=args.replay,
                         budget_s=budget, jobs=args.jobs)
    except SystemExit:
        raise
    except BaseException:   # noqa
        traceback.print_exc()
        print('HARNESS-ERROR property=%s' % args.pid)
        sys.stdout.flush()
        os._exit(2)
    sys.stdout.flush()
    sys.stderr.flush()
    try:
        boot._cleanup()
    except Exception:
        pass
    os._exit(rc)


if __name__ == '__main__':
    main()
