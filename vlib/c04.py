"""C04 - The pilot scheduler neither loses nor starves tasks.  (DESIGN.md 4/C04)

The real `_schedule_tasks` loop runs continuously in a baton-passing thread; yield points at both
queue `get`s and at the idle `sleep` give every placement of submissions, completions and cancel
requests between the steps of the scheduling loop.
"""
from hypothesis import strategies as st

from . import boot                                    # noqa: F401
from .runner import Part
from . import schedsim, schedgen

PID  = 'C04'
RULE = ('scheduler-pair histories (see C01) with step-wise interleaving of the real scheduling loop; '
        'oracle from the advance/publish event log and the wait pool at quiescent points: every accepted '
        'task in exactly one of started/waiting/failed/canceled, each outcome reported at most once and '
        'never two outcomes; lone fitting waiter started; unschedulable waiter failed on the idle pilot; '
        'idle pilot starts something if every waiter fits; "can never be scheduled" only for tasks that '
        'do not fit the idle pilot; targeted priority scenarios (blocker, two waiters of different '
        'priority of which only one fits after the release).  Reference fit is conservative (DESIGN A.2). '
        'non-trivial = some task waited at a quiescent point, or was canceled while waiting, or was '
        'failed by the scheduler; priority scenarios always; distinct = canonical case')
ASSUMPTIONS = ['see C01 (same engine); progress clauses only in scattered mode, for tasks without '
               'colocate tags / named environments, on the Continuous scheduler',
               'quiescent point = the loop completed two consecutive idle iterations with both queues empty']
NOT_REACHED = ['raptor forwarding of tasks inside the scheduler (covered by C20 where built)',
               'FIFO / global priority order are not demanded (docs: not strict)']
normalise = schedgen.normalise
BUDGET = {'quick': 160, 'thorough': 1500}


@st.composite
def prio_scenarios(draw):
    n = draw(st.integers(1, 4))
    c = draw(st.sampled_from([2, 3, 4, 6, 8]))
    layout = {'nodes': n, 'cores': c, 'gpus': 0, 'lfs': 0, 'mem': 0,
              'blocked_cores': [], 'blocked_gpus': []}
    lo_c = c // 2 + 1
    rh = draw(st.integers(1, n))
    rl = draw(st.integers(max(1, n - rh + 1), n))
    ph = draw(st.integers(0, 3))
    pl = draw(st.integers(-2, ph - 1))
    H = {'ranks': rh, 'cores_per_rank': draw(st.integers(lo_c, c)), 'priority': ph}
    Lw = {'ranks': rl, 'cores_per_rank': draw(st.integers(lo_c, c)), 'priority': pl}
    blocker = {'ranks': n, 'cores_per_rank': c}
    ops = [['submit', [blocker]], ['settle']]
    order = draw(st.sampled_from(['HL_bulk', 'LH_bulk', 'H_then_L', 'L_then_H']))
    gap = draw(st.integers(0, 6))
    if order == 'HL_bulk':
        ops += [['submit', [H, Lw]]]
        hi, lo = 1, 2
    elif order == 'LH_bulk':
        ops += [['submit', [Lw, H]]]
        hi, lo = 2, 1
    elif order == 'H_then_L':
        ops += [['submit', [H]], ['step', gap], ['submit', [Lw]]]
        hi, lo = 1, 2
    else:
        ops += [['submit', [Lw]], ['step', gap], ['submit', [H]]]
        hi, lo = 2, 1
    if draw(st.booleans()):
        ops += [['settle']]
    else:
        ops += [['step', draw(st.integers(0, 8))]]
    ops += [['prio_check', hi, lo]]
    return {'kind': 'prio', 'cls': 'continuous', 'scattered': True, 'layout': layout,
            'ops': ops, 'drain': []}


@st.composite
def big_pools(draw):
    """wait pools of 8-14 with several unschedulable members (lazy_bisect skipping)"""
    n = draw(st.integers(1, 3))
    c = draw(st.sampled_from([4, 8]))
    layout = {'nodes': n, 'cores': c, 'gpus': 0, 'lfs': 0, 'mem': 0,
              'blocked_cores': [], 'blocked_gpus': []}
    blocker = {'ranks': n, 'cores_per_rank': c}
    pool = []
    for _ in range(draw(st.integers(8, 14))):
        k = draw(st.integers(0, 3))
        if k == 0:    # can never fit (too many ranks)
            pool.append({'ranks': n * c + draw(st.integers(1, 4)), 'cores_per_rank': 1})
        else:
            pool.append({'ranks': draw(st.integers(1, n)), 'cores_per_rank': draw(st.integers(1, c))})
    ops = [['submit', [blocker]], ['settle'], ['submit', pool]]
    if draw(st.booleans()):
        ops.append(['settle'])
    ops += [['finish', 0], ['settle']]
    for _ in range(draw(st.integers(0, 6))):
        ops += [['finish', draw(st.integers(0, 3))], ['settle']]
    return {'kind': 'bigpool', 'cls': 'continuous', 'scattered': True, 'layout': layout,
            'ops': ops, 'drain': []}


def parts(tier):
    T = (tier == 'thorough')      # thorough: larger layouts, longer histories
    return [
        Part('histories', schedgen.histories(max_ops=40 if not T else 80, big=T, named_env=True), quick=170, thorough=800),
        Part('scattered_progress', schedgen.histories(max_ops=30 if not T else 60, big=T, scattered=True, app=False, light=True),
             quick=90, thorough=800),
        Part('gpu_shares_blocked_gpus', schedgen.histories(max_ops=20 if not T else 40, big=T, scattered=True, app=False,
                                                           light=True, gpu_focus=True), quick=40, thorough=300),
        Part('colocate_tags', schedgen.histories(max_ops=25 if not T else 50, big=T, scattered=True, app=False,
                                                 colo=True), quick=60, thorough=400),
        Part('jsrun_blocked_resources', schedgen.histories(max_ops=25 if not T else 50, big=T, cls='jsrun', app=False,
                                                           light=True, blocked_focus=True), quick=50, thorough=400),
        Part('reconfig_scheduler', schedgen.histories(max_ops=25 if not T else 50, big=T, cls='reconfig', app=False,
                                                      scattered=True, light=True), quick=50, thorough=400),
        Part('priority', prio_scenarios(), quick=120, thorough=500),
        Part('big_wait_pools', big_pools(), quick=50, thorough=400),
    ]


def run_case(case):
    sim = schedsim.run_history(case)
    s = sim.stats
    nt = bool(s['waited'] or s['canceled_waiting'] or s['failed_unsched'] or
              case.get('kind') == 'prio')
    res = schedgen.to_result(sim, PID, nt)
    res.label('kind=%s' % case.get('kind'))
    for k in ('waited', 'canceled_waiting', 'failed_unsched', 'quiescent_idle', 'oversize_rejected'):
        if s[k]:
            res.label(k)
    if s['max_wait_pool'] >= 8:
        res.label('wait_pool>=8')
    return res
