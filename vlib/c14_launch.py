"""C14 part: "CANCELED when it was canceled by request" at the launching stage.

Real  : PMGRLaunchingComponent.control_cb / _kill_pilots / work / _state_cb (the
        kill request of PilotManager.cancel_pilots as the launcher handles it,
        before and after it has seen the pilot).
Faked : component start-up (hollow, fields set by hand), advance (recorded),
        _start_pilot_bulk (registers the pilot with a fake batch-job launcher, as
        the tail of the real method does), the batch job: the fake launcher's
        kill_pilots reports CANCELED through the component's _state_cb, a job that
        is left alone runs to its end (DONE).
"""
import threading as mt

from hypothesis import strategies as st

from . import boot                                    # noqa: F401
from .runner import CaseResult, exc_sig

import radical.pilot.states as rps
import radical.pilot.pmgr.launching.base as rpl_base

PMGR = 'pmgr.0000'


class _Launcher(object):
    def __init__(self, comp):
        self.comp, self.killed = comp, []

    def kill_pilots(self, pids):
        for pid in pids:
            self.killed.append(pid)
            pilot = self.comp._pilots[pid]['pilot']
            if pilot['state'] not in rps.FINAL:
                self.comp._state_cb(pilot, rps.CANCELED)


def hollow(rec):
    lc = rpl_base.PMGRLaunchingComponent.__new__(rpl_base.PMGRLaunchingComponent)
    lc._uid       = '%s.launching.0000' % PMGR
    lc._log       = boot.LOG
    lc._prof      = boot.PROF
    lc._pmgr      = PMGR
    lc._pilots    = dict()
    lc._cancelled = list()
    lc._lock      = mt.RLock()
    lc._launchers = {'FAKE': _Launcher(lc)}

    def advance(things, state=None, publish=True, push=False, **kw):
        for t in (things if isinstance(things, list) else [things]):
            if state:
                t['state'] = state
            rec.append((t['uid'], t['state']))
    lc.advance = advance

    def start_bulk(resource, schema, pilots):
        if resource in lc.verif_fail:
            # the batch system / endpoint of this resource cannot be reached
            raise RuntimeError('cannot launch on %s' % resource)
        with lc._lock:
            for p in pilots:
                lc._pilots[p['uid']] = {'pilot': p, 'launcher': 'FAKE', 'job': None}
    lc._start_pilot_bulk = start_bulk
    lc.verif_fail = set()
    return lc


@st.composite
def cases(draw):
    n = draw(st.integers(1, 4))
    ops = []
    for _ in range(draw(st.integers(1, 8))):
        k = draw(st.integers(0, 9))
        if k < 4:
            ops.append(['work', draw(st.lists(st.integers(0, n - 1), min_size=1, max_size=n, unique=True))])
        elif k < 8:
            ops.append(['kill', draw(st.lists(st.integers(0, n - 1), min_size=1, max_size=n, unique=True)),
                        draw(st.sampled_from([PMGR, PMGR, PMGR, 'pmgr.0001'])),
                        draw(st.booleans())])          # a single uid is sent as a bare string
        else:
            ops.append(['kill_all'])
    case = {'kind': 'launch_cancel', 'n': n, 'ops': ops}
    if draw(st.integers(0, 2)) == 0:
        # the pilots of a bulk go to several resources, the launch on some of them fails
        case['res']  = [draw(st.integers(0, 2)) for _ in range(n)]
        case['fail'] = draw(st.lists(st.integers(0, 2), min_size=1, max_size=2, unique=True))
    return case


def run(case):
    res = CaseResult()
    res.label('launch_cancel')
    rec = []
    lc  = hollow(rec)
    n   = max(1, int(case.get('n') or 1))
    uid = lambda i: 'pilot.%04d' % (int(i) % n)         # noqa
    RES = ['local.localhost', 'site.a', 'site.b']
    rmap = [RES[int(x) % 3] for x in (case.get('res') or [])]
    rmap = (rmap + [RES[0]] * n)[:n]
    lc.verif_fail = set(RES[int(x) % 3] for x in (case.get('fail') or []))
    res_of = {uid(i): rmap[i] for i in range(n)}
    if lc.verif_fail:
        res.label('launch_cancel:launch_fails_on_some_resource')
    seen, named = set(), set()       # handed to work(); named in a kill request of this pmgr
    order = []

    try:
        for op in case.get('ops') or []:
            if op[0] == 'work':
                bulk = []
                for i in op[1]:
                    if uid(i) not in seen:
                        seen.add(uid(i))
                        bulk.append({'uid': uid(i), 'type': 'pilot', 'state': rps.PMGR_LAUNCHING_PENDING,
                                     'description': {'resource': res_of[uid(i)],
                                                     'access_schema': 'local'}})
                if bulk:
                    lc.work(bulk)
                    order.append(('work', [p['uid'] for p in bulk]))
            elif op[0] == 'kill':
                pids = sorted(set(uid(i) for i in op[1]))
                pm   = op[2] if len(op) > 2 else PMGR
                arg  = pids[0] if (len(pids) == 1 and len(op) > 3 and op[3]) else pids
                lc.control_cb('control_pubsub', {'cmd': 'kill_pilots', 'arg': {'pmgr': pm, 'uids': arg}})
                if pm == PMGR:
                    named.update(pids)
                    order.append(('kill', pids))
                else:
                    res.label('launch_cancel:foreign_pmgr')
            elif op[0] == 'kill_all':
                # PilotManager.cancel_pilots() without uids names all its pilots
                pids = sorted(seen)
                lc.control_cb('control_pubsub', {'cmd': 'kill_pilots', 'arg': {'pmgr': PMGR, 'uids': pids}})
                named.update(pids)
                order.append(('kill', pids))
    except Exception as e:          # noqa
        res.fail(exc_sig('launcher_raised', e), repr(e))
        return res

    early = mixed = False
    for i in range(n):
        u = uid(i)
        if u not in seen:
            continue
        states = [s for (x, s) in rec if x == u]
        final  = [s for s in states if s in rps.FINAL]
        first_kill = next((k for k, o in enumerate(order) if o[0] == 'kill' and u in o[1]), None)
        first_work = next((k for k, o in enumerate(order) if o[0] == 'work' and u in o[1]), None)
        launch_fails = res_of[u] in lc.verif_fail
        if launch_fails and not (u in named and first_kill is not None and first_work is not None
                                 and first_kill < first_work):
            # its launch failed (and no cancel request came first): FAILED, nothing else
            if final != [rps.FAILED]:
                res.fail('pilot_with_failed_launch_not_failed', '%s on %s: %s' % (u, res_of[u], states))
            mixed = True
        elif u in named:
            if first_kill is not None and first_work is not None and first_kill < first_work:
                early = True
                # canceled before the launcher saw it: never launched, ends CANCELED
                if rps.PMGR_LAUNCHING in states or rps.PMGR_ACTIVE_PENDING in states:
                    res.fail('canceled_pilot_launched:request_before_launch',
                             '%s: %s (request history %s)' % (u, states, order))
                elif final != [rps.CANCELED]:
                    res.fail('canceled_pilot_not_canceled:request_before_launch',
                             '%s: %s' % (u, states))
            elif final != [rps.CANCELED]:
                res.fail('canceled_pilot_not_canceled:request_after_launch', '%s: %s' % (u, states))
        else:
            if final:
                res.fail('pilot_ended_without_request', '%s: %s (requests %s; launches fail on %s)'
                         % (u, states, order, sorted(lc.verif_fail)))
    mixed = mixed and any(res_of[u] not in lc.verif_fail for u in seen)
    if mixed:
        res.label('launch_cancel:failed_and_healthy_launches_together')
    res.nontrivial = bool(named & seen) and len(seen) > len(named & seen) or early or mixed
    if early:
        res.label('launch_cancel:request_before_launch')
    if named & seen:
        res.label('launch_cancel:named_pilot_seen')
    return res
