"""C20 sensitivity mutants, in the form used by tools/mutants_table.py:
    mut(name, path_below_src/radical/pilot, old, new)
All were run ON TOP of the proposed C20 fixes (out/C20-proposed-fixes.patch); only
C20_eval_env_not_restored needs that context (it removes the fixed restore lines).
Every one gave exit 1 in `./check C20` (quick, seed 1); first signature in RESULT."""

MUTANTS = [
    # M1 _dealloc skipped on the request error path
    ('C20_dealloc_skipped_on_request_error', 'raptor/worker_default.py',
     '                # free resources again for failed task\n                self._dealloc(task)\n',
     '                # free resources again for failed task\n'),
    # M2 _alloc ignores GPUs
    ('C20_alloc_ignores_gpus', 'raptor/worker_default.py',
     '            if gpus:\n                for n in range(self._n_gpus):',
     '            if False:\n                for n in range(self._n_gpus):'),
    # M3 missing exit_code => DONE
    ('C20_missing_exit_code_is_done', 'raptor/master.py',
     '                if ret is None:\n                    ret = -1',
     '                if ret is None:\n                    ret = 0'),
    # M4 stdout not restored after an exception (exec)
    ('C20_stdout_not_restored_after_exception', 'raptor/worker.py',
     "            val = loc['result']\n            out = strout.getvalue()\n            err = strerr.getvalue()\n            exc = (None, None)\n            ret = 0\n\n        except Exception as e:\n            self._log.exception('_exec failed: %s', task['uid'])\n            val = None\n            out = strout.getvalue()\n            err = strerr.getvalue() + ('\\nexec failed: %s' % e)\n            exc = (repr(e), '\\n'.join(ru.get_exception_trace()))\n            ret = 1\n\n        finally:\n            # restore stdio\n            sys.stdout = bak_stdout\n            sys.stderr = bak_stderr\n",
     "            val = loc['result']\n            out = strout.getvalue()\n            err = strerr.getvalue()\n            exc = (None, None)\n            ret = 0\n            sys.stdout = bak_stdout\n\n        except Exception as e:\n            self._log.exception('_exec failed: %s', task['uid'])\n            val = None\n            out = strout.getvalue()\n            err = strerr.getvalue() + ('\\nexec failed: %s' % e)\n            exc = (repr(e), '\\n'.join(ru.get_exception_trace()))\n            ret = 1\n\n        finally:\n            # restore stdio\n            sys.stderr = bak_stderr\n"),
    # M5 TASK_PROC routed to the executable path
    ('C20_proc_routed_to_executable_path', 'raptor/master.py',
     '            if mode == TASK_EXECUTABLE:\n                executable_tasks.append(task)',
     "            if mode in [TASK_EXECUTABLE, 'task.proc']:\n                executable_tasks.append(task)"),
    # M6 _result_cb does not free resources
    ('C20_result_cb_does_not_free', 'raptor/worker_default.py',
     '        # free resources again for the task\n        self._dealloc(task)\n',
     '        # free resources again for the task\n'),
    # M7 eval does not restore os.environ
    ('C20_eval_env_not_restored', 'raptor/worker.py',
     '            sys.stderr = bak_stderr\n\n            os.environ.clear()\n            os.environ.update(old_env)\n\n        return out, err, ret, val, exc\n\n\n\n',
     '            sys.stderr = bak_stderr\n\n        return out, err, ret, val, exc\n\n\n\n'),
    # M8 func reports ret 0 on exception
    ('C20_func_ret_zero_on_exception', 'raptor/worker.py',
     "            err = strerr.getvalue() + ('\\ncall failed: %s' % e)\n            exc = (repr(e), '\\n'.join(ru.get_exception_trace()))\n            ret = 1",
     "            err = strerr.getvalue() + ('\\ncall failed: %s' % e)\n            exc = (repr(e), '\\n'.join(ru.get_exception_trace()))\n            ret = 0"),
    # M9 scheduler drops backlog on unregister without failing it
    ('C20_unregister_drops_backlog', 'agent/scheduler/base.py',
     "                    for task in tasks:\n                        self._fail_task(task, RuntimeError('raptor gone'),\n                                              'raptor queue disappeared')",
     '                    pass'),
    # M10 scheduler ignores raptor_seen
    ('C20_scheduler_ignores_raptor_seen', 'agent/scheduler/base.py',
     "                        if task.get('raptor_seen'):",
     '                        if False:'),
    # M11 exit code 1 => DONE (>= 0)
    ('C20_nonzero_exit_is_done', 'raptor/master.py',
     "                if int(ret) == 0: task['target_state'] = rps.DONE",
     "                if int(ret) >= 0: task['target_state'] = rps.DONE"),
    # M12 backlog not flushed on registration
    ('C20_backlog_not_flushed_on_register', 'agent/scheduler/base.py',
     "                if name in self._raptor_tasks:\n\n                    tasks = self._raptor_tasks[name]\n                    del self._raptor_tasks[name]\n\n                    self._log.debug('relay",
     "                if False:\n\n                    tasks = self._raptor_tasks[name]\n                    del self._raptor_tasks[name]\n\n                    self._log.debug('relay"),
    # M13 _alloc hands out the same first cores (does not mark busy)
    ('C20_alloc_does_not_mark_cores', 'raptor/worker_default.py',
     "                    if not self._resources['cores'][n]:\n                        self._resources['cores'][n] = 1\n",
     "                    if not self._resources['cores'][n]:\n"),
    # M14 shell output swapped (err returned as out)
    ('C20_shell_out_err_swapped', 'raptor/worker.py',
     '            out, err, ret = ru.sh_callout(cmd, shell=True, env=env)',
     '            err, out, ret = ru.sh_callout(cmd, shell=True, env=env)'),
    # M15 master pushes raptor results without calling result_cb for bulks > 1
    ('C20_result_cb_first_of_bulk_only', 'raptor/master.py',
     '            self.result_cb(tasks)\n',
     '            self.result_cb(tasks[:1])\n'),
    # M16 func return value dropped
    ('C20_func_value_dropped', 'raptor/worker.py',
     "                val = to_call(*args, **kwargs)\n            self._prof.prof('rank_stop', uid=uid)",
     "                val = to_call(*args, **kwargs)\n                val = None\n            self._prof.prof('rank_stop', uid=uid)"),
]

RESULT = {
    'C20_dealloc_skipped_on_request_error': 'cores_not_freed:during',
    'C20_alloc_ignores_gpus': 'slots_wrong_gpu_count',
    'C20_missing_exit_code_is_done': 'wrong_target_state:exit_missing',
    'C20_stdout_not_restored_after_exception': 'stdout_not_restored:exec',
    'C20_proc_routed_to_executable_path': 'function_request_sent_to_pilot:proc',
    'C20_result_cb_does_not_free': 'cores_not_freed:during',
    'C20_eval_env_not_restored': 'env_not_restored:eval',
    'C20_func_ret_zero_on_exception': 'ret_zero_but_failed:func',
    'C20_unregister_drops_backlog': 'request_forwarded_never',
    'C20_scheduler_ignores_raptor_seen': 'request_forwarded_twice',
    'C20_nonzero_exit_is_done': 'wrong_target_state:exit_nonzero',
    'C20_backlog_not_flushed_on_register': 'request_waits_for_registered_master',
    'C20_alloc_does_not_mark_cores': 'cores_shared_by_running_requests',
    'C20_shell_out_err_swapped': 'out_mismatch:shell',
    'C20_result_cb_first_of_bulk_only': 'result_reported_never:function',
    'C20_func_value_dropped': 'val_mismatch:func',
}
