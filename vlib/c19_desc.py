"""C19 part 1 - TaskDescription / PilotDescription normalisation and round trip.

Everything the oracle demands is written down here from the DOCUMENTATION of
task_description.py / pilot_description.py (class docstrings and the comments
at the attribute constants); nothing is derived by calling the code:

* DEPRECATED  : deprecated name -> documented replacement (or None = "ignored")
* REQUIRED    : mode -> attribute the docstring lists as "required attributes"
* TD_TYPES    : attribute -> documented value type

Documentation conflicts found while writing the tables (reported, not demanded):
  - `gpu_type` paragraph: "replaces the deprecated attribute `gpu_thread_type`",
    `gpus_per_rank` paragraph: "`gpu_threads` and `gpu_process_type` are also
    deprecated and will be ignored"; the schema comments in the same file say
    GPU_PROCESS_TYPE -> GPU_TYPE and GPU_THREAD_TYPE -> n/a.  The oracle accepts
    either documented reading for these two names (AMBIGUOUS below).
  - `worker_file`: docstring says "deprecated in favor of `raptor_class`", the
    constant says "deprecated for raptor_file" and `raptor_file` is documented
    as the file `raptor_class` is loaded from: raptor_file is used.
"""
import copy

from hypothesis import strategies as st

from . import boot                                    # noqa: F401
from .runner import exc_sig

import msgpack

import radical.pilot as rp

TD = rp.TaskDescription
PD = rp.PilotDescription

# ------------------------------------------------------------------------------
# documented tables
#
M_EXECUTABLE = 'task.executable'
M_SERVICE    = 'task.service'
M_FUNCTION   = 'task.function'
M_METHOD     = 'task.method'
M_EVAL       = 'task.eval'
M_EXEC       = 'task.exec'
M_PROC       = 'task.proc'
M_SHELL      = 'task.shell'
M_MASTER     = 'raptor.master'
M_WORKER     = 'raptor.worker'
M_AGENT_SVC  = 'agent.service'        # constant exists, mode is not in the docstring

# "required attributes" per mode, docstring of TaskDescription (attribute `mode`)
REQUIRED = {
    M_EXECUTABLE: 'executable',
    M_SERVICE   : 'executable',
    M_FUNCTION  : 'function',
    M_METHOD    : 'method',
    M_EVAL      : 'code',
    M_EXEC      : 'code',
    M_SHELL     : 'command',
    M_PROC      : 'executable',
    M_MASTER    : None,
    M_WORKER    : None,
    # not in the docstring; grounded in the only caller: Agent_0._launch_service_task sets this mode
    # on the services of the agent config and wraps `td.executable` into the service wrapper's
    # command line ("exactly like" task.service) - a service without executable cannot be started
    M_AGENT_SVC : 'executable',
}
MODES = list(REQUIRED)

# deprecated name -> replacement; None = documented as "deprecated and ignored"
DEPRECATED = {
    'cpu_processes'   : 'ranks',
    'cpu_process_type': None,
    'cpu_threads'     : 'cores_per_rank',
    'cpu_thread_type' : 'threading_type',
    'gpu_processes'   : 'gpus_per_rank',
    'gpu_threads'     : None,
    'lfs_per_process' : 'lfs_per_rank',
    'mem_per_process' : 'mem_per_rank',
    'scheduler'       : 'raptor_id',
    'worker_class'    : 'raptor_class',
    'worker_file'     : 'raptor_file',
    # the two names the documentation contradicts itself about (see module doc)
    'gpu_process_type': 'gpu_type?',
    'gpu_thread_type' : 'gpu_type?',
}
AMBIGUOUS = {'gpu_process_type', 'gpu_thread_type'}

# documented types ("Attributes:" section).  's' str, 'i' int, 'f' float,
# 'b' bool, 'ls' list of str, 'l' list, 'd' dict, 'dss' dict str->str
TD_TYPES = {
    'uid': 's', 'name': 's', 'executable': 's', 'arguments': 'ls',
    'info_pattern': 's', 'code': 's', 'function': 's', 'args': 'l',
    'kwargs': 'd', 'command': 's', 'use_mpi': 'b', 'ranks': 'i',
    'ranks_per_node': 'i', 'cores_per_rank': 'i', 'threading_type': 's',
    'gpus_per_rank': 'f', 'gpu_type': 's', 'lfs_per_rank': 'i',
    'mem_per_rank': 'i', 'environment': 'dss', 'named_env': 's',
    'sandbox': 's', 'stdout': 's', 'stderr': 's', 'input_staging': 'l',
    'output_staging': 'l', 'stage_on_error': 'b', 'priority': 'i',
    'pre_launch': 'ls', 'post_launch': 'ls', 'pre_exec': 'l',
    'pre_exec_sync': 'b', 'post_exec': 'l', 'restartable': 'b', 'tags': 'd',
    'raptor_id': 's', 'raptor_class': 's', 'raptor_file': 's',
    'metadata': 'd', 'services': 'ls', 'timeout': 'f',
    'startup_timeout': 'f', 'cleanup': 'b', 'pilot': 's', 'slots': 'slots',
    'partition': 'i',
    'method': 's',                      # named by the TASK_METHOD mode entry
    # deprecated
    'cpu_processes': 'i', 'cpu_process_type': 's', 'cpu_threads': 'i',
    'cpu_thread_type': 's', 'gpu_processes': 'i', 'gpu_process_type': 's',
    'gpu_threads': 'i', 'gpu_thread_type': 's', 'lfs_per_process': 'i',
    'mem_per_process': 'i', 'scheduler': 's', 'worker_class': 's',
    'worker_file': 's',
}
TD_CURRENT = sorted(k for k in TD_TYPES if k not in DEPRECATED and k != 'method')
TD_DEPREC  = sorted(DEPRECATED)
MODE_ATTRS = ['executable', 'function', 'method', 'code', 'command']

# PilotDescription: docstring "Note: MUST define at least resource, cores or
# nodes, and runtime.  If backup_nodes is set, then nodes must also be set";
# nodes: "If nodes is specified, gpus and cores must not be specified".
# (runtime carries a documented default of 10, so it is always defined; the
#  generator keeps an explicit runtime >= 1.)
PD_TYPES = {
    'uid': 's', 'job_name': 's', 'resource': 's', 'access_schema': 's',
    'runtime': 'i', 'sandbox': 's', 'nodes': 'i', 'backup_nodes': 'i',
    'cores': 'i', 'gpus': 'i', 'memory': 'i', 'queue': 's', 'project': 's',
    'app_comm': 'ls', 'input_staging': 'ls', 'output_staging': 'ls',
    'cleanup': 'b', 'exit_on_error': 'b', 'services': 'tds',
    'enable_ep': 'b', 'prepare_env': 'd', 'reconfig_src': 's',
}
PD_NAMES = sorted(PD_TYPES)


def td_required_violation(mode, given):
    """docstring table: is a required attribute of this mode missing?"""
    req = REQUIRED.get(mode or M_EXECUTABLE)
    return bool(req) and not given.get(req)


def pd_required_violation(given):
    g = lambda k: bool(given.get(k))                  # noqa: E731
    if not g('resource')                     : return 'resource'
    if not g('nodes') and not g('cores')     : return 'nodes_or_cores'
    if g('backup_nodes') and not g('nodes')  : return 'backup_without_nodes'
    if g('nodes') and (g('cores') or g('gpus')): return 'nodes_and_cores_gpus'
    return None


# ------------------------------------------------------------------------------
# strategies (cases are plain JSON)
#
# A case is built from ONE Hypothesis draw (a fixed-length byte string, the
# "dice") by a deterministic builder: all randomness is Hypothesis', and a case
# costs one draw instead of ~60 (generation dominated the run time otherwise).
#
class Dice(object):

    def __init__(self, nums):
        self.nums = nums or [0]
        self.i    = 0

    def _byte(self):
        v = self.nums[self.i % len(self.nums)]
        self.i += 1
        return v

    def below(self, k):
        v = self._byte()
        if k > 200:
            v = (v << 16) | (self._byte() << 8) | self._byte()
        return v % k

    def pick(self, seq):
        return seq[self.below(len(seq))]

    def chance(self, k):
        return self.below(k) == 0

    def sample(self, seq, n):
        pool, out = list(seq), []
        for _ in range(min(n, len(pool))):
            out.append(pool.pop(self.below(len(pool))))
        return out


DICE = st.binary(min_size=128, max_size=128)

V_STR   = ['a', 'b', '/bin/date', 'x y', 'OpenMP', 'CUDA', 'ROCm', 'POSIX',
           'MPI', 'rp', 'master.0000', 'worker.py', 'MyWorker', 'stdout:re.*',
           'é']
V_INT   = [1, 2, 3, 4, 1, 2, 3, 4, 7, 16, 42, 128, 1000, 4096]
V_FLOAT = [0.25, 0.5, 1.0, 2.0, 3.0, 10.5]
V_JSON  = [None, True, False, 0, -3, 5, 'a', 'x y', 0.5, 2.0, [], {}, [1, 'b'],
           [None, [0.5]], {'a': 1}, {'k': [True, {'é': None}]},
           ['CUDA', {'b': 'c'}], {'0': 'src > tgt', 'uid': 'x'}]
CASTABLE = {'s', 'i', 'f', 'dss'}


def _slot(d):
    return {'cores'     : [{'index': i, 'occupation': 1.0}
                           for i in d.sample(range(8), d.below(4))],
            'gpus'      : [{'index': i, 'occupation': 0.5}
                           for i in d.sample(range(4), d.below(3))],
            'lfs'       : d.below(10),
            'mem'       : d.below(10),
            'node_index': d.below(4),
            'node_name' : d.pick(['n0', 'n1', 'node-2']),
            'version'   : 1}


def _service_td(d):
    if d.chance(4):
        # lacks the attribute its mode requires
        return {'mode': d.pick([M_SHELL, M_EVAL]), 'name': d.pick(V_STR)}
    td = {'executable': d.pick(V_STR)}
    if d.chance(2): td['arguments'] = [d.pick(V_STR) for _ in range(d.below(3))]
    if d.chance(2): td['ranks']     = 1 + d.below(4)
    if d.chance(2): td['name']      = d.pick(V_STR)
    return td


def value_for(d, t, cast=False):
    if t == 's'    : return d.pick(V_STR)   if not cast else 1 + d.below(9)
    if t == 'i'    : return d.pick(V_INT)   if not cast else str(d.pick(V_INT))
    if t == 'f'    : return d.pick(V_FLOAT) if not cast else 1 + d.below(4)
    if t == 'b'    : return bool(d.below(2))
    if t == 'ls'   : return [d.pick(V_STR)  for _ in range(1 + d.below(3))]
    if t == 'l'    : return [d.pick(V_JSON) for _ in range(1 + d.below(3))]
    if t == 'd'    : return {d.pick(V_STR): d.pick(V_JSON) for _ in range(1 + d.below(3))}
    if t == 'dss'  :
        if cast    : return {d.pick(V_STR): d.below(65) for _ in range(1 + d.below(3))}
        return {d.pick(V_STR): d.pick(V_STR) for _ in range(1 + d.below(3))}
    if t == 'slots': return [_slot(d)       for _ in range(1 + d.below(3))]
    if t == 'tds'  : return [_service_td(d) for _ in range(1 + d.below(2))]
    raise ValueError(t)


def build_td(nums):
    d    = Dice(nums)
    mode = d.pick([None, None] + MODES)
    req  = REQUIRED.get(mode or M_EXECUTABLE) or 'executable'
    how  = d.pick(['ok', 'ok', 'ok', 'ok', 'missing', 'empty', 'other'])
    names = []
    if how in ('ok', 'empty'):
        names.append(req)
    elif how == 'other':
        # a mode attribute of some *other* mode: must not satisfy the requirement
        names.append(d.pick([a for a in MODE_ATTRS if a != req]))
    names += d.sample(TD_DEPREC, d.pick([0, 0, 1, 1, 2, 3, 5]))
    # the replacements of the drawn deprecated names are current names of
    # special interest ("in any combination")
    tgt = sorted(set(DEPRECATED[x].rstrip('?') for x in names if DEPRECATED.get(x)))
    if tgt and d.chance(2):
        names += d.sample(tgt, 1 + d.below(2))
    names += d.sample(TD_CURRENT, d.below(9))
    attrs, seen = [], set()
    for n in names:
        if n in seen:
            continue
        seen.add(n)
        t = TD_TYPES[n]
        if n == req and how == 'empty':
            v = ''
        elif n in DEPRECATED and d.chance(10):
            v = 0 if t == 'i' else ''           # deprecated name set to "unset"
        else:
            v = value_for(d, t, t in CASTABLE and d.chance(8))
        attrs.append([n, v])
    if d.chance(2):
        attrs.reverse()
    return {'kind': 'td', 'mode': mode, 'attrs': attrs, 'reverify': 1 + d.below(3)}


def build_pd(nums):
    d     = Dice(nums)
    shape = d.pick(['nodes', 'nodes', 'cores', 'cores_gpus', 'free'])
    attrs = []
    if shape != 'free' or not d.chance(4):
        attrs.append(['resource', d.pick(['local.localhost', 'ornl.summit', 'local.localhost',
                                          'anl.polaris', 'tacc.frontera', ''])])
    if shape == 'nodes':
        attrs.append(['nodes', 1 + d.below(64)])
        if d.chance(2):
            attrs.append(['backup_nodes', d.below(4)])
    elif shape == 'cores':
        attrs.append(['cores', 1 + d.below(4096)])
    elif shape == 'cores_gpus':
        attrs.append(['cores', 1 + d.below(4096)])
        attrs.append(['gpus', d.below(65)])
    else:
        for n in d.sample(['nodes', 'cores', 'gpus', 'backup_nodes'], d.below(5)):
            attrs.append([n, d.below(9)])
    seen = set(a[0] for a in attrs)
    for n in d.sample(PD_NAMES, d.below(8)):
        if n in seen or n in ('nodes', 'cores', 'gpus', 'backup_nodes', 'resource'):
            continue
        t = PD_TYPES[n]
        if n == 'runtime':
            v = 1 + d.below(2880)
        else:
            v = value_for(d, t, t in CASTABLE and d.chance(8))
        attrs.append([n, v])
    if d.chance(2):
        attrs.reverse()
    return {'kind': 'pd', 'attrs': attrs, 'reverify': 1 + d.below(3)}


def td_cases():
    return DICE.map(build_td)


def pd_cases():
    return DICE.map(build_pd)


# ------------------------------------------------------------------------------
# comparison helpers
#
def same(a, b):
    """deep, type-strict equality of plain data (True != 1, 1 != 1.0)"""
    if isinstance(a, dict) and isinstance(b, dict):
        return (set(a.keys()) == set(b.keys())
                and all(same(a[k], b[k]) for k in a))
    if isinstance(a, (list, tuple)) and isinstance(b, (list, tuple)):
        return (type(a) is type(b) and len(a) == len(b)
                and all(same(x, y) for x, y in zip(a, b)))
    return type(a) is type(b) and a == b


def covers(got, given):
    """`got` holds everything `given` holds (typed-dict values gain defaults)"""
    if isinstance(given, dict):
        return (isinstance(got, dict)
                and all(k in got and covers(got[k], given[k]) for k in given))
    if isinstance(given, list):
        return (isinstance(got, list) and len(got) == len(given)
                and all(covers(x, y) for x, y in zip(got, given)))
    return type(got) is type(given) and got == given


def expected_value(t, v):
    """what a *typed value* given for a documented type must read back as"""
    if t == 's'  : return str(v)
    if t == 'i'  : return int(v)
    if t == 'f'  : return float(v)
    if t == 'dss': return {str(k): str(x) for k, x in v.items()}
    return v


def wire(d):
    """what the description looks like on the other side of ru.zmq (msgpack)"""
    return msgpack.unpackb(msgpack.packb(d, use_bin_type=True),
                           raw=False, strict_map_key=False)


def diff_keys(a, b):
    return sorted(k for k in set(a) | set(b)
                  if k not in a or k not in b or not same(a[k], b[k]))


# ------------------------------------------------------------------------------
#
def _verify(res, obj, clause):
    """-> 'ok' | 'valueerror' | 'other' (already reported)"""
    try:
        obj.verify()
        return 'ok'
    except ValueError as e:
        res._last_exc = e
        return 'valueerror'
    except KeyError as e:
        # TypedDict refuses a key its schema does not know.  All names the
        # generator uses are documented attribute names.
        txt = str(e)
        if 'not in schema' in txt and '"' in txt:
            res.fail('%s_documented_attr_rejected:%s'
                     % (clause.split('_')[0], txt.split('"')[1]), repr(e))
        else:
            res.fail(exc_sig(clause, e), repr(e))
        return 'other'
    except Exception as e:                                      # noqa
        res.fail(exc_sig(clause, e), repr(e))
        return 'other'


class _Res(object):
    """thin adapter so that helpers can stash the last exception"""
    def __init__(self, res):
        self._res = res
        self._last_exc = None

    def fail(self, sig, msg=''):
        self._res.fail(sig, msg)


def _round_trip(r, cls, obj, post, tag):
    """cls(obj.as_dict()) equals obj - directly and over the wire - and
    normalising the copy changes nothing"""
    for how, data in (('direct', copy.deepcopy(post)), ('wire', wire(post))):
        try:
            o2 = cls(data)
            d2 = o2.as_dict()
        except Exception as e:                                  # noqa
            r.fail(exc_sig('%s_roundtrip_raised:%s' % (tag, how), e), repr(e))
            continue
        if not (o2 == obj) or not same(d2, post):
            r.fail('%s_roundtrip_differs:%s:%s' % (tag, how, ','.join(diff_keys(d2, post)[:3])),
                   '%r != %r' % ({k: d2.get(k) for k in diff_keys(d2, post)},
                                 {k: post.get(k) for k in diff_keys(d2, post)}))
            continue
        v = _verify(r, o2, '%s_roundtrip_verify_raised:%s' % (tag, how))
        if v == 'valueerror':
            r.fail('%s_roundtrip_verify_rejected:%s' % (tag, how), repr(r._last_exc))
        elif v == 'ok':
            d3 = o2.as_dict()
            if not same(d3, post):
                r.fail('%s_roundtrip_verify_differs:%s:%s'
                       % (tag, how, ','.join(diff_keys(d3, post)[:3])),
                       '%r != %r' % ({k: d3.get(k) for k in diff_keys(d3, post)},
                                     {k: post.get(k) for k in diff_keys(d3, post)}))


# ------------------------------------------------------------------------------
#
def run_td(case, res):
    r     = _Res(res)
    mode  = case.get('mode')
    given = {}
    for n, v in case['attrs']:
        if n in TD_TYPES:
            given[n] = v
    src = copy.deepcopy(given)
    if mode is not None:
        src['mode'] = mode

    n_dep = sum(1 for k in given if k in DEPRECATED and given[k])
    n_cur = sum(1 for k in given if k not in DEPRECATED)
    res.nontrivial = n_dep >= 1 and n_cur >= 1
    res.label('td', 'td:mode=%s' % mode, 'td:dep=%d' % min(n_dep, 4))

    try:
        td  = TD(copy.deepcopy(src))
        pre = copy.deepcopy(td.as_dict())
    except Exception as e:                                      # noqa
        res.fail(exc_sig('td_construct_raised', e), repr(e))
        return

    # un-normalised description: dict and back
    try:
        if not same(TD(copy.deepcopy(pre)).as_dict(), pre):
            res.fail('td_raw_roundtrip_differs', '')
    except Exception as e:                                      # noqa
        res.fail(exc_sig('td_raw_roundtrip_raised', e), repr(e))

    m   = mode or M_EXECUTABLE
    req = REQUIRED.get(m)
    documented = m in REQUIRED
    violated   = td_required_violation(mode, given)
    # `named_env` with function/method tasks is refused by an explicit message
    # in the code, the documentation is silent: neither demanded nor forbidden
    grey = (m in (M_FUNCTION, M_METHOD) and bool(given.get('named_env'))) \
        or not documented

    if 'method' in given:
        res.label('td:method_attr')

    out = _verify(r, td, 'td_verify_raised:mode=%s' % m)
    if out == 'other':
        return
    if out == 'valueerror':
        res.label('td:rejected')
        if not violated and not grey:
            res.fail('td_valueerror_without_cause:mode=%s' % m,
                     '%r for %r' % (r._last_exc, src))
        # a rejected description stays rejected
        if _verify(r, td, 'td_reverify_raised:mode=%s' % m) == 'ok' and violated:
            res.fail('td_rejection_not_stable:mode=%s' % m, '')
        return
    if violated:
        res.fail('td_required_not_enforced:mode=%s:%s' % (m, req), '%r' % src)
        return
    res.label('td:accepted')

    post = copy.deepcopy(td.as_dict())

    # --- normalisation loses nothing and invents nothing
    if post.get('mode') != m:
        res.fail('td_mode_changed', '%r -> %r' % (m, post.get('mode')))

    dep_given = {d: given[d] for d in DEPRECATED if given.get(d)}
    targets   = {}
    for d, v in dep_given.items():
        t = DEPRECATED[d]
        if t:
            targets.setdefault(t.rstrip('?'), []).append((d, v, t.endswith('?')))
    if dep_given:
        res.label('td:deprecated_given')

    for k in sorted(set(post) | set(pre) | set(given)):
        if k in DEPRECATED or k == 'mode':
            continue
        if k not in post:
            res.fail('td_attr_dropped:%s' % k, 'was %r' % (given.get(k, pre.get(k)),))
            continue
        t     = TD_TYPES.get(k)
        have  = post[k]
        cands = []                          # acceptable values
        if k in given:
            cands.append(expected_value(t, given[k]))
        elif k == 'use_mpi' and pre.get(k) is None:
            pass                            # documented default, checked below
        elif k not in pre:
            res.fail('td_value_invented:%s' % k, 'verify added %r' % (have,))
            continue
        elif k not in targets or all(a for _, _, a in targets[k]):
            cands.append(pre[k])            # not given: construction default stays
        for d, v, amb in targets.get(k, []):
            cands.append(expected_value(t, v))
        if k == 'use_mpi' and not cands:
            continue
        if k in ('slots',):
            ok = any(covers(have, c) for c in cands)
        else:
            ok = any(same(have, c) for c in cands)
        if ok:
            if k in targets and k in given and \
                    not same(expected_value(t, given[k]),
                             expected_value(t, targets[k][0][1])):
                res.label('td:conflict_dep_vs_current')
            continue
        if k in targets and not all(a for _, _, a in targets[k]):
            d = [x for x, _, a in targets[k] if not a][0]
            res.fail('td_deprecated_not_mapped:%s->%s' % (d, k),
                     '%s=%r gave %s=%r' % (d, dep_given[d], k, have))
        elif k in given:
            res.fail('td_value_lost:%s' % k, 'given %r, got %r' % (given[k], have))
        else:
            res.fail('td_value_invented:%s' % k,
                     'not given (default %r), got %r; deprecated given: %r'
                     % (pre.get(k), have, dep_given))

    # documented default of use_mpi
    if 'use_mpi' not in given:
        try:
            want = int(post['ranks']) > 1
        except Exception:                                       # noqa
            want = None
        if want is not None and post.get('use_mpi') is not want:
            res.fail('td_use_mpi_default:%s' % ('multi' if want else 'single'),
                     'ranks=%r use_mpi=%r' % (post['ranks'], post.get('use_mpi')))

    # --- idempotent
    for i in range(max(1, min(3, int(case.get('reverify', 1))))):
        out = _verify(r, td, 'td_reverify_raised:mode=%s' % m)
        if out == 'valueerror':
            res.fail('td_reverify_rejected:mode=%s' % m, repr(r._last_exc))
        if out != 'ok':
            return
        again = td.as_dict()
        if not same(again, post):
            res.fail('td_not_idempotent:%s' % ','.join(diff_keys(again, post)[:3]),
                     'verify #%d changed %r -> %r'
                     % (i + 2, {k: post.get(k) for k in diff_keys(again, post)},
                        {k: again.get(k) for k in diff_keys(again, post)}))
            return

    # --- dict and back
    _round_trip(r, TD, td, post, 'td')


# ------------------------------------------------------------------------------
#
def run_pd(case, res):
    r     = _Res(res)
    given = {}
    for n, v in case['attrs']:
        if n in PD_TYPES:
            given[n] = v

    res.label('pd')
    res.nontrivial = len(given) >= 4 and bool(given.get('services')
                                              or given.get('prepare_env')
                                              or given.get('app_comm'))
    try:
        pd  = PD(copy.deepcopy(given))
        pre = copy.deepcopy(pd.as_dict())
    except Exception as e:                                      # noqa
        res.fail(exc_sig('pd_construct_raised', e), repr(e))
        return

    why = pd_required_violation(given)
    svc_bad = any(td_required_violation(s.get('mode'), s)
                  for s in given.get('services') or [])
    out = _verify(r, pd, 'pd_verify_raised')
    if out == 'other':
        return
    if out == 'valueerror':
        res.label('pd:rejected')
        if not why and not svc_bad:
            res.fail('pd_valueerror_without_cause', '%r for %r' % (r._last_exc, given))
        return
    if why:
        res.fail('pd_required_not_enforced:%s' % why, '%r' % given)
        return
    if svc_bad:
        res.fail('pd_service_required_not_enforced', '%r' % given)
        return
    res.label('pd:accepted')

    post = copy.deepcopy(pd.as_dict())
    for k in sorted(set(post) | set(pre) | set(given)):
        t = PD_TYPES.get(k)
        if k not in post:
            res.fail('pd_attr_dropped:%s' % k, 'was %r' % (given.get(k, pre.get(k)),))
        elif k in given:
            want = expected_value(t, given[k])
            ok = covers(post[k], want) if t == 'tds' else same(post[k], want)
            if not ok:
                res.fail('pd_value_lost:%s' % k, 'given %r, got %r' % (given[k], post[k]))
        elif k not in pre or not same(post[k], pre[k]):
            res.fail('pd_value_invented:%s' % k, '%r -> %r' % (pre.get(k), post[k]))

    for i in range(max(1, min(3, int(case.get('reverify', 1))))):
        out = _verify(r, pd, 'pd_reverify_raised')
        if out == 'valueerror':
            res.fail('pd_reverify_rejected', repr(r._last_exc))
        if out != 'ok':
            return
        again = pd.as_dict()
        if not same(again, post):
            res.fail('pd_not_idempotent:%s' % ','.join(diff_keys(again, post)[:3]), '')
            return

    _round_trip(r, PD, pd, post, 'pd')
