"""C19 part 3 - slot format conversions (`convert_slots_to_new/_old`, `Slot`).

A case lists placements as plain numbers; the harness renders them in one of
the formats a direction accepts:

  new  N_obj  : `Slot` objects holding `RO` lists (version 1)
       N_dict : the same after as_dict + msgpack (what crosses ru.zmq)
       N_int  : dict with version 1 and plain index lists
  old  O_int  : dict without version, plain index lists
       O_dict : dict without version, {'index', 'occupation'} dicts
       O_ro   : dict without version, `RO` objects (agent scheduler product)
       O_pair : dict without version, (index, occupation) pairs
  and the resource-set lists (`[[core, ...], ...]` one list per rank) which
  `convert_slots_to_old` produces.

Expectations come from the case numbers, never from the converted objects.
"""
import copy

from . import boot                                    # noqa: F401
from .runner import exc_sig
from .c19_desc import wire, Dice, DICE

from radical.pilot.utils           import convert_slots_to_new, convert_slots_to_old
from radical.pilot.resource_config import Slot, RO

NEW_FMTS = ['N_obj', 'N_dict', 'N_int']
OLD_FMTS = ['O_int', 'O_dict', 'O_ro', 'O_pair']
OCC      = [1.0, 0.5, 0.25]
NODES    = ['node-a', 'node-b', 'n003', 'localhost']


def build_slots(nums):
    d     = Dice(nums)
    fmt   = d.pick(NEW_FMTS + OLD_FMTS)
    multi = d.chance(2)
    n     = (2 + d.below(4)) if multi else d.below(6)
    slots = []
    for i in range(n):
        node = i if (multi and i < 2) else d.below(4)
        slots.append({
            'node' : node,
            'index': node if d.chance(2) else d.below(41),
            'cores': d.sample(range(64), (1 if multi else 0) + d.below(5)),
            'gpus' : d.sample(range(8), (1 if (multi and i < 2) else 0) + d.below(3)),
            'co'   : d.below(len(OCC)),
            'go'   : d.below(len(OCC)),
            'lfs'  : d.pick([0, 0, 1, 1024]),
            'mem'  : d.pick([0, 0, 2, 4096])})
    return {'kind': 'slots', 'fmt': fmt, 'slots': slots}


def slot_cases():
    return DICE.map(build_slots)


# ------------------------------------------------------------------------------
#
def expect(s):
    return (NODES[int(s['node']) % len(NODES)], int(s['index']),
            [int(c) for c in s['cores']], [int(g) for g in s['gpus']],
            int(s['lfs']), int(s['mem']))


def render(s, fmt):
    name, index, cores, gpus, lfs, mem = expect(s)
    co = OCC[int(s.get('co', 0)) % len(OCC)]
    go = OCC[int(s.get('go', 0)) % len(OCC)]
    base = {'lfs': lfs, 'mem': mem, 'node_index': index, 'node_name': name}
    if fmt in ('N_obj', 'N_dict'):
        slot = Slot(cores=[RO(index=c, occupation=co) for c in cores],
                    gpus=[RO(index=g, occupation=go) for g in gpus], **base)
        return slot if fmt == 'N_obj' else wire(slot.as_dict())
    if fmt == 'N_int':
        return dict(base, cores=list(cores), gpus=list(gpus), version=1)
    if fmt == 'O_int':
        return dict(base, cores=list(cores), gpus=list(gpus))
    if fmt == 'O_dict':
        return dict(base, cores=[{'index': c, 'occupation': co} for c in cores],
                          gpus=[{'index': g, 'occupation': go} for g in gpus])
    if fmt == 'O_ro':
        return dict(base, cores=[RO(index=c, occupation=co) for c in cores],
                          gpus=[RO(index=g, occupation=go) for g in gpus])
    if fmt == 'O_pair':
        return dict(base, cores=[[c, co] for c in cores],
                          gpus=[[g, go] for g in gpus])
    raise ValueError(fmt)


def _idx_new(items):
    out = []
    for e in items or []:
        out.append(e if isinstance(e, int) else e['index'])
    return out


def _idx_rs(items):
    out = []
    for e in items or []:
        out.extend(e if isinstance(e, (list, tuple)) else [e])
    return out


def view(slot, rs):
    f = _idx_rs if rs else _idx_new
    return (slot['node_name'], slot['node_index'], f(slot['cores']), f(slot['gpus']),
            slot.get('lfs', 0), slot.get('mem', 0))


FIELDS = ['node_name', 'node_index', 'cores', 'gpus', 'lfs', 'mem']


def compare(res, clause, fmt, got_slots, want, rs):
    if got_slots is None or len(got_slots) != len(want):
        res.fail('%s:count:%s' % (clause, fmt),
                 '%d slots in, %r out' % (len(want), got_slots))
        return False
    ok = True
    for k, (g, w) in enumerate(zip(got_slots, want)):
        try:
            v = view(g, rs)
        except Exception as e:                                  # noqa
            res.fail('%s:unreadable:%s:%s' % (clause, fmt, type(e).__name__),
                     'slot %d: %r (%r)' % (k, g, e))
            ok = False
            continue
        for name, a, b in zip(FIELDS, v, w):
            if type(a) is not type(b) or a != b:
                res.fail('%s:%s:%s' % (clause, name, fmt),
                         'slot %d: wanted %s=%r, got %r (%r)' % (k, name, b, a, g))
                ok = False
    return ok


def _conv(res, clause, fn, slots):
    try:
        return True, fn(slots)
    except Exception as e:                                      # noqa
        res.fail(exc_sig(clause, e), '%r on %r' % (e, slots))
        return False, None


def run_slots(case, res):
    fmt  = case.get('fmt') if case.get('fmt') in NEW_FMTS + OLD_FMTS else 'N_obj'
    spec = [s for s in case.get('slots') or [] if isinstance(s, dict)]
    want = [expect(s) for s in spec]
    mk   = lambda: [render(s, fmt) for s in spec]               # noqa: E731

    nodes = set(w[0] for w in want)
    res.nontrivial = len(nodes) >= 2 and any(w[3] for w in want)
    res.label('slots', 'slots:fmt=%s' % fmt, 'slots:n=%d' % min(len(spec), 3))

    if fmt in NEW_FMTS:
        # new -> old
        ok, old = _conv(res, 'slots_to_old_raised:%s' % fmt, convert_slots_to_old, mk())
        if not ok:
            return
        if not spec:
            if old:
                res.fail('slots_to_old:count:%s' % fmt, repr(old))
            return
        if not compare(res, 'slots_to_old', fmt, old, want, rs=True):
            return
        # what to_old produces is input of to_new
        ok, new2 = _conv(res, 'slots_new_of_old_raised', convert_slots_to_new,
                         copy.deepcopy(old))
        if not ok:
            return
        if not compare(res, 'slots_new_of_old', fmt, new2, want, rs=False):
            return
        # converting something new again changes nothing
        ok, new3 = _conv(res, 'slots_new_of_new_raised:%s' % fmt, convert_slots_to_new, mk())
        if ok:
            compare(res, 'slots_new_of_new', fmt, new3, want, rs=False)

    else:
        # old -> new
        ok, new = _conv(res, 'slots_to_new_raised:%s' % fmt, convert_slots_to_new, mk())
        if not ok:
            return
        if not spec:
            if new:
                res.fail('slots_to_new:count:%s' % fmt, repr(new))
            return
        if not compare(res, 'slots_to_new', fmt, new, want, rs=False):
            return
        # what to_new produces is input of to_old
        ok, old2 = _conv(res, 'slots_old_of_new_raised:%s' % fmt, convert_slots_to_old, new)
        if not ok:
            return
        if not compare(res, 'slots_old_of_new', fmt, old2, want, rs=True):
            return
        # ... also after the new slots crossed the wire
        ok, old3 = _conv(res, 'slots_old_of_new_raised:%s:wire' % fmt, convert_slots_to_old,
                         [wire(s.as_dict()) if isinstance(s, Slot) else s for s in new])
        if ok:
            compare(res, 'slots_old_of_new:wire', fmt, old3, want, rs=True)
        # and back once more (old -> new -> old -> new)
        ok, new4 = _conv(res, 'slots_new_of_old_raised', convert_slots_to_new,
                         copy.deepcopy(old2))
        if ok:
            compare(res, 'slots_new_of_old', fmt, new4, want, rs=False)

    # Slot construction from the formats its constructor documents / converts
    # (index lists, dicts, RO objects); Task.slots uses it on version-less slots
    if fmt != 'O_pair':
        for how in ('from_dict', 'kwargs', 'as_dict'):
            made = []
            try:
                for s in mk():
                    d = {k: s[k] for k in s.keys()}
                    if how == 'from_dict':
                        made.append(Slot(d))
                    elif how == 'kwargs':
                        made.append(Slot(**d))
                    else:
                        made.append(Slot(wire(Slot(d).as_dict())))
                for m in made:
                    m.verify()
            except Exception as e:                              # noqa
                res.fail(exc_sig('slot_ctor_raised:%s:%s' % (how, fmt), e), repr(e))
                continue
            if compare(res, 'slot_ctor:%s' % how, fmt, made, want, rs=False):
                if any(m.get('version') != 1 for m in made):
                    res.fail('slot_ctor:%s:version:%s' % (how, fmt), '')
