"""C20 helper: the payload DSL, its renderings per raptor task mode, and the
reference model of what a payload does (DESIGN.md 4/C20 (c)).

A *program* is a list of ops (plain JSON):

    ['out', text]        write text to the standard output
    ['err', text]        write text to the standard error
    ['setenv', k, v]     set an environment variable
    ['delenv', k]        delete an environment variable
    ['getenv', k]        write '<k=value>' (value '?' if unset) to stdout, as seen by os.environ / $k
    ['cgetenv', k]       same, but as seen at process level (libc getenv: what child
                         processes and C libraries of the request would see)
    ['swap_out']         replace the standard output by something else (later 'out' is lost)
    ['swap_err']         replace the standard error by something else
    ['raise', type, msg] fail (python: raise <type>(msg); sh: exit with a non-zero code)
    ['return', value]    succeed with that value (sh: exit 0, no value)

A program without 'raise'/'return' succeeds with value None.  Texts and values
never contain '<' or '>' so that the '<k=value>' observations can be separated
from the literal output.
"""
import io
import os
import re
import sys
import ctypes
import builtins

PY_MODES = ['func', 'func_kw', 'func_async', 'pytask', 'pytask_deco',
            'pytask_default', 'eval', 'exec']
SH_MODES = ['proc', 'shell']

EXC_TYPES = ['ValueError', 'RuntimeError', 'KeyError', 'ZeroDivisionError',
             'OSError', 'AssertionError', 'TypeError']
EXIT_CODES = {t: 3 + i for i, t in enumerate(EXC_TYPES)}

UNSET = '?'

_libc = ctypes.CDLL(None)
_libc.getenv.restype  = ctypes.c_char_p
_libc.getenv.argtypes = [ctypes.c_char_p]


def cgetenv(key):
    """process-level view of an environment variable (None if unset)"""
    v = _libc.getenv(key.encode())
    return None if v is None else v.decode('utf-8', 'replace')


def cgetenv_s(key):
    v = cgetenv(key)
    return UNSET if v is None else v


def disp_class(mode):
    """which dispatcher serves the mode (the call site of a restoration clause)"""
    return mode if mode in SH_MODES or mode in ('eval', 'exec') else 'func'


def mode_class(mode):
    """input class for the reporting clauses"""
    return 'func_' + mode if mode == 'pytask_default' else disp_class(mode)


# ------------------------------------------------------------------------------
# interpreter used by the function-like renderings (runs inside the dispatcher)
#
def run_prog(prog):
    for op in prog:
        o = op[0]
        if   o == 'out'     : sys.stdout.write(op[1])
        elif o == 'err'     : sys.stderr.write(op[1])
        elif o == 'setenv'  : os.environ[op[1]] = op[2]
        elif o == 'delenv'  : os.environ.pop(op[1], None)
        elif o == 'getenv'  : sys.stdout.write('<%s=%s>' % (op[1], os.environ.get(op[1], UNSET)))
        elif o == 'cgetenv' :
            v = cgetenv(op[1])
            sys.stdout.write('<%s=%s>' % (op[1], UNSET if v is None else v))
        elif o == 'swap_out': sys.stdout = io.StringIO()
        elif o == 'swap_err': sys.stderr = io.StringIO()
        elif o == 'raise'   : raise getattr(builtins, op[1])(op[2])
        elif o == 'return'  : return op[1]
    return None


async def run_prog_async(prog):
    return run_prog(prog)


# ------------------------------------------------------------------------------
# source renderings
#
_CG = "__import__('vlib.c20_payload', fromlist=['cgetenv_s']).cgetenv_s"


def render_eval(prog):
    """one python expression"""
    items = []
    val   = 'None'
    for op in prog:
        o = op[0]
        if   o == 'out'     : items.append("print(%r, end='')" % op[1])
        elif o == 'err'     : items.append("print(%r, end='', file=__import__('sys').stderr)" % op[1])
        elif o == 'setenv'  : items.append("__import__('os').environ.__setitem__(%r, %r)" % (op[1], op[2]))
        elif o == 'delenv'  : items.append("__import__('os').environ.pop(%r, None)" % op[1])
        elif o == 'getenv'  : items.append("print('<%s=' + __import__('os').environ.get(%r, %r) + '>', end='')"
                                           % (op[1], op[1], UNSET))
        elif o == 'cgetenv' : items.append("print('<%s=' + %s(%r) + '>', end='')"
                                           % (op[1], _CG, op[1]))
        elif o == 'swap_out': items.append("setattr(__import__('sys'), 'stdout', __import__('io').StringIO())")
        elif o == 'swap_err': items.append("setattr(__import__('sys'), 'stderr', __import__('io').StringIO())")
        elif o == 'raise'   :
            items.append("(_ for _ in ()).throw(%s(%r))" % (op[1], op[2]))
            break
        elif o == 'return'  :
            val = repr(op[1])
            break
    return '[%s][-1]' % ', '.join(items + [val])


def render_exec(prog):
    """python statements (body of the wrapper function of _dispatch_exec)"""
    lines = ['import os, sys, io']
    for op in prog:
        o = op[0]
        if   o == 'out'     : lines.append("sys.stdout.write(%r)" % op[1])
        elif o == 'err'     : lines.append("sys.stderr.write(%r)" % op[1])
        elif o == 'setenv'  : lines.append("os.environ[%r] = %r" % (op[1], op[2]))
        elif o == 'delenv'  : lines.append("os.environ.pop(%r, None)" % op[1])
        elif o == 'getenv'  : lines.append("sys.stdout.write('<%s=%%s>' %% os.environ.get(%r, %r))"
                                           % (op[1], op[1], UNSET))
        elif o == 'cgetenv' : lines.append("sys.stdout.write('<%s=%%s>' %% %s(%r))"
                                           % (op[1], _CG, op[1]))
        elif o == 'swap_out': lines.append("sys.stdout = io.StringIO()")
        elif o == 'swap_err': lines.append("sys.stderr = io.StringIO()")
        elif o == 'raise'   :
            lines.append("raise %s(%r)" % (op[1], op[2]))
            break
        elif o == 'return'  :
            lines.append("return %r" % (op[1],))
            break
    return '\n'.join(lines)


def shq(s):
    return "'" + s.replace("'", "'\\''") + "'"


def render_sh(prog):
    """a /bin/sh script"""
    lines = []
    for op in prog:
        o = op[0]
        if   o == 'out'     : lines.append("printf '%%s' %s" % shq(op[1]))
        elif o == 'err'     : lines.append("printf '%%s' %s >&2" % shq(op[1]))
        elif o == 'setenv'  : lines.append("export %s=%s" % (op[1], shq(op[2])))
        elif o == 'delenv'  : lines.append("unset %s" % op[1])
        elif o in ('getenv', 'cgetenv'):
            lines.append("printf '<%%s=%%s>' %s \"${%s-%s}\"" % (op[1], op[1], UNSET))
        elif o == 'swap_out': lines.append("exec 1>/dev/null")
        elif o == 'swap_err': lines.append("exec 2>/dev/null")
        elif o == 'raise'   :
            lines.append("exit %d" % EXIT_CODES.get(op[1], 9))
            break
        elif o == 'return'  :
            lines.append("exit 0")
            break
    return '\n'.join(lines) or ':'


# ------------------------------------------------------------------------------
# reference model
#
class Expect(object):
    __slots__ = ('ok', 'val', 'exc', 'out', 'err', 'prints', 'changes_env',
                 'swaps', 'env_after')


def model(prog, env, penv, sh=False):
    """what the program does when started with os.environ-level view `env` and
    process-level view `penv` (the two agree unless something is broken; the
    caller passes the view the statement promises: base + description).

    out/err are lists of segments: ('lit', text) | ('env'|'cenv', key, value)."""
    e = Expect()
    env  = dict(env)
    penv = dict(penv)
    e.out, e.err = [], []
    e.ok, e.val, e.exc = True, None, None
    e.prints = e.changes_env = e.swaps = False
    out_on = err_on = True
    for op in prog:
        o = op[0]
        if o == 'out':
            if op[1]:
                e.prints = True
                if out_on: e.out.append(('lit', op[1]))
        elif o == 'err':
            if op[1]:
                e.prints = True
                if err_on: e.err.append(('lit', op[1]))
        elif o == 'setenv':
            env[op[1]] = op[2]; penv[op[1]] = op[2]
            e.changes_env = True
        elif o == 'delenv':
            if op[1] in env or op[1] in penv:
                e.changes_env = True
            env.pop(op[1], None); penv.pop(op[1], None)
        elif o == 'getenv' or (sh and o == 'cgetenv'):
            e.prints = True
            if out_on: e.out.append(('env', op[1], env.get(op[1], UNSET)))
        elif o == 'cgetenv':
            e.prints = True
            if out_on: e.out.append(('cenv', op[1], penv.get(op[1], UNSET)))
        elif o == 'swap_out':
            out_on = False; e.swaps = True
        elif o == 'swap_err':
            err_on = False; e.swaps = True
        elif o == 'raise':
            e.ok, e.exc = False, op[1]
            break
        elif o == 'return':
            e.val = None if sh else op[1]
            break
    e.env_after = env
    return e


def match_output(segments, actual):
    """compare captured text with the expected segments.
    -> None if equal, else ('lit'|'env'|'cenv', detail)"""
    pat = ''
    for s in segments:
        if s[0] == 'lit':
            pat += re.escape(s[1])
        else:
            pat += re.escape('<%s=' % s[1]) + '([^<>]*)' + '>'
    m = re.fullmatch(pat, actual, re.S)
    if not m:
        exp = ''.join(s[1] if s[0] == 'lit' else '<%s=%s>' % (s[1], s[2]) for s in segments)
        return ('lit', 'expected %r got %r' % (exp, actual))
    obs = [s for s in segments if s[0] != 'lit']
    for s, got in zip(obs, m.groups()):
        if got != s[2]:
            return (s[0], '%s: expected %r got %r' % (s[1], s[2], got))
    return None
