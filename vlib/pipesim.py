"""pipesim: the composed client/agent pipeline for C05 (DESIGN.md 3.6).

client side (session 'client'):  hollow TaskManager (real submit_tasks/_state_sub_cb/callbacks/cancel_tasks),
    real RoundRobin tmgr scheduler, real tmgr staging input/output
agent side (session 'pilot.0000'): real agent staging input/output, real Continuous scheduler
    (schedsim: loop in a baton thread), real Popen executor (execsim: its activities as baton threads)
between the sides: STATE and CONTROL pubsubs joined by the real Session._crosswire_proxy closures
    over a shared pair of proxy pubsubs; the two queue hops of Agent_0 (_proxy_input_cb /
    _proxy_output_cb: queue to queue, unchanged) are harness stand-ins.
"""
import os

from . import boot
from .hollow   import HollowSession, HollowPmgr, hollow_tmgr, real_pilot, comp_cfg
from .memnet   import Net
from .detsched import Baton
from . import schedsim, execsim
from .c12_sim  import make_scheduler
from .runner   import exc_sig

import radical.utils as ru
import radical.pilot as rp
import radical.pilot.states    as rps
import radical.pilot.constants as rpc
import radical.pilot.utils     as rpu
import radical.pilot.utils.component as rpu_component

from radical.pilot.tmgr.staging_input.default   import Default as TmgrIn
from radical.pilot.tmgr.staging_output.default  import Default as TmgrOut
from radical.pilot.agent.staging_input.default  import Default as AgentIn
from radical.pilot.agent.staging_output.default import Default as AgentOut

PID = 'pilot.0000'
PID2 = 'pilot.0001'     # optional second pilot: client side real, agent a harness stub
SID = 'rp.session.verif.pipe'
PROXIES = [rpc.PROXY_CONTROL_PUBSUB, rpc.PROXY_STATE_PUBSUB]


class InjectedFault(RuntimeError):
    pass


def _build(cls, base, session, uid):
    comp = cls.__new__(cls)
    base.__init__(comp, comp_cfg(session, uid), session)
    comp._initialize()
    return comp


class PipeSim(object):

    MAX_ROUNDS = 400

    def __init__(self, layout, add_pilot=True, two=False):
        self.problems = []
        self.two = two
        self.stub_ran = set()
        self.late_cancel = set()
        self.release_slow = False    # 'slow' processes only end once the workload is drained
        self._n_comp = len(rpu_component._components)
        base = boot.case_dir('pipe.')
        self.cdir = os.path.join(base, 'client')
        self.rdir = os.path.join(base, 'remote')
        os.makedirs(self.cdir)
        os.makedirs(self.rdir)

        net = Net(auto=True)
        self.net = net
        proxy = {name: net.add_pubsub(name, ns='proxy') for name in PROXIES}
        self.client = HollowSession(net=net, uid=SID, module='client', ns='client',
                                    role=rp.Session._PRIMARY, sandbox=self.cdir, bridges=False)
        self.agent  = HollowSession(net=net, uid=SID, module=PID, ns=PID,
                                    role=rp.Session._AGENT_0, sandbox=self.cdir, bridges=False)
        for sess in (self.client, self.agent):
            keep = sess._rcfgs
            sess._rcfgs     = ru.Config()
            sess._proxy_cfg = {k: dict(v) for k, v in proxy.items()}
            sess._publish_cfg()              # real: proxy channels -> registry
            sess._rcfgs = keep
            sess.register_bridges()          # what the component managers register
            sess._crosswire_proxy()          # real forwarder closures

        # ---- client side
        self.tmgr  = hollow_tmgr(self.client)
        self.pmgr  = HollowPmgr(self.client)
        self.pilot = real_pilot(self.pmgr, PID, sandbox=self.rdir, cores=64)
        self.pilot2 = real_pilot(self.pmgr, PID2, sandbox=self.rdir, cores=64) if two else None
        pd = self.pilot.as_dict()
        self.client._reg['cfg.session_sandbox'] = str(self.client._get_session_sandbox(pd))
        self.psbox = ru.Url(pd['pilot_sandbox']).path
        self.tsched = make_scheduler('round_robin', self.client, self.tmgr.uid)
        self.tin  = _build(TmgrIn,  rpu.ClientComponent, self.client, 'tmgr.0000.staging.input.0000')
        self.tout = _build(TmgrOut, rpu.ClientComponent, self.client, 'tmgr.0000.staging.output.0000')
        self.pilot_added = False
        if add_pilot:
            self.add_pilot()

        # ---- agent side
        self.agent._cfg.update({'pid': PID})
        self.agent._reg['cfg.session_sandbox'] = self.client._reg['cfg.session_sandbox']
        self.baton = Baton()
        self.ssim = schedsim.SchedSim(layout, session=self.agent, baton=self.baton)
        self.xsim = execsim.ExecSim(session=self.agent, baton=self.baton, psbox=self.psbox)
        self.ain  = _build(AgentIn,  rpu.AgentComponent, self.agent, 'agent_0.staging.input.0000')
        self.aout = _build(AgentOut, rpu.AgentComponent, self.agent, 'agent_0.staging.output.0000')

        self.comps = {'tsched': self.tsched, 'tin': self.tin, 'tout': self.tout,
                      'ain': self.ain, 'aout': self.aout,
                      'asched': self.ssim.C, 'aexec': self.xsim.comp}
        self.faults = {}     # uid -> component key
        self.fired  = set()  # uids whose injected handler fault actually fired
        self._wrap_handlers()

        self.final_seen = {}     # uid -> list of final states announced to the callback
        self.all_seen   = {}
        self.tmgr.register_callback(self._cb)
        self.tasks = []
        self.spec  = {}
        self.cancel_req = set()
        self.n_exec_threads = 0

    def add_pilot(self):
        if not self.pilot_added:
            self.pilot_added = True
            # real: control message to scheduler + stager
            self.tmgr.add_pilots([self.pilot, self.pilot2] if self.two else self.pilot)

    # --------------------------------------------------------------------------
    def bad(self, sig, msg=''):
        self.problems.append(('C05', sig, msg))

    def _cb(self, task, state):
        self.all_seen.setdefault(task.uid, []).append(state)
        if state in rps.FINAL:
            self.final_seen.setdefault(task.uid, []).append(state)

    # per-task handlers of the components: an injected exception there must fail that
    # task only
    HANDLERS = {'tin': '_handle_task', 'ain': '_handle_task_staging', 'aout': '_handle_task_staging',
                'tout': '_handle_task', 'aexec': '_handle_task', 'tsched': '_assign_pilot',
                'aout_stdio': '_handle_task_stdio'}

    def _wrap_handlers(self):
        sim = self
        for key, meth in self.HANDLERS.items():
            comp = self.comps[key.split('_')[0]]
            real = getattr(comp, meth, None)
            if real is None:
                continue

            def wrapper(*a, _real=real, _key=key, **k):
                task = None
                for x in a:
                    if isinstance(x, dict) and 'uid' in x:
                        task = x
                        break
                if task is not None and sim.faults.get(task['uid']) == _key:
                    sim.fired.add(task['uid'])
                    raise InjectedFault('injected fault in %s for %s' % (_key, task['uid']))
                return _real(*a, **k)
            setattr(comp, meth, wrapper)

    # --------------------------------------------------------------------------
    def submit(self, specs):
        tds = []
        for s in specs:
            i = len(self.tasks) + len(tds)
            uid = 'task.%06d' % i
            d = {'uid': uid, 'executable': '/bin/true', 'ranks': s.get('ranks', 1),
                 'cores_per_rank': s.get('cores_per_rank', 1)}
            if s.get('named'):
                d['pilot'] = PID
            elif s.get('named2') and self.two:
                d['pilot'] = PID2
            ins, outs = [], []
            if s.get('stage_in'):
                src = os.path.join(self.cdir, 'in.%d.dat' % i)
                with open(src, 'w') as f:
                    f.write('input %d\n' % i)
                ins.append({'source': 'client:///%s' % os.path.basename(src),
                            'target': 'task:///in.dat', 'action': rp.TRANSFER})
            f = s.get('fault')
            if f == 'tin_missing_source':
                ins.append({'source': 'client:///missing.%d' % i, 'target': 'task:///m.dat',
                            'action': rp.TRANSFER})
            elif f == 'ain_missing_source':
                ins.append({'source': 'pilot:///missing.%d' % i, 'target': 'task:///m.dat',
                            'action': rp.COPY})
            elif f == 'aout_missing_source':
                outs.append({'source': 'task:///never_written.%d' % i,
                             'target': 'pilot:///o.%d' % i, 'action': rp.COPY})
            elif f == 'ain_missing_link':
                ins.append({'source': 'pilot:///missing.%d' % i, 'target': 'task:///l.dat',
                            'action': rp.LINK})
            elif f == 'aout_missing_link':
                outs.append({'source': 'task:///never_written.%d' % i,
                             'target': 'pilot:///ol.%d' % i, 'action': rp.LINK})
            elif f == 'tout_missing_source':
                outs.append({'source': 'task:///never_written.%d' % i,
                             'target': 'client:///o.%d' % i, 'action': rp.TRANSFER})
            if s.get('soe'):
                # stage_on_error + an output transfer which can be carried out (the launch output file
                # exists as soon as the task was launched)
                d['stage_on_error'] = True
                outs.append({'source': 'task:///%s.launch.out' % uid, 'target': 'client:///soe.%d.out' % i,
                             'action': rp.TRANSFER})
            if ins:
                d['input_staging'] = ins
            if outs:
                d['output_staging'] = outs
            if s.get('timeout'):
                d['timeout'] = float(s['timeout'])
            tds.append(rp.TaskDescription(d))
            self.spec[uid] = dict(s)
            if f in ('no_launcher', 'spawn', 'script', 'open'):
                self.xsim.fault_of[uid] = f
            elif f and f.startswith('exc:'):
                self.faults[uid] = f[4:]
            self.xsim.tasks[uid] = {'exit': s.get('exit', 0)}
        try:
            ts = self.tmgr.submit_tasks(tds)
        except Exception as e:         # noqa
            self.bad(exc_sig('submit_raised', e), repr(e))
            return
        self.tasks.extend(ts)

    def cancel(self, ks, late=False):
        if not self.tasks:
            return
        uids = sorted(set(self.tasks[k % len(self.tasks)].uid for k in ks))
        self.cancel_req.update(uids)
        if late:
            # the request crosses the process' own exit: the processes of the named tasks have
            # ended, the executor's watcher has not made its next pass yet
            for p in self.xsim.procs:
                if p.uid in uids and p.returncode is None and not self.spec.get(p.uid, {}).get('hang'):
                    p.returncode = self.xsim.tasks[p.uid].get('exit', 0)
                    self.late_cancel.add(p.uid)
        self.tmgr.cancel_tasks(uids)

    # --------------------------------------------------------------------------
    def _q(self, sess, qname, sub='default'):
        return self.net.q_get(sess._reg['bridges.%s' % qname]['addr_put'], sub)

    def _put(self, sess, qname, tasks, sub='default'):
        if tasks:
            self.net.q_put(sess._reg['bridges.%s' % qname]['addr_put'], sub, tasks)

    def _poll(self, name):
        """one poll of one pipeline stage; returns True when it did something"""
        before = len(self.net.log)
        try:
            if name == 'tsched':
                self.tsched.work_cb()
            elif name == 'tin':
                self.tin.work_cb()
            elif name == 'hop_in':       # Agent_0._proxy_input_cb
                ts = self._q(self.client, rpc.PROXY_TASK_QUEUE, PID)
                self._put(self.agent, rpc.AGENT_STAGING_INPUT_QUEUE, ts)
                if self.two:
                    self._stub_agent(self._q(self.client, rpc.PROXY_TASK_QUEUE, PID2))
            elif name == 'ain':
                self.ain.work_cb()
            elif name == 'asched':
                self.ssim.P.work_cb()
                self.ssim.settle()
            elif name == 'aexec':
                self._run_executor()
            elif name == 'aout':
                self.aout.work_cb()
            elif name == 'hop_out':      # Agent_0._proxy_output_cb
                ts = self._q(self.agent, rpc.AGENT_COLLECTING_QUEUE)
                self._put(self.client, rpc.PROXY_TASK_QUEUE, ts, SID)
            elif name == 'tout':
                self.tout.work_cb()
        except InjectedFault as e:
            # escaped the component altogether
            self.bad('injected_fault_escaped_component:%s' % name, repr(e))
        except Exception as e:       # noqa
            self.bad(exc_sig('component_raised:%s' % name, e), repr(e))
        return len(self.net.log) != before

    def _stub_agent(self, tasks):
        """the second pilot's agent (trusted stand-in): runs each task at once with its scripted
        exit code, carries out no agent-side staging, and hands the task back to the client the
        way agent output staging + Agent_0._proxy_output_cb do"""
        out = []
        for t in tasks or []:
            uid  = t['uid']
            code = self.spec[uid].get('exit', 0)
            sbox = t['task_sandbox_path']
            os.makedirs(sbox, exist_ok=True)
            open('%s/%s.launch.out' % (sbox, uid), 'w').close()
            t['stdout'], t['stderr'] = '', ''
            t['exit_code']    = code
            t['target_state'] = rps.FAILED if code else rps.DONE
            if code:
                t['exception']        = 'RuntimeError("task failed")'
                t['exception_detail'] = 'exit code: %s' % code
            t['state'] = rps.TMGR_STAGING_OUTPUT_PENDING
            self.stub_ran.add(uid)
            out.append(t)
        self._put(self.client, rpc.PROXY_TASK_QUEUE, out, SID)

    def _run_executor(self):
        x = self.xsim
        url = x.url_exec
        if self.net.q_len(url):
            name = 'intake.%d' % len(x.dyn)
            ct = self.baton.spawn(name, x.comp.work_cb)
            ct.blocked = None
            x.dyn.append(name)
        # run all executor activities to their idle points, let processes exit
        for _ in range(6):
            x._round()
            for p in x.procs:
                sp = self.spec.get(p.uid, {})
                if p.returncode is None and not sp.get('hang') and \
                        (not sp.get('slow') or self.release_slow):
                    p.returncode = x.tasks[p.uid].get('exit', 0)
        x._round()
        for pr in x.problems:
            if pr[0] == 'C07' and pr[1].startswith('activity_died'):
                self.bad('executor_' + pr[1], pr[2])
        x.problems[:] = []

    def _fingerprint(self):
        return (tuple(t.state for t in self.tasks), self.net.q_len(),
                self.xsim._fingerprint(), tuple(sorted(self.ssim.status.items())),
                len(self.ssim.holders))

    STAGES = ['tsched', 'tin', 'hop_in', 'ain', 'asched', 'aexec', 'aout', 'hop_out', 'tout']

    def pump(self, order=()):
        """poll the stages (generated order first, then round robin) until nothing moves"""
        for k in order:
            self._poll(self.STAGES[k % len(self.STAGES)])
        idle = 0
        fp = self._fingerprint()
        for _ in range(self.MAX_ROUNDS):
            for st in self.STAGES:
                self._poll(st)
            if not self.ssim.quiescent():
                self.ssim.settle()
            fp2 = self._fingerprint()
            idle = idle + 1 if fp2 == fp else 0
            fp = fp2
            if idle >= 2:
                return True
        self.bad('no_quiescence', 'pipeline did not settle in %d rounds' % self.MAX_ROUNDS)
        return False

    # --------------------------------------------------------------------------
    def judge(self, uids=None):
        for task in self.tasks:
            uid = task.uid
            if uids is not None and uid not in uids:
                continue
            s = self.spec[uid]
            f = s.get('fault')
            if f and f.startswith('exc:') and uid not in self.fired:
                f = None       # the handler was never reached for this task (e.g. nothing to stage)
            if f and uid in self.stub_ran and f not in ('tout_missing_source',) and uid not in self.fired:
                f = None       # ran on the stub agent: no agent-side staging / launch faults there
            fin = self.final_seen.get(uid, [])
            st = task.state
            if st not in rps.FINAL:
                self.bad('task_not_final:%s' % (f or ('cancel' if uid in self.cancel_req else 'no_fault')),
                         '%s is %s; callback saw %s' % (uid, st, self.all_seen.get(uid)))
                continue
            if len(fin) != 1:
                self.bad('final_state_announced_%d_times' % len(fin), '%s: %s' % (uid, fin))
            elif fin[0] != st:
                self.bad('task_state_differs_from_announced', '%s: %s vs %s' % (uid, st, fin[0]))
            code = s.get('exit', 0)
            bad_exit = bool(code) and not f
            if st == rps.DONE:
                if f or bad_exit:
                    self.bad('done_despite:%s' % (f or 'exit_nonzero'), uid)
                if task.exit_code not in (0, None) or (task.exit_code is None and not f):
                    if task.exit_code != 0:
                        self.bad('done_without_exit_code_zero', '%s: %s' % (uid, task.exit_code))
            elif st == rps.FAILED:
                if not f and not bad_exit:
                    self.bad('failed_without_cause%s' % (':cancel_requested' if uid in self.cancel_req else ''),
                             '%s: exception %s' % (uid, task.exception))
                if not (task.exception or task.exit_code):
                    self.bad('failed_without_record:%s' % (f or 'exit_nonzero'), uid)
            elif st == rps.CANCELED:
                if uid not in self.cancel_req and not s.get('timeout'):
                    self.bad('canceled_without_request', uid)
        for ev in self.net.log:
            if ev[0] == 'cb_error':
                self.bad(exc_sig('subscriber_callback_raised', ev[3]), repr(ev[3]))

    def close(self):
        try:
            self.ssim.C._term.set()
            self.xsim.comp._term.set()
            for p in self.xsim.procs:
                if p.returncode is None:
                    p.returncode = -9
            self.baton.finish_all()
        finally:
            for h in self.xsim.handles:
                try:
                    h.close()
                except Exception:
                    pass
            schedsim._CTX['sim'] = None
            execsim._CTX['sim'] = None
            del rpu_component._components[self._n_comp:]


def run_pipeline(case):
    sim = PipeSim(case.get('layout') or {'nodes': 2, 'cores': 4, 'gpus': 0, 'lfs': 0, 'mem': 0},
                  add_pilot=not case.get('late_add'), two=bool(case.get('two')))
    try:
        for op in case.get('ops', []):
            if op[0] == 'submit':
                sim.submit(op[1])
            elif op[0] == 'poll':
                for k in op[1]:
                    sim._poll(sim.STAGES[int(k) % len(sim.STAGES)])
            elif op[0] == 'cancel':
                sim.cancel([int(k) for k in op[1]], late=bool(op[2]) if len(op) > 2 else False)
            elif op[0] == 'pump':
                sim.pump()
            elif op[0] == 'add_pilot':
                sim.add_pilot()
        sim.add_pilot()
        sim.release_slow = True
        if sim.pump(case.get('order', [])):
            first = set(t.uid for t in sim.tasks)
            sim.judge(first)
            # the components survived: a second, fault-free workload completes
            n0 = len(sim.tasks)
            sim.submit([{'exit': 0}, {'exit': 0, 'stage_in': True}])
            if sim.pump():
                for t in sim.tasks[n0:]:
                    if t.state != rps.DONE:
                        sim.bad('second_workload_not_done', '%s is %s (%s)'
                                % (t.uid, t.state, t.exception))
    finally:
        sim.close()
    return sim
