"""schedsim: the agent scheduler pair (DESIGN.md 3.6) and the oracles of
C01 (no oversubscription), C02 (shape), C03a (release), C04 (no loss / no
starvation), evaluated online over one generated history.

P = real Continuous / ContinuousJsrun after its real __init__/_initialize/
    initialize (mp.Process -> not started, mp.Queue -> FakeQueue, ru.PWatcher
    -> no-op, ResourceManager.create -> FakeRM)
C = fork-like copy of P with its own mutable state but the SAME queue objects,
    running the real `_schedule_tasks()` loop in a baton-passing thread.
"""
import os
import re
import json
import copy
import math
import threading

from . import boot                                      # noqa: F401
from .hollow   import HollowSession, comp_cfg
from .detsched import Baton, FakeQueue, FakeEvent, FakeProcess, FakeTime

import radical.utils as ru
import radical.pilot as rp
import radical.pilot.states    as rps
import radical.pilot.constants as rpc

import radical.pilot.agent.scheduler.base as sbase
from radical.pilot.agent.scheduler.continuous       import Continuous
from radical.pilot.agent.scheduler.continuous_jsrun import ContinuousJsrun
from radical.pilot.agent.resource_manager.base      import RMInfo

EPS = 1e-9
_CTX = {'sim': None}


# ------------------------------------------------------------------------------
# module-level rebinding (harness process only)
#
class _MP(object):
    @staticmethod
    def Queue(*a, **k):
        sim = _CTX['sim']
        sim._nq += 1
        return FakeQueue(sim.baton, name=['sched', 'unsched'][(sim._nq - 1) % 2])

    @staticmethod
    def Event(*a, **k):
        return FakeEvent(_CTX['sim'].baton)

    Process = FakeProcess


class _Time(object):
    def time(self):
        return _CTX['sim'].ftime.time()

    def sleep(self, dt):
        return _CTX['sim'].ftime.sleep(dt)

    def __getattr__(self, name):
        import time as _t
        return getattr(_t, name)


class _RMFactory(object):
    @staticmethod
    def create(name, cfg, rcfg, log, prof):
        return _CTX['sim'].rm


class _PWatcher(object):
    def __init__(self, *a, **k):
        pass

    def watch(self, *a, **k):
        pass

    def stop(self, *a, **k):
        pass


sbase.mp              = _MP()
sbase.time            = _Time()
sbase.ResourceManager = _RMFactory()
ru.PWatcher           = _PWatcher


class FakeRM(object):
    def __init__(self, info, partition_ids=None):
        self.info = info
        self._pids = partition_ids or []

    def get_partition_ids(self):
        return self._pids


# ------------------------------------------------------------------------------
def make_rm(layout):
    """layout: {'nodes':N, 'cores':c, 'gpus':g, 'lfs':l, 'mem':m,
                'blocked_cores':[...], 'blocked_gpus':[...]}
    built the way ResourceManager._init_from_scratch builds rm_info"""
    n  = max(1, int(layout['nodes']))
    c  = max(1, int(layout['cores']))
    g  = max(0, int(layout.get('gpus', 0)))
    bc = sorted(set(int(i) % c for i in layout.get('blocked_cores', [])))
    bg = sorted(set(int(i) % g for i in layout.get('blocked_gpus', []))) if g else []
    if len(bc) >= c:
        bc = bc[:c - 1]
    nodes = []
    for i in range(n):
        nodes.append({'name': 'node%03d' % i, 'index': i,
                      'cores': [rpc.DOWN if k in bc else rpc.FREE for k in range(c)],
                      'gpus' : [rpc.DOWN if k in bg else rpc.FREE for k in range(g)],
                      'lfs'  : int(layout.get('lfs', 0)),
                      'mem'  : int(layout.get('mem', 0))})
    info = RMInfo({'requested_nodes': n, 'requested_cores': n * c,
                   'requested_gpus': n * g, 'node_list': nodes,
                   'cores_per_node': c - len(bc), 'gpus_per_node': g - len(bg),
                   'threads_per_core': 1,
                   'lfs_per_node': int(layout.get('lfs', 0)),
                   'mem_per_node': int(layout.get('mem', 0))})
    return FakeRM(info), {'n': n, 'c': c, 'g': g, 'bc': bc, 'bg': bg,
                          'lfs': int(layout.get('lfs', 0)),
                          'mem': int(layout.get('mem', 0))}


def norm_slots(slots):
    """both slot formats -> [{'node', 'name', 'cores':[idx], 'gpus':[(idx,occ)],
    'lfs', 'mem', 'nranks'}] (one record per slot)"""
    out = []
    for s in slots or []:
        cores, gpus, nr = [], [], 1
        rc = s.get('cores') or []
        if rc and isinstance(rc[0], (list, tuple)):
            # resource-set format (jsrun): list of core maps, one per rank
            nr = len(rc)
            for cm in rc:
                cores.extend(int(i) for i in cm)
            gset = set()
            for gm in s.get('gpus') or []:
                gset.update(int(i) for i in gm)
            gpus.extend((i, 1.0) for i in sorted(gset))
        else:
            for ro in rc:
                if isinstance(ro, dict):
                    cores.append(int(ro['index']))
                else:
                    cores.append(int(ro))
            for ro in s.get('gpus') or []:
                if isinstance(ro, dict):
                    occ = ro.get('occupation')
                    gpus.append((int(ro['index']), 1.0 if occ is None else float(occ)))
                else:
                    gpus.append((int(ro), 1.0))
        out.append({'node': s.get('node_index'), 'name': s.get('node_name'),
                    'cores': cores, 'gpus': gpus,
                    'lfs': s.get('lfs') or 0, 'mem': s.get('mem') or 0,
                    'nranks': nr})
    return out


# ------------------------------------------------------------------------------
class SchedSim(object):

    MAX_SETTLE = 4000

    def __init__(self, layout, cls='continuous', scattered=True, session=None, baton=None,
                 reconfig=None):
        self.problems = []          # (property, signature, message)
        self.stats    = {'grants': 0, 'grants_shared_node': 0, 'waited': 0,
                         'canceled_waiting': 0, 'failed_unsched': 0,
                         'app_placed': 0, 'releases': 0, 'bulk_release': 0, 'frac_gpu': 0,
                         'lfs_mem': 0, 'blocked': 0, 'multi_node': 0,
                         'rpn': 0, 'colo': 0, 'oversize_rejected': 0,
                         'out_of_order_release': 0, 'quiescent_idle': 0,
                         'probe_ok': 0, 'max_wait_pool': 0, 'steps': 0,
                         'app_skipped_conflict': 0, 'cancel_running': 0}
        self.labels   = set()

        self.baton = baton or Baton()
        self.ftime = FakeTime(self.baton)
        self._nq   = 0
        _CTX['sim'] = self

        self.rm, self.L = make_rm(layout)
        self.jsrun = (cls == 'jsrun')

        self.sess = session or HollowSession(module='pilot.0000', uid='rp.session.verif.sched')
        rcfg = {'resource_manager': 'FAKE', 'agent_scheduler': 'CONTINUOUS',
                'launch_methods': {}, 'scattered': bool(scattered)}
        if session is not None and session._rcfg:
            rcfg = dict(session._rcfg.as_dict(), **rcfg)
        self.sess._rcfg = ru.Config(cfg=rcfg)
        self.net = self.sess.net
        reg = self.sess._reg
        self.url_exec  = reg['bridges.%s' % rpc.AGENT_EXECUTING_QUEUE]['addr_put']
        self.url_sched = reg['bridges.%s' % rpc.AGENT_SCHEDULING_QUEUE]['addr_put']
        self.url_state = reg['bridges.%s' % rpc.STATE_PUBSUB]['addr_pub']
        self.pub_unsched = self.sess.fakes.Publisher(
            rpc.AGENT_UNSCHEDULE_PUBSUB,
            url=reg['bridges.%s' % rpc.AGENT_UNSCHEDULE_PUBSUB]['addr_pub'])
        self.pub_ctrl = self.sess.fakes.Publisher(
            rpc.CONTROL_PUBSUB,
            url=reg['bridges.%s' % rpc.CONTROL_PUBSUB]['addr_pub'])

        klass = ContinuousJsrun if self.jsrun else Continuous
        cfg = comp_cfg(self.sess, 'agent_scheduling.0000', pid='pilot.0000',
                       kind='agent_scheduling')
        self.reconfig = None
        if cls == 'reconfig':
            from radical.pilot.agent.scheduler.continuous_reconfig import ContinuousReconfig
            klass = ContinuousReconfig
            self.reconfig = {k: v for k, v in (reconfig or {}).items()
                             if k in ('ranks', 'cores_per_rank') and v is not None}
            path = os.path.join(boot.case_dir('reconfig'), 'task_reqs.json')
            with open(path, 'w') as f:
                json.dump(self.reconfig, f)
            cfg.reconfig_src = path
            self.labels.add('reconfig_scheduler')
        P = klass(cfg, self.sess)
        P._initialize()                       # real base + real initialize()
        self.P = P
        self.initial_nodes = copy.deepcopy(P.nodes)

        # fork()
        C = copy.copy(P)
        for a in ('nodes', '_waitpool', '_ts_map', '_named_envs', '_colo_history',
                  '_tagged_nodes', '_cancel_list'):
            setattr(C, a, copy.deepcopy(getattr(P, a)))
        for a in ('_inputs', '_outputs', '_workers', '_publishers',
                  '_subscribers', '_threads', '_rpc_reqs', '_rpc_handlers'):
            setattr(C, a, dict(getattr(P, a)))
        C._cancel_lock = threading.RLock()
        C._cb_lock     = threading.RLock()
        C._rpc_lock    = threading.RLock()
        self.C = C
        self.skipped = set()         # uids lazy_bisect skipped since the last release
        C._prof_sched_skip = lambda task: self.skipped.add(task['uid'])
        self.baton.spawn('loop', C._schedule_tasks)
        # let the child run its start-up (subscriptions) up to the first get
        self._log_pos = 0
        self.loop_tag = self.baton.resume('loop')

        # model / observation state
        self.accepted = {}      # uid -> spec (incl. resolved description)
        self.order    = []      # uids in acceptance order
        self.status   = {}      # uid -> 'waiting' | 'started' | 'failed' | 'canceled'
        self.reports  = {}      # uid -> {'started':n,'failed':n,'canceled':n}
        self.holders  = {}      # uid -> {'slots': norm, 'task': dict, 'app': bool}
        self.hold_seq = []      # uids in grant order
        self.colo     = {}      # tag -> set(node indices) of earlier grants
        self.cancel_req = set()
        self.app_nodelist = None
        self.fail_msg = {}
        self._uidc    = 0
        self._absorb()

    # --------------------------------------------------------------------------
    def bad(self, prop, sig, msg=''):
        self.problems.append((prop, sig, msg))

    # --------------------------------------------------------------------------
    def _loop_check(self):
        ct = self.baton.threads['loop']
        if ct.done and not self.C._term.is_set():
            e = ct.exc
            from .runner import exc_sig
            if e is not None:
                self.bad('C04', exc_sig('scheduler_loop_died', e), repr(e))
            else:
                self.bad('C04', 'scheduler_loop_ended', 'loop returned')
            return False
        return not ct.done

    def step(self, n=1):
        for _ in range(max(0, n)):
            if not self._loop_check():
                return False
            self.loop_tag = self.baton.resume('loop')
            self.stats['steps'] += 1
            self._absorb()
        return True

    def quiescent(self):
        return (self.loop_tag == 'sleep' and
                self.P._queue_sched.empty() and self.P._queue_unsched.empty())

    def settle(self):
        """run the loop until it idles (a full iteration with nothing to do)
        with both queues empty"""
        n = 0
        if self.quiescent():
            # one more full iteration: something may have been injected
            pass
        seen_sleep = 0
        while n < self.MAX_SETTLE:
            if not self.step(1):
                return False
            n += 1
            if self.quiescent():
                seen_sleep += 1
                if seen_sleep >= 2:      # two consecutive idle iterations
                    self._at_quiescence()
                    return True
            elif self.loop_tag == 'sleep':
                seen_sleep = 0
        self.bad('C04', 'no_quiescence', 'scheduler loop did not idle within %d '
                 'yield points' % self.MAX_SETTLE)
        return False

    # --------------------------------------------------------------------------
    def _absorb(self):
        """consume new transport events: grants, failures, cancellations"""
        log = self.net.log
        while self._log_pos < len(log):
            ev = log[self._log_pos]
            self._log_pos += 1
            if ev[0] == 'put' and ev[1] == self.url_exec:
                for t in ev[3]:
                    self._on_grant(t)
            elif ev[0] == 'pub' and ev[1] == self.url_state:
                msg = ev[3]
                if msg.get('cmd') != 'update':
                    continue
                for t in ru.as_list(msg.get('arg')):
                    st = t.get('state')
                    if st == rps.FAILED:
                        self._on_final(t, 'failed')
                    elif st == rps.CANCELED:
                        self._on_final(t, 'canceled')
            elif ev[0] == 'cb_error':
                from .runner import exc_sig
                self.bad('C04', exc_sig('callback_raised', ev[3]), repr(ev[3]))

    def _report(self, uid, what):
        if uid not in self.accepted:
            self.bad('C04', 'report_for_unknown_task', '%s %s' % (uid, what))
            return False
        r = self.reports.setdefault(uid, {'started': 0, 'failed': 0, 'canceled': 0})
        r[what] += 1
        if r[what] > 1:
            self.bad('C04', 'reported_twice:%s' % what, uid)
        others = [k for k in r if k != what and r[k]]
        if others:
            # a started (running) task that is later canceled/failed by the
            # executor is not the scheduler's report; those never reach us here
            self.bad('C04', 'two_outcomes:%s+%s' % (sorted(others + [what])[0],
                                                     sorted(others + [what])[-1]),
                     '%s: %s' % (uid, r))
        self.status[uid] = what
        return True

    def _on_final(self, t, what):
        uid = t['uid']
        if not self._report(uid, what):
            return
        if what == 'failed':
            self.fail_msg[uid] = '%s %s' % (t.get('exception'), t.get('exception_detail'))
            self._check_failed(uid, t)
        else:
            if uid not in self.cancel_req:
                self.bad('C08', 'canceled_without_request', uid)
            self.stats['canceled_waiting'] += 1

    # --------------------------------------------------------------------------
    # C01 / C02 at every grant
    #
    def _on_grant(self, t):
        uid = t['uid']
        if self.reports.get(uid, {}).get('canceled'):
            self.bad('C08', 'canceled_task_started', '%s was reported CANCELED and is then '
                     'passed on for execution' % uid)
        if not self._report(uid, 'started'):
            return
        spec  = self.accepted[uid]
        slots = norm_slots(t.get('slots'))
        app   = bool(spec.get('app'))
        self.stats['grants'] += 1
        if t.get('state') != rps.AGENT_EXECUTING_PENDING:
            self.bad('C04', 'started_in_wrong_state', '%s: %s' % (uid, t.get('state')))

        L = self.L
        # ---- C01: structural validity
        for s in slots:
            if s['node'] is None or not (0 <= s['node'] < L['n']):
                self.bad('C01', 'slot_on_unknown_node', '%s: %s' % (uid, s))
                continue
            for c in s['cores']:
                if not (0 <= c < L['c']):
                    self.bad('C01', 'core_index_out_of_range', '%s: %s' % (uid, s))
                elif c in L['bc']:
                    self.bad('C01', 'blocked_core_granted%s' % (':app' if app else ''),
                             '%s: core %d on node %d' % (uid, c, s['node']))
            for g, occ in s['gpus']:
                if not (0 <= g < L['g']):
                    self.bad('C01', 'gpu_index_out_of_range', '%s: %s' % (uid, s))
                elif g in L['bg']:
                    self.bad('C01', 'blocked_gpu_granted%s' % (':app' if app else ''),
                             '%s: gpu %d on node %d' % (uid, g, s['node']))

        # ---- C01: disjointness over H + {T}
        cores, gpus, lfs, mem = self._occupancy()
        shared = False
        for s in slots:
            nd = s['node']
            if any(h_nd == nd for (h_nd, _c) in cores) or any(h_nd == nd for (h_nd, _g) in gpus):
                shared = True
            for c in s['cores']:
                k = (nd, c)
                if k in cores:
                    holder = cores[k]
                    kind = self._pair_kind(uid, holder)
                    if kind == 'app_over_sched':
                        self.stats['app_skipped_conflict'] += 1   # not demanded
                    else:
                        self.bad('C01', 'core_held_twice:%s' % kind,
                                 'core %s granted to %s while held by %s' % (k, uid, holder))
                cores[k] = uid
            for g, occ in s['gpus']:
                k = (nd, g)
                cur = gpus.get(k, (0.0, []))
                tot = cur[0] + occ
                if tot > 1.0 + EPS:
                    holders = cur[1]
                    kind = ('same_task' if holders and all(h == uid for h in holders)
                            else self._pair_kind(uid, holders[0] if holders else uid))
                    if kind != 'app_over_sched':
                        self.bad('C01', 'gpu_oversubscribed:%s' % kind,
                                 'gpu %s: %.3f held by %s + %.3f for %s'
                                 % (k, cur[0], holders, occ, uid))
                gpus[k] = (tot, cur[1] + [uid])
            lfs[nd] = lfs.get(nd, 0) + s['lfs']
            mem[nd] = mem.get(nd, 0) + s['mem']
            if s['lfs'] and lfs[nd] > L['lfs']:
                self.bad('C01', 'lfs_oversubscribed', 'node %d: %d > %d (grant %s)'
                         % (nd, lfs[nd], L['lfs'], uid))
            if s['mem'] and mem[nd] > L['mem']:
                self.bad('C01', 'mem_oversubscribed', 'node %d: %d > %d (grant %s)'
                         % (nd, mem[nd], L['mem'], uid))
        if shared and self.holders:
            self.stats['grants_shared_node'] += 1

        # ---- C02: shape (scheduler-made grants only)
        if not app:
            self._check_shape(uid, spec, slots)

        td = spec['td']
        if 0 < td['gpus_per_rank'] < 1:
            self.stats['frac_gpu'] += 1
        if td['lfs_per_rank'] or td['mem_per_rank']:
            self.stats['lfs_mem'] += 1
        if len(set(s['node'] for s in slots)) > 1:
            self.stats['multi_node'] += 1
        if app:
            self.stats['app_placed'] += 1

        self.holders[uid] = {'slots': slots, 'task': t, 'app': app}
        self.hold_seq.append(uid)

    def _pair_kind(self, a, b):
        aa = bool(self.accepted.get(a, {}).get('app'))
        bb = bool(self.accepted.get(b, {}).get('app'))
        if a == b:
            return 'same_task'
        if aa and bb:
            return 'app_app'
        if aa:
            return 'app_over_sched'      # application conflict: not demanded
        if bb:
            return 'sched_over_app'
        return 'sched_sched'

    def _occupancy(self):
        cores, gpus, lfs, mem = {}, {}, {}, {}
        for uid, h in self.holders.items():
            for s in h['slots']:
                nd = s['node']
                for c in s['cores']:
                    cores[(nd, c)] = uid
                for g, occ in s['gpus']:
                    cur = gpus.get((nd, g), (0.0, []))
                    gpus[(nd, g)] = (cur[0] + occ, cur[1] + [uid])
                lfs[nd] = lfs.get(nd, 0) + s['lfs']
                mem[nd] = mem.get(nd, 0) + s['mem']
        return cores, gpus, lfs, mem

    # --------------------------------------------------------------------------
    def _check_shape(self, uid, spec, slots):
        td = spec['td']
        L  = self.L
        ranks = td['ranks']
        cpr   = max(1, td['cores_per_rank'] or 0)
        gpr   = td['gpus_per_rank'] or 0.0
        if self.jsrun:
            # a jsrun slot is a resource set: only rank count and distinctness
            n = sum(s['nranks'] for s in slots)
            if n != ranks:
                self.bad('C02', 'rank_count:jsrun', '%s: %d ranks in slots, %d requested'
                         % (uid, n, ranks))
            for s in slots:
                if len(set(s['cores'])) != len(s['cores']):
                    self.bad('C02', 'duplicate_core_in_slot:jsrun', '%s: %s' % (uid, s))
                    self.bad('C01', 'core_held_twice:same_task:jsrun', '%s: ranks of one resource set '
                             'share a core: %s' % (uid, s))
                elif len(s['cores']) != s['nranks'] * cpr:
                    self.bad('C02', 'cores_per_rank:jsrun', '%s: %d cores for %d ranks of %d cores: %s'
                             % (uid, len(s['cores']), s['nranks'], cpr, s))
                # a resource set holds the node-local storage / memory of all its ranks
                for k in ('lfs', 'mem'):
                    want = s['nranks'] * (td.get('%s_per_rank' % k) or 0)
                    if (s.get(k) or 0) != want:
                        self.bad('C02', '%s_per_rank:jsrun' % k, '%s: resource set of %d ranks holds %s=%s, '
                                 '%s per rank requested' % (uid, s['nranks'], k, s.get(k),
                                                            td.get('%s_per_rank' % k)))
            if gpr and 0 < gpr < 1:
                self.stats['frac_gpu'] += 1
            return
        if len(slots) != ranks:
            self.bad('C02', 'rank_count', '%s: %d slots for %d ranks' % (uid, len(slots), ranks))
        per_node = {}
        for s in slots:
            per_node[s['node']] = per_node.get(s['node'], 0) + 1
            if len(s['cores']) != cpr or len(set(s['cores'])) != len(s['cores']):
                self.bad('C02', 'cores_per_rank', '%s: slot cores %s, requested %d'
                         % (uid, s['cores'], cpr))
            if gpr >= 1:
                ok = (len(s['gpus']) == int(gpr) and
                      len(set(g for g, _ in s['gpus'])) == len(s['gpus']) and
                      all(abs(o - 1.0) < EPS for _, o in s['gpus']))
            elif gpr > 0:
                ok = len(s['gpus']) == 1 and abs(s['gpus'][0][1] - gpr) < EPS
            else:
                ok = not s['gpus']
            if not ok:
                self.bad('C02', 'gpus_per_rank', '%s: slot gpus %s, requested %s'
                         % (uid, s['gpus'], gpr))
            if s['lfs'] != td['lfs_per_rank']:
                self.bad('C02', 'lfs_per_rank', '%s: %s vs %s' % (uid, s['lfs'], td['lfs_per_rank']))
            if s['mem'] != td['mem_per_rank']:
                self.bad('C02', 'mem_per_rank', '%s: %s vs %s' % (uid, s['mem'], td['mem_per_rank']))
        rpn = td.get('ranks_per_node')
        if rpn:
            self.stats['rpn'] += 1
            if max(per_node.values() or [0]) > rpn:
                self.bad('C02', 'ranks_per_node_exceeded', '%s: %s > %d' % (uid, per_node, rpn))
        tag = (td.get('tags') or {}).get('colocate')
        if tag is not None:
            tag = str(tag)
            self.stats['colo'] += 1
            nodes = set(per_node)
            if tag in self.colo and not nodes <= self.colo[tag]:
                self.bad('C02', 'colocate_on_new_node', '%s: tag %s nodes %s, earlier %s'
                         % (uid, tag, sorted(nodes), sorted(self.colo[tag])))
            self.colo.setdefault(tag, set()).update(nodes)
        # never grant what cannot fit a node
        if not self.per_rank_fits_node(td):
            self.bad('C02', 'oversize_request_granted', '%s: %s' % (uid, self._tdsum(td)))

    def per_rank_fits_node(self, td):
        L = self.L
        cpr = max(1, td['cores_per_rank'] or 0)
        gpr = td['gpus_per_rank'] or 0.0
        return (cpr <= L['c'] - len(L['bc']) and
                math.ceil(gpr - EPS) <= L['g'] - len(L['bg']) and
                (td['lfs_per_rank'] or 0) <= L['lfs'] and
                (td['mem_per_rank'] or 0) <= L['mem'])

    @staticmethod
    def _tdsum(td):
        return {k: td.get(k) for k in ('ranks', 'cores_per_rank', 'gpus_per_rank',
                                       'lfs_per_rank', 'mem_per_rank',
                                       'ranks_per_node', 'tags', 'priority')}

    # --------------------------------------------------------------------------
    # reference fit (DESIGN A.2): conservative, from holder slots only
    #
    def fits(self, td, idle=False):
        L = self.L
        if not self.per_rank_fits_node(td):
            return False
        ranks = td['ranks']
        if ranks <= 0:
            return False
        cpr = max(1, td['cores_per_rank'] or 0)
        gpr = td['gpus_per_rank'] or 0.0
        lpr = td['lfs_per_rank'] or 0
        mpr = td['mem_per_rank'] or 0
        rpn = td.get('ranks_per_node') or None
        if idle:
            cores, gpus, lfs, mem = {}, {}, {}, {}
        else:
            cores, gpus, lfs, mem = self._occupancy()
        ks = []
        for nd in range(L['n']):
            fc = sum(1 for c in range(L['c']) if c not in L['bc'] and (nd, c) not in cores)
            fg = sum(1 for g in range(L['g']) if g not in L['bg'] and (nd, g) not in gpus)
            k = fc // cpr
            if gpr >= 1:
                if abs(gpr - round(gpr)) > EPS:
                    return False
                k = min(k, fg // int(round(gpr)))
            elif gpr > 0:
                # implementation packs one share per GPU in its own view; count
                # completely free GPUs only, one rank each (conservative)
                k = min(k, fg)
            if lpr:
                k = min(k, (L['lfs'] - lfs.get(nd, 0)) // lpr)
            if mpr:
                k = min(k, (L['mem'] - mem.get(nd, 0)) // mpr)
            if rpn:
                k = min(k, rpn)
            ks.append(max(0, k))
        if ranks == 1:
            return max(ks) >= 1
        return sum(ks) >= ranks

    def _check_failed(self, uid, t):
        spec = self.accepted[uid]
        td   = spec['td']
        self.stats['failed_unsched'] += 1
        msg  = self.fail_msg.get(uid, '')
        progress_ok = self._progress_domain(spec)
        if 'can never be scheduled' in msg and progress_ok:
            if self.fits(td, idle=True):
                self.bad('C04', 'fitting_task_failed:never', '%s %s failed: %s'
                         % (uid, self._tdsum(td), msg[:200]))
        elif (progress_ok or self._crash_domain(spec)) and self.fits(td, idle=True) \
                and not spec.get('bad_ranks'):
            # failed for another (internal) reason: noted, judged only when the
            # message blames resources
            if not progress_ok and not re.match(r'(TypeError|KeyError|IndexError|AttributeError|'
                                                r'ZeroDivisionError|UnboundLocalError|NameError)\b', msg):
                self.labels.add('failed_internal')
            elif 'does not fit' in msg or 'too many' in msg or 'too much' in msg:
                self.bad('C04', 'fitting_task_failed:fit_check', '%s %s failed: %s'
                         % (uid, self._tdsum(td), msg[:200]))
            else:
                self.labels.add('failed_internal')
                # ... or when the search itself crashed (a task that fits the idle pilot is
                # failed because of what the pilot looks like right now)
                m = re.match(r'(TypeError|KeyError|IndexError|AttributeError|ZeroDivisionError|'
                             r'UnboundLocalError|NameError)\b', msg)
                if m:
                    self.bad('C04', 'fitting_task_failed:search_crashed:%s' % m.group(1),
                             '%s %s failed: %s' % (uid, self._tdsum(td), msg[:300]))
        # a colocate tag used for the first time places no restriction (with `exclusive` only as
        # long as a node without tag is left: once every node carries a tag the flag is dropped)
        tags = td.get('tags') or {}
        tag  = tags.get('colocate')
        if tag is not None and not progress_ok and 'can never be scheduled' in msg:
            spec2 = dict(spec, td=dict(td, tags={}))
            tagged = set()
            for nodes in self.colo.values():
                tagged.update(nodes)
            unrestricted = str(tag) not in self.colo and \
                (not tags.get('exclusive') or len(tagged) >= self.L['n'])
            if unrestricted and self._progress_domain(spec2) and self.fits(td, idle=True):
                self.stats['first_use_tag_judged'] = self.stats.get('first_use_tag_judged', 0) + 1
                self.bad('C04', 'fitting_task_failed:never:first_use_of_tag', '%s %s failed: %s'
                         % (uid, self._tdsum(td), msg[:200]))
        if not self.per_rank_fits_node(td):
            self.stats['oversize_rejected'] += 1

    def _progress_domain(self, spec):
        """progress clauses are only demanded in scattered mode, without colocate
        tags / named envs, for scheduler-placed tasks, on the Continuous scheduler"""
        td = spec['td']
        return (self.C._scattered and not self.jsrun and not spec.get('app') and
                (td.get('tags') or {}).get('colocate') is None and
                not td.get('named_env') and not td.get('raptor_id'))

    def _crash_domain(self, spec):
        """a task which fits the idle pilot and is failed because the search itself raised: judged
        for scheduler-placed tasks of the jsrun scheduler, too (no placement policy involved)"""
        td = spec['td']
        gpr = td.get('gpus_per_rank') or 0
        return (self.jsrun and not spec.get('app') and abs(gpr - round(gpr)) < EPS and
                (td.get('tags') or {}).get('colocate') is None and not td.get('named_env'))

    # --------------------------------------------------------------------------
    # quiescent-point clauses of C03 / C04
    #
    def waiting_uids(self):
        return [u for u in self.order if self.status.get(u) == 'waiting']

    def _pool_uids(self):
        out = set()
        for pool in self.C._waitpool.values():
            out.update(pool.keys())
        return out

    def _at_quiescence(self):
        wait = self.waiting_uids()
        pool = self._pool_uids()
        self.stats['max_wait_pool'] = max(self.stats['max_wait_pool'], len(pool))
        if wait:
            self.stats['waited'] += 1
        # accounting: every unresolved accepted task is in the wait pool (or in
        # the parent's cancel filter path: none here since intake is synchronous)
        for u in wait:
            if u not in pool and not self.accepted[u].get('raptor'):
                self.bad('C04', 'task_lost', '%s is neither started, failed, canceled '
                         'nor in the wait pool at a quiescent point' % u)
        for u in pool:
            if self.status.get(u) != 'waiting':
                self.bad('C04', 'resolved_task_still_waiting', '%s is %s but in the wait pool'
                         % (u, self.status.get(u)))
        # a canceled request must have removed waiting tasks
        for u in wait:
            if u in self.cancel_req and u in pool:
                self.bad('C08', 'cancel_left_task_waiting', u)

        cand = [u for u in wait if u in pool and self._progress_domain(self.accepted[u])
                and u not in self.cancel_req]
        if len(wait) == 1 and len(cand) == 1:
            u = cand[0]
            if self.fits(self.accepted[u]['td']):
                self.bad('C04', 'lone_waiter_not_started', '%s %s fits the free resources '
                         'but is still waiting' % (u, self._tdsum(self.accepted[u]['td'])))
        if not self.holders:
            self.stats['quiescent_idle'] += 1
            for u in cand:
                if not self.fits(self.accepted[u]['td'], idle=True) and \
                        not self.fits_generous(self.accepted[u]['td']):
                    self.bad('C04', 'unschedulable_task_kept_waiting%s'
                             % (':bisect_skipped' if u in self.skipped else ''), '%s %s cannot fit '
                             'the idle pilot but is neither failed' %
                             (u, self._tdsum(self.accepted[u]['td'])))
            if cand and len(cand) == len(wait) and \
                    all(self.fits(self.accepted[u]['td'], idle=True) for u in cand):
                self.bad('C04', 'idle_pilot_starts_nothing', 'idle pilot, waiting: %s'
                         % [(u, self._tdsum(self.accepted[u]['td'])) for u in cand][:4])
            # C03: capacity restored
            self._check_restored()

    def fits_generous(self, td):
        """upper bound used for the 'must be failed' clause: could the idle pilot
        host the task under the most generous reading (GPU sharing)?"""
        L = self.L
        if not self.per_rank_fits_node(td) or td['ranks'] <= 0:
            return False
        cpr = max(1, td['cores_per_rank'] or 0)
        gpr = td['gpus_per_rank'] or 0.0
        k = (L['c'] - len(L['bc'])) // cpr
        ng = L['g'] - len(L['bg'])
        if gpr >= 1:
            k = min(k, ng // int(math.ceil(gpr - EPS)))
        elif gpr > 0:
            k = min(k, int(ng * math.floor(1.0 / gpr + EPS)))
        if td['lfs_per_rank']:
            k = min(k, L['lfs'] // td['lfs_per_rank'])
        if td['mem_per_rank']:
            k = min(k, L['mem'] // td['mem_per_rank'])
        if td.get('ranks_per_node'):
            k = min(k, td['ranks_per_node'])
        if td['ranks'] == 1:
            return k >= 1
        return k * L['n'] >= td['ranks']

    def _check_restored(self):
        for now, ini in zip(self.C.nodes, self.initial_nodes):
            for key in ('cores', 'gpus', 'lfs', 'mem'):
                if now[key] != ini[key]:
                    sig = 'capacity_not_restored:%s' % key
                    if key in ('lfs', 'mem'):
                        sig += ':over' if now[key] > ini[key] else ':under'
                    self.bad('C03', sig, 'node %s %s: %s, initially %s (no task holds '
                             'resources)' % (now['index'], key, now[key], ini[key]))
                    return

    # --------------------------------------------------------------------------
    # operations
    #
    def mk_task(self, spec):
        """spec: dict of description fields (+ 'app', 'bad_ranks')"""
        self._uidc += 1
        uid = 'task.%06d' % self._uidc
        d = {'uid': uid, 'executable': '/bin/true'}
        for k in ('ranks', 'cores_per_rank', 'gpus_per_rank', 'lfs_per_rank',
                  'mem_per_rank', 'ranks_per_node', 'priority', 'named_env'):
            if spec.get(k) is not None:
                d[k] = spec[k]
        tags = {}
        if spec.get('colocate') is not None:
            tags['colocate'] = spec['colocate']
            if spec.get('exclusive'):
                tags['exclusive'] = True
        if tags:
            d['tags'] = tags
        if spec.get('old_names'):
            # the documented deprecated attribute names (examples still use them)
            ALIAS = {'ranks': 'cpu_processes', 'cores_per_rank': 'cpu_threads',
                     'gpus_per_rank': 'gpu_processes', 'lfs_per_rank': 'lfs_per_process',
                     'mem_per_rank': 'mem_per_process'}
            for new, old in ALIAS.items():
                if new in d and d[new] and d[new] > 0 and \
                        not (new == 'gpus_per_rank' and d[new] != int(d[new])):
                    d[old] = d.pop(new)
            self.labels.add('deprecated_attribute_names')
        td = rp.TaskDescription(d)
        td.verify()
        tdd = td.as_dict()
        if spec.get('old_names'):
            # what is placed is what was asked for, under whatever name
            for k in ('ranks', 'cores_per_rank', 'gpus_per_rank', 'lfs_per_rank', 'mem_per_rank'):
                if spec.get(k) is not None and tdd.get(k) != spec[k] and \
                        not (k == 'ranks' and spec[k] <= 0):
                    self.bad('C02', 'request_lost_in_description:%s' % k,
                             '%s: asked for %s=%r under its deprecated name, the verified description '
                             'says %r' % (uid, k, spec[k], tdd.get(k)))
        task = {'uid': uid, 'type': 'task', 'name': uid,
                'state': rps.AGENT_SCHEDULING_PENDING,
                'description': tdd, 'pilot': 'pilot.0000',
                'resources': {}, 'slots': [], 'partition': None}
        return uid, task, tdd

    def submit_then_cancel(self, specs, picks):
        """the tasks reach the scheduler's input queue; a cancel request naming some of them
        arrives before the scheduler takes them in"""
        uids = self.submit(specs, intake=False)
        if not uids:
            return
        named = []
        for k in picks:
            u = uids[int(k) % len(uids)]
            if u not in named:
                named.append(u)
        for u in named:
            self.cancel_req.add(u)
        self.labels.add('cancel_before_intake')
        self.pub_ctrl.put(rpc.CONTROL_PUBSUB, {'cmd': 'cancel_tasks',
                                               'arg': {'uids': named, 'tmgr': 'tmgr.0000'}})
        self._absorb()
        self.P.work_cb()
        self._absorb()

    def submit(self, specs, intake=True):
        tasks = []
        for spec in specs:
            uid, task, tdd = self.mk_task(spec)
            sp = dict(spec)
            if self.reconfig:
                # what the scheduler is told to make of every incoming task
                tdd = dict(tdd)
                for k, v in self.reconfig.items():
                    tdd[k] = int(v)
                    sp[k]  = int(v)
            sp['td'] = tdd
            if tdd['ranks'] <= 0:
                sp['bad_ranks'] = True
            self.accepted[uid] = sp
            self.order.append(uid)
            self.status[uid] = 'waiting'
            tasks.append(task)
        if not tasks:
            return
        self.net.q_put(self.url_sched, 'default', tasks)
        if not intake:
            return [t['uid'] for t in tasks]
        self.P.work_cb()                     # real intake of the parent
        self._absorb()

    def submit_app(self, spec):
        """application-placed task: slots from a client-side NodeList over the
        same node list (the documented way), submitted at a quiescent point and
        only if they do not collide with what the scheduler handed out"""
        from radical.pilot.resource_config import Node, NodeList, RankRequirements
        if self.jsrun:
            return
        if not self.settle():
            return
        if self.waiting_uids():
            # with tasks in the wait pool the scheduler may place one of them in the very loop
            # iteration which takes the application's task in (wait pool first, then the input
            # queue): a collision the application cannot foresee and the property does not
            # demand.  Application placements are only submitted when nothing waits.
            self.stats['app_skipped_waiters'] = self.stats.get('app_skipped_waiters', 0) + 1
            return
        if self.app_nodelist is None:
            nl = NodeList(nodes=[Node(copy.deepcopy(n)) for n in self.initial_nodes])
            nl.verify()
            self.app_nodelist = nl
        gpr = spec.get('gpus_per_rank') or 0.0
        rr = RankRequirements(n_cores=max(1, spec.get('cores_per_rank') or 1),
                              n_gpus=int(math.ceil(gpr)) if gpr else 0,
                              gpu_occupation=(gpr if 0 < gpr < 1 else 1.0),
                              lfs=spec.get('lfs_per_rank') or 0,
                              mem=spec.get('mem_per_rank') or 0)
        ranks = max(1, spec.get('ranks') or 1)
        try:
            slots = self.app_nodelist.find_slots(rr, n_slots=ranks)
        except ValueError:
            return
        if not slots:
            return
        ns = norm_slots([s.as_dict() for s in slots])
        cores, gpus, lfs, mem = self._occupancy()
        clash = any((s['node'], c) in cores for s in ns for c in s['cores']) or \
            any((s['node'], g) in gpus for s in ns for g, _ in s['gpus']) or \
            any(s['lfs'] and lfs.get(s['node'], 0) + s['lfs'] > self.L['lfs'] for s in ns) or \
            any(s['mem'] and mem.get(s['node'], 0) + s['mem'] > self.L['mem'] for s in ns)
        if clash:
            self.app_nodelist.release_slots(slots)
            self.stats['app_skipped_conflict'] += 1
            return
        sp = dict(spec)
        sp['app'] = True
        sp['ranks'] = ranks
        sp['cores_per_rank'] = rr.n_cores
        uid, task, tdd = self.mk_task(sp)
        tdd['slots'] = [s.as_dict() for s in slots]
        tdd['partition'] = None
        sp['td'] = tdd
        sp['app_slots'] = slots
        self.accepted[uid] = sp
        self.order.append(uid)
        self.status[uid] = 'waiting'
        self.net.q_put(self.url_sched, 'default', [task])
        self.P.work_cb()
        self._absorb()
        self.settle()

    def finish(self, k):
        if not self.hold_seq:
            return
        live = [u for u in self.hold_seq if u in self.holders]
        if not live:
            return
        idx = k % len(live)
        if idx != 0:
            self.stats['out_of_order_release'] += 1
        self._release(live[idx])

    def finish_bulk(self, k, n):
        """several tasks collected in one executor pass are released with ONE message (a list),
        as Popen._check_running publishes them"""
        live = []
        for u in self.hold_seq:          # (a task started twice is listed twice)
            if u in self.holders and not self.holders[u]['app'] and u not in live:
                live.append(u)
        if len(live) < 2:
            return self.finish(k)
        start = k % len(live)
        uids = (live[start:] + live[:start])[:max(2, n)]
        tasks = []
        for uid in uids:
            h = self.holders.pop(uid)
            self.stats['releases'] += 1
            tasks.append(h['task'])
        self.stats['bulk_release'] += 1
        self.skipped.clear()
        self.pub_unsched.put(rpc.AGENT_UNSCHEDULE_PUBSUB, tasks)
        self._absorb()

    def _release(self, uid):
        h = self.holders.pop(uid)
        self.stats['releases'] += 1
        self.skipped.clear()
        # the executor publishes the task dict it got from its input queue
        self.pub_unsched.put(rpc.AGENT_UNSCHEDULE_PUBSUB, h['task'])
        if h['app']:
            sl = self.accepted[uid].get('app_slots')
            if sl:
                self.app_nodelist.release_slots(sl)
        self._absorb()

    def cancel(self, ks):
        if not self.order:
            return
        uids = []
        for k in ks:
            u = self.order[k % len(self.order)]
            if u not in uids:
                uids.append(u)
        if not uids:
            return
        for u in uids:
            if self.status.get(u) == 'waiting':
                self.cancel_req.add(u)
        self.pub_ctrl.put(rpc.CONTROL_PUBSUB,
                          {'cmd': 'cancel_tasks',
                           'arg': {'uids': uids, 'tmgr': 'tmgr.0000'}})
        self._absorb()
        # running tasks named in the request are killed by the executor, which
        # then releases them (modelled: immediate release)
        for u in uids:
            if u in self.holders:
                self.stats['cancel_running'] += 1
                self._release(u)

    def prio_check(self, hi, lo):
        """C04: when a release lets only one of two waiting tasks run, the one
        with the higher priority is started.  Precondition (checked here, so a
        shrunk case cannot fake the scenario): at a quiescent point exactly one
        task (the blocker) holds resources, exactly the two named tasks wait,
        prio(hi) > prio(lo), each fits the idle pilot alone.  Then the blocker
        is released and the outcome judged at the next quiescent point."""
        if len(self.order) <= max(hi, lo) or hi == lo:
            return
        h, l = self.order[hi], self.order[lo]
        # both must be *waiting in the pool* when the release is published; run
        # the loop only as far as needed, so that the release lands at
        # different phases of the loop
        n = 0
        while not {h, l} <= self._pool_uids() and n < 300:
            if not self.step(1):
                return
            n += 1
        self.labels.add('prio:release_at_%s' % (self.loop_tag or 'none').split(':')[-1])
        wait = self.waiting_uids()
        tdh, tdl = self.accepted[h]['td'], self.accepted[l]['td']
        if sorted(wait) != sorted([h, l]) or len(self.holders) != 1 or \
                not (tdh.get('priority', 0) > tdl.get('priority', 0)) or \
                not self._progress_domain(self.accepted[h]) or \
                not self._progress_domain(self.accepted[l]) or \
                not self.fits(tdh, idle=True) or not self.fits(tdl, idle=True):
            self.labels.add('prio:precondition_unmet')
            return
        self.finish(0)
        if not self.settle():
            return
        sh, sl = self.status.get(h), self.status.get(l)
        self.labels.add('prio:%s/%s' % (sh, sl))
        if sl == 'started' and sh == 'waiting':
            self.bad('C04', 'lower_priority_started_first', '%s (prio %s, %s) waits while %s '
                     '(prio %s, %s) was started by the release'
                     % (h, tdh.get('priority'), self._tdsum(tdh), l, tdl.get('priority'),
                        self._tdsum(tdl)))

    def register_env(self, name):
        self.pub_ctrl.put(rpc.CONTROL_PUBSUB,
                          {'cmd': 'register_named_env', 'arg': {'env_name': name}})

    # --------------------------------------------------------------------------
    def drain(self, order=()):
        """end of history: settle, release every holder (generated order),
        settle again; leaves the pilot idle so the C03 clauses apply"""
        if not self.settle():
            return False
        i = 0
        while self.holders:
            k = order[i % len(order)] if order else 0
            i += 1
            self.finish(k)
            if not self.settle():
                return False
        return True

    def probe_whole_pilot(self):
        """C03: behavioural check - a task sized to the whole usable pilot is
        granted on the idle pilot"""
        if self.jsrun or self.holders or self.waiting_uids():
            return
        L = self.L
        spec = {'ranks': L['n'], 'cores_per_rank': L['c'] - len(L['bc']),
                'gpus_per_rank': float(L['g'] - len(L['bg'])),
                'lfs_per_rank': L['lfs'], 'mem_per_rank': L['mem']}
        self.submit([spec])
        uid = self.order[-1]
        if not self.settle():
            return
        if self.status.get(uid) != 'started':
            self.bad('C03', 'whole_pilot_probe_not_granted', 'after all releases a task '
                     'sized to the whole pilot %s is %s (%s)'
                     % (spec, self.status.get(uid), self.fail_msg.get(uid, '')[:200]))
        else:
            self.stats['probe_ok'] += 1
            self._release(uid)
            self.settle()

    def close(self):
        try:
            self.C._term.set()
            self.baton.finish_all()
        finally:
            _CTX['sim'] = None


# ------------------------------------------------------------------------------
def run_history(case):
    """interpret a plain-data history; returns the finished SchedSim"""
    sim = SchedSim(case['layout'], cls=case.get('cls', 'continuous'),
                   scattered=case.get('scattered', True), reconfig=case.get('reconfig'))
    try:
        for op in case.get('ops', []):
            kind = op[0]
            if kind == 'submit':
                sim.submit(op[1])
            elif kind == 'submit_cancel':
                sim.submit_then_cancel(op[1], op[2])
            elif kind == 'submit_app':
                sim.submit_app(op[1])
            elif kind == 'finish':
                sim.finish(int(op[1]))
            elif kind == 'finish_bulk':
                sim.finish_bulk(int(op[1]), int(op[2]))
            elif kind == 'cancel':
                sim.cancel([int(k) for k in op[1]])
            elif kind == 'step':
                sim.step(int(op[1]))
            elif kind == 'settle':
                sim.settle()
            elif kind == 'env':
                sim.register_env(op[1])
            elif kind == 'prio_check':
                sim.prio_check(int(op[1]), int(op[2]))
            if any(p[1].startswith(('scheduler_loop', 'no_quiescence')) for p in sim.problems):
                break
        else:
            if sim.drain(case.get('drain', [])):
                sim.probe_whole_pilot()
    finally:
        sim.close()
    return sim
