"""Generic driver: seeded Hypothesis search / exhaustive enumeration over plain-data
cases, collect-then-minimise of violations bucketed by signature, known-findings
protocol, replay files, evidence files.  DESIGN.md 3.7, 3.8, 7.
"""
import os
import sys
import json
import time
import hashlib
import fnmatch
import traceback
import collections
import multiprocessing

HERE = os.path.dirname(os.path.dirname(os.path.abspath(__file__)))
REPO_SRC = os.path.realpath(os.path.join(os.environ.get('VERIF_REPO', '/repo'), 'src'))

KNOWN_FILE = os.path.join(HERE, 'known_findings.json')
EVID_DIR   = os.environ.get('VERIF_EVID_DIR') or os.path.join(HERE, 'evidence')
REPLAY_DIR = os.path.join(HERE, 'replays')     # committed regression tier
OUT_DIR    = (os.path.join(os.environ['VERIF_EVID_DIR'], 'out') if os.environ.get('VERIF_EVID_DIR')
              else os.path.join(HERE, 'out'))   # run-time output (git-ignored)

N_SHARDS = 16


class HarnessError(Exception):
    pass


# ------------------------------------------------------------------------------
class CaseResult(object):
    """what running one case yields.
    problems   : list of (signature, message); signature = clause + call site /
                 input class, the unit of root-cause bucketing and known-findings
    nontrivial : the property's NT rule holds for this case
    labels     : classification labels (distribution goes into evidence)
    key        : optional canonical abstraction for 'distinct' counting
    """
    __slots__ = ('problems', 'nontrivial', 'labels', 'key')

    def __init__(self):
        self.problems   = []
        self.nontrivial = False
        self.labels     = []
        self.key        = None

    def fail(self, sig, msg=''):
        self.problems.append((str(sig), str(msg)[:2000]))

    def label(self, *ls):
        self.labels.extend(ls)


class Part(object):
    """one generated or enumerated sub-domain of a check"""
    def __init__(self, name, strategy=None, quick=100, thorough=1000,
                 enum=None, shard_enum=True):
        self.name      = name
        self.strategy  = strategy      # hypothesis strategy producing plain-data cases
        self.quick     = quick         # examples, quick tier (whole run)
        self.thorough  = thorough      # examples per shard, thorough tier
        self.enum      = enum          # callable(tier) -> iterable of cases (exhaustive)
        self.shard_enum = shard_enum   # split enumeration over shards in thorough


# ------------------------------------------------------------------------------
def cjson(x):
    return json.dumps(x, sort_keys=True, default=repr, ensure_ascii=True)


def chash(x):
    return hashlib.sha1(cjson(x).encode()).hexdigest()[:16]


def exc_site(e):
    """innermost traceback frame inside /repo/src (package-relative), else None"""
    site = None
    for fs in traceback.extract_tb(e.__traceback__):
        fn = os.path.realpath(fs.filename)
        if fn.startswith(REPO_SRC):
            site = '%s:%s' % (os.path.relpath(fn, REPO_SRC).replace('radical/pilot/', ''),
                              fs.name)
    return site


def exc_sig(prefix, e):
    return '%s:%s@%s' % (prefix, type(e).__name__, exc_site(e) or 'harness')


# ------------------------------------------------------------------------------
def load_known(pid):
    if not os.path.exists(KNOWN_FILE):
        return []
    with open(KNOWN_FILE) as f:
        data = json.load(f)
    return [e for e in data.get('findings', [])
            if e.get('property') == pid and e.get('status') == 'open']


def known_match(known, sig):
    for e in known:
        pat = e['signature']
        if sig == pat or (e.get('match') == 'glob' and fnmatch.fnmatchcase(sig, pat)):
            return e
    return None


# ------------------------------------------------------------------------------
class Collector(object):

    def __init__(self, pid):
        self.pid      = pid
        self.evals    = 0
        self.nt_keys  = set()
        self.labels   = collections.Counter()
        self.parts    = collections.Counter()
        self.samples  = []          # (size, case) of non-trivial cases
        self.largest  = (0, None)
        self.found    = {}          # sig -> {'msg', 'first', 'small', 'count'}
        self.notes    = []
        self.budget_hit = False

    def add(self, part, case, res):
        self.evals += 1
        self.parts[part] += 1
        for l in res.labels:
            self.labels[l] += 1
        size = None
        if res.nontrivial:
            size = len(cjson(case))
            k = res.key if res.key is not None else case
            h = chash(k)
            if h not in self.nt_keys:
                self.nt_keys.add(h)
                if len(self.samples) < 3:
                    self.samples.append(case)
                if size > self.largest[0] and size < 20000:
                    self.largest = (size, case)
        for sig, msg in res.problems:
            ent = self.found.get(sig)
            if ent is None:
                size = size or len(cjson(case))
                self.found[sig] = {'msg': msg, 'first': case, 'small': case,
                                   'size': size, 'count': 1, 'part': part}
            else:
                ent['count'] += 1
                size = size or len(cjson(case))
                if size < ent['size']:
                    ent['small'], ent['size'], ent['msg'] = case, size, msg

    def dump(self):
        return {'evals': self.evals, 'nt_keys': sorted(self.nt_keys),
                'labels': dict(self.labels), 'parts': dict(self.parts),
                'samples': self.samples, 'largest': list(self.largest),
                'found': self.found, 'notes': self.notes,
                'budget_hit': self.budget_hit}

    def merge(self, d):
        self.evals += d['evals']
        self.nt_keys.update(d['nt_keys'])
        self.labels.update(d['labels'])
        self.parts.update(d['parts'])
        for s in d['samples']:
            if len(self.samples) < 3:
                self.samples.append(s)
        if d['largest'][0] > self.largest[0]:
            self.largest = tuple(d['largest'])
        for sig, ent in d['found'].items():
            mine = self.found.get(sig)
            if mine is None:
                self.found[sig] = ent
            else:
                mine['count'] += ent['count']
                if ent['size'] < mine['size']:
                    mine['small'], mine['size'], mine['msg'] = \
                        ent['small'], ent['size'], ent['msg']
        self.notes.extend(d['notes'])
        self.budget_hit = self.budget_hit or d['budget_hit']


# ------------------------------------------------------------------------------
def safe_run(mod, case):
    """run one case; exceptions escaping run_case are classified: raised from
    inside radical.pilot -> a problem ('crash'), otherwise a harness error."""
    try:
        res = mod.run_case(case)
    except HarnessError:
        raise
    except Exception as e:
        site = exc_site(e)
        if site is None:
            raise HarnessError('harness failure in run_case: %r\n%s'
                               % (e, traceback.format_exc())) from e
        res = CaseResult()
        res.fail('crash:%s@%s' % (type(e).__name__, site),
                 ''.join(traceback.format_exception_only(type(e), e)).strip())
    if not isinstance(res, CaseResult):
        raise HarnessError('run_case returned %r' % (res,))
    hol = sys.modules.get('vlib.hollow')
    if hol is not None:
        hol.cleanup()
    return res


def _make_body(mod, col, pname, t0, budget_s):
    def body(case):
        if budget_s and time.time() - t0 > budget_s:
            col.budget_hit = True
            return
        col.add(pname, case, safe_run(mod, case))
    return body


def _run_parts(mod, tier, seed, shard, nshards, budget_s):
    """run all parts of a module in this process; returns Collector"""
    import hypothesis
    from hypothesis import given, settings, HealthCheck, Phase

    col = Collector(mod.PID)
    t0  = time.time()

    for part in mod.parts(tier):

        if part.enum is not None:
            for i, case in enumerate(part.enum(tier)):
                if nshards > 1 and part.shard_enum and i % nshards != shard:
                    continue
                if nshards > 1 and not part.shard_enum and shard != 0:
                    break
                col.add(part.name, case, safe_run(mod, case))
            continue

        n = part.quick if tier == 'quick' else part.thorough
        if n <= 0:
            continue

        test = given(part.strategy)(_make_body(mod, col, part.name, t0, budget_s))
        test = hypothesis.seed(seed * 1000 + shard)(test)
        test = settings(max_examples=n, database=None, deadline=None,
                        derandomize=False, report_multiple_bugs=False,
                        phases=[Phase.generate],
                        suppress_health_check=[HealthCheck.too_slow,
                                               HealthCheck.data_too_large,
                                               HealthCheck.large_base_example],
                        )(test)
        try:
            test()
        except HarnessError:
            raise
        except hypothesis.errors.HypothesisException as e:
            raise HarnessError('hypothesis: %r' % e) from e

    return col


def _shard_main(args):
    modname, tier, seed, shard, nshards, budget_s = args
    try:
        import importlib
        mod = importlib.import_module(modname)
        col = _run_parts(mod, tier, seed, shard, nshards, budget_s)
        return ('ok', col.dump())
    except BaseException as e:    # noqa
        return ('err', '%r\n%s' % (e, traceback.format_exc()))
    finally:
        try:
            from . import boot
            boot.drop_other_fs()
        except Exception:
            pass


# ------------------------------------------------------------------------------
def minimise(mod, case, sig, budget_s=30.0):
    """bounded delta-debugging over a plain-data case: delete list chunks,
    shrink ints / strings; a candidate is kept iff run_case still reports `sig`."""
    t_end = time.time() + budget_s
    tries = [0]

    def fails(c):
        tries[0] += 1
        try:
            norm = getattr(mod, 'normalise', None)
            if norm:
                c = norm(c)
                if c is None:
                    return None
            res = mod.run_case(c)
        except Exception:
            return None
        if any(s == sig for s, _ in res.problems):
            return c
        return None

    def paths(x, pre=()):
        # yield paths to lists / scalars, outermost first
        if isinstance(x, list):
            yield pre, 'list'
            for i, v in enumerate(x):
                for p in paths(v, pre + (i,)):
                    yield p
        elif isinstance(x, dict):
            for k in sorted(x):
                for p in paths(x[k], pre + (k,)):
                    yield p
        elif isinstance(x, bool):
            return
        elif isinstance(x, int):
            yield pre, 'int'
        elif isinstance(x, str):
            yield pre, 'str'

    def get(x, p):
        for k in p:
            x = x[k]
        return x

    def put(x, p, v):
        x = json.loads(json.dumps(x))
        if not p:
            return v
        y = x
        for k in p[:-1]:
            y = y[k]
        y[p[-1]] = v
        return x

    cur = json.loads(json.dumps(case))
    improved = True
    while improved and time.time() < t_end:
        improved = False
        for p, kind in list(paths(cur)):
            if time.time() > t_end:
                break
            try:
                v = get(cur, p)
            except (KeyError, IndexError, TypeError):
                continue
            if kind == 'list' and isinstance(v, list) and v:
                n = len(v)
                chunk = n
                while chunk >= 1 and time.time() < t_end:
                    i = 0
                    while i < len(v) and time.time() < t_end:
                        cand_v = v[:i] + v[i + chunk:]
                        if len(cand_v) < len(v):
                            c = fails(put(cur, p, cand_v))
                            if c is not None:
                                cur, v, improved = c, cand_v, True
                                try:
                                    v = get(cur, p)
                                except Exception:
                                    break
                                continue
                        i += chunk
                    chunk //= 2
            elif kind == 'int' and isinstance(v, int) and v not in (0, 1):
                for cand_v in (0, 1, v // 2):
                    if cand_v == v:
                        continue
                    c = fails(put(cur, p, cand_v))
                    if c is not None:
                        cur, improved = c, True
                        break
            elif kind == 'str' and isinstance(v, str) and len(v) > 1 \
                    and getattr(mod, 'SHRINK_STR', False):
                for cand_v in ('', v[:len(v) // 2], v[1:], v[:-1]):
                    c = fails(put(cur, p, cand_v))
                    if c is not None:
                        cur, improved = c, True
                        break
    return cur, tries[0]


# ------------------------------------------------------------------------------
def write_evidence(mod, tier, seed, col, known_hits, wall, violations, extra=None):
    os.makedirs(EVID_DIR, exist_ok=True)
    samples = list(col.samples)
    if col.largest[1] is not None and col.largest[1] not in samples:
        samples.append(col.largest[1])
    if not samples:
        samples = ['(no non-trivial case generated)']
    cov = {
        'evaluations'        : col.evals,
        'distinct_nontrivial': len(col.nt_keys),
        'rule'               : getattr(mod, 'RULE', ''),
        'samples'            : samples,
        'per_part'           : dict(col.parts),
        'class_distribution' : dict(sorted(col.labels.items())),
        'excluded_known'     : known_hits,
        'budget_hit'         : col.budget_hit,
        'not_reached'        : getattr(mod, 'NOT_REACHED', []),
    }
    if getattr(mod, 'EXHAUSTIVE', None):
        cov['exhaustive'] = True
        cov['exhaustive_over'] = mod.EXHAUSTIVE
    if col.notes:
        cov['notes'] = col.notes[:20]
    if extra:
        cov.update(extra)
    ev = {
        'property_id': mod.PID,
        'tier'       : tier,
        'seed'       : seed,
        'level'      : getattr(mod, 'LEVEL', 'exploration'),
        'coverage'   : cov,
        'assumptions': getattr(mod, 'ASSUMPTIONS', []),
        'wall_s'     : round(wall, 2),
        'violations' : violations,
    }
    path = os.path.join(EVID_DIR, '%s.json' % mod.PID)
    tmp  = path + '.tmp.%d' % os.getpid()
    with open(tmp, 'w') as f:
        json.dump(ev, f, indent=1, sort_keys=True, default=repr)
        f.write('\n')
    os.replace(tmp, path)
    return path


def write_replay(pid, sig, msg, case, first, tier, seed):
    d = os.path.join(OUT_DIR, 'replays', pid)
    os.makedirs(d, exist_ok=True)
    path = os.path.join(d, '%s-%s.json' % (pid, chash(sig)))
    with open(path, 'w') as f:
        json.dump({'property': pid, 'signature': sig, 'message': msg,
                   'case': case, 'first_case': first, 'tier': tier,
                   'seed': seed}, f, indent=1, sort_keys=True, default=repr)
        f.write('\n')
    return path


# ------------------------------------------------------------------------------
def replay_cases(pid):
    d = os.path.join(REPLAY_DIR, pid)
    if not os.path.isdir(d):
        return
    for fn in sorted(os.listdir(d)):
        if fn.endswith('.json'):
            with open(os.path.join(d, fn)) as f:
                data = json.load(f)
            yield fn, data.get('case', data)


def main(mod, tier='quick', seed=1, replay=None, budget_s=None, jobs=None):

    t0    = time.time()
    pid   = mod.PID
    known = load_known(pid)

    if replay:
        with open(replay) as f:
            data = json.load(f)
        case = data.get('case', data)
        res  = safe_run(mod, case)
        bad  = [(s, m) for s, m in res.problems if not known_match(known, s)]
        for s, m in res.problems:
            print('  problem: %s -- %s' % (s, m))
        if bad:
            print('VIOLATION property=%s replay=%s' % (pid, os.path.abspath(replay)))
            return 1
        print('replay: no (unlisted) violation')
        return 0

    col = Collector(pid)

    # regression tier: replays of past failures (incl. inputs of fixed defects)
    for fn, case in replay_cases(pid):
        col.add('regression', case, safe_run(mod, case))

    if tier == 'thorough':
        nshards = jobs or N_SHARDS
    else:
        nshards = jobs or getattr(mod, 'QUICK_JOBS', 1)

    if nshards == 1:
        col.merge(_run_parts(mod, tier, seed, 0, 1, budget_s).dump())
    else:
        ctx = multiprocessing.get_context('fork')
        with ctx.Pool(nshards) as pool:
            outs = pool.map(_shard_main,
                            [(mod.__name__, tier, seed, i, nshards, budget_s)
                             for i in range(nshards)])
        for st, d in outs:
            if st != 'ok':
                raise HarnessError('shard failed: %s' % d)
            col.merge(d)

    # ---- verdicts
    known_hits = {}
    violations = []
    for sig in sorted(col.found):
        ent = col.found[sig]
        k = known_match(known, sig)
        if k:
            known_hits[k['signature']] = known_hits.get(k['signature'], 0) + ent['count']
            continue
        violations.append(sig)

    for e in known:
        print('KNOWN-FINDING: property=%s %s [signature=%s observed=%d]'
              % (pid, e.get('what', ''), e['signature'],
                 known_hits.get(e['signature'], 0)))

    rc = 0
    for sig in violations[:8]:
        ent = col.found[sig]
        mbud = 25.0 if tier == 'quick' else 120.0
        try:
            small, tries = minimise(mod, ent['small'], sig, budget_s=mbud)
        except Exception:
            small, tries = ent['small'], 0
        path = write_replay(pid, sig, ent['msg'], small, ent['first'], tier, seed)
        print('  violation signature: %s (seen %d times; minimised in %d tries)'
              % (sig, ent['count'], tries))
        print('  message: %s' % ent['msg'][:600])
        print('VIOLATION property=%s replay=%s' % (pid, path))
        rc = 1

    extra = getattr(mod, 'evidence_extra', None)
    extra = extra(col) if extra else None
    wall  = time.time() - t0
    write_evidence(mod, tier, seed, col, known_hits, wall, len(violations), extra)
    print('%s %s seed=%d: %d cases, %d distinct non-trivial, %d violation signature(s), '
          '%d known, %.1fs%s'
          % (pid, tier, seed, col.evals, len(col.nt_keys), len(violations),
             len(known_hits), wall, ' [budget hit: inconclusive beyond]' if col.budget_hit else ''))
    sys.stdout.flush()
    return rc
