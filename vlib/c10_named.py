"""C10 part: a named environment does not take the task's own variables away.

The exec script first sets the RP_* variables which describe the task (and the per-rank GPU
assignment), then sources the script `LaunchMethod.get_task_named_env()` prepares from the dump of
the named environment.  That dump was taken inside the agent and holds the agent's own RP_*
variables, its working directory and device settings; every launch method filters those out
(`get_env_blacklist`).  Real: get_task_named_env / get_env_blacklist / get_env_preserved of every
launch method class of the package + radical.utils.env_prep; the prepared script is SOURCED by
bash after the task's variables were exported, the resulting environment is read back.
Oracle: RP_* variables, PWD and the GPU device variables still hold the task's values; the named
environment's own variables are there.
"""
import os
import inspect
import importlib
import subprocess

from . import boot                                    # noqa: F401
from .runner import CaseResult, exc_sig

from radical.pilot.agent.launch_method.base import LaunchMethod

MODULES = ['aprun', 'ccmrun', 'flux', 'fork', 'ibrun', 'jsrun', 'mpiexec', 'mpirun', 'prte', 'rsh',
           'srun', 'ssh']

TASK_ENV = {'RP_TASK_ID': 'task.000042', 'RP_TASK_SANDBOX': '/sandbox/task.000042',
            'RP_RESOURCE_SANDBOX': '/sandbox', 'RP_RANKS': '4', 'CUDA_VISIBLE_DEVICES': '2,3',
            'ROCR_VISIBLE_DEVICES': '1'}
STALE = {'RP_TASK_ID': 'agent_0', 'RP_TASK_SANDBOX': '../', 'RP_RESOURCE_SANDBOX': '../../',
         'RP_RANKS': '1', 'CUDA_VISIBLE_DEVICES': '0', 'ROCR_VISIBLE_DEVICES': '0',
         'SLURM_PROCID': '0', 'PMIX_RANK': '0'}


def classes():
    out = []
    for m in MODULES:
        try:
            mod = importlib.import_module('radical.pilot.agent.launch_method.%s' % m)
        except Exception:
            continue
        for name, cls in inspect.getmembers(mod, inspect.isclass):
            if issubclass(cls, LaunchMethod) and cls is not LaunchMethod and cls.__module__ == mod.__name__:
                out.append((m, name))
    return out


def enum_cases(tier):
    for m, name in classes():
        for variant in (0, 1):
            yield {'kind': 'named_env', 'module': m, 'cls': name, 'variant': variant}


def run(case):
    res = CaseResult()
    res.label('named_env', 'named_env:%s' % case['cls'])
    res.nontrivial = True
    mod = importlib.import_module('radical.pilot.agent.launch_method.%s' % case['module'])
    cls = getattr(mod, case['cls'])
    cdir = boot.case_dir('c10named')
    os.makedirs(cdir + '/env')
    ename = 've%d' % case['variant']
    # (radical.utils caches prepared environments per process: every case gets its own content)
    own = {'C10_NAMED_ENV': '%s.%s.%d' % (case['module'], case['cls'], case['variant']),
           'C10_EXTRA': 'some value', 'PATH': '/opt/venv/bin:/usr/bin:/bin', 'HOME': cdir}
    with open('%s/env/rp_named_env.%s.env' % (cdir, ename), 'w') as f:
        for k, v in list(own.items()) + list(STALE.items()) + [('PWD', '/agent/sandbox')]:
            f.write('%s=%s\n' % (k, v))
    lm = cls.__new__(cls)
    lm.name = case['module'].upper()
    lm._pwd = cdir
    lm._log = lm._prof = boot.LOG
    try:
        script = lm.get_task_named_env(ename)
    except Exception as e:                            # noqa
        res.fail(exc_sig('named_env:prepare_raised:%s' % case['cls'], e), repr(e))
        return res
    lines  = ['export %s="%s"' % (k, v) for k, v in TASK_ENV.items()]
    lines += ['cd "%s"' % cdir, '. "%s"' % script, 'echo "PWD_NOW=$(pwd)"', 'env']
    try:
        out = subprocess.run(['/bin/bash', '-c', '\n'.join(lines)], env={'PATH': '/usr/bin:/bin'},
                             capture_output=True, text=True, timeout=30)
    except Exception as e:                            # noqa
        res.fail(exc_sig('named_env:script_run_failed', e), repr(e))
        return res
    env = {}
    for ln in out.stdout.splitlines():
        if '=' in ln:
            k, v = ln.split('=', 1)
            env[k] = v
    if out.returncode != 0:
        res.fail('named_env:script_failed:%s' % case['cls'], out.stderr[-300:])
        return res
    for k, v in TASK_ENV.items():
        if env.get(k) != v:
            res.fail('named_env:task_variable_overwritten:%s' % k,
                     '%s (%s): after sourcing the named environment %s=%r, the task\'s value is %r'
                     % (case['cls'], lm.name, k, env.get(k), v))
    if os.path.realpath(env.get('PWD_NOW', '')) != os.path.realpath(cdir):
        res.fail('named_env:working_directory_changed', '%s: %r' % (case['cls'], env.get('PWD_NOW')))
    for k in ('C10_NAMED_ENV', 'C10_EXTRA'):
        if env.get(k) != own[k]:
            res.fail('named_env:not_applied:%s' % k, '%s: %r expected %r' % (case['cls'], env.get(k), own[k]))
    return res
