"""C16 - Client and agents exchange each forwarded message exactly once.  (DESIGN.md 4/C16, A.5)

Drive : the real forwarder closures made by Session.crosswire_pubsub, created by
        the real Session._crosswire_proxy on one hollow Session per side
        (`_module` = 'client', 'pilot.0000', ...).  Every side has its own
        registry and its own local CONTROL and STATE pubsub; all sides share
        one pair of proxy pubsubs whose addresses reach the closures the way
        they do in production: `_proxy_cfg` (what _start_proxy/_connect_proxy
        obtain) -> real Session._publish_cfg -> registry `bridges.proxy_*`.
        Message sources: a real ClientComponent (client) / AgentComponent
        (pilots) per side, after its real _initialize(): publish() of raw
        dicts, advance() with default / explicit `fwd`, RPCRequestMessage /
        RPCResultMessage with default / explicit `fwd`, and an RPC round trip
        whose reply is published by the real _handle_rpc_msg.
        Observers are registered through the real register_subscriber.
        Transport is memnet with Net(auto=False): nothing is delivered unless
        the case's schedule picks that subscriber FIFO.
Oracle: A.5.  For message m published on side s with flag f and marker o:
        exactly 1 delivery on s; on every other side exactly 1 if f is True and
        o in {absent, s}; 0 if f is False/absent; otherwise (f True, foreign
        marker) <= 1.  Always: nothing on the other channel, no forwarder
        raises, the forwarded payload equals the published one up to the two
        markers, and the network is quiet within 4 x sides deliveries per
        message (no circulation).  Defaults: agent-side advance and RPC
        request/result messages reach every other side, client-side advance
        reaches none unless asked.
"""
import copy

from hypothesis import strategies as st

from . import boot                                    # noqa: F401
from .runner import CaseResult, Part, exc_sig, exc_site
from .memnet import Net
from .hollow import HollowSession, comp_cfg

import radical.utils           as ru
import radical.pilot           as rp
import radical.pilot.states    as rps
import radical.pilot.constants as rpc
import radical.pilot.utils     as rpu

from radical.pilot.utils    import component as rpu_component
from radical.pilot.messages import RPCRequestMessage, RPCResultMessage

PID  = 'C16'
RULE = ('cases = (1 client + 0-4 pilots, 1-6 messages each = originating side x channel x '
        'source {raw publish, advance, rpc_req, rpc_res, rpc round trip} x fwd {absent/default, '
        'False, True} x origin {absent, own, another connected side, unknown string}, each '
        'published after a generated number of scheduled deliveries; schedule = ints picking '
        'the next non-empty subscriber FIFO, then a first/last tail policy until quiescence); '
        'non-trivial = some message is flagged for forwarding with >= 2 other sides connected, '
        'or carries a pre-set origin; distinct = canonical (topology, resolved messages, '
        'resolved delivery picks)')
ASSUMPTIONS = [
    'Session objects are hollow (no bootstrap): _proxy_cfg is set by the harness to the shared '
    'proxy pubsub addresses, then the real _publish_cfg and _crosswire_proxy run; the local '
    'CONTROL/STATE bridges are registered by the harness as _start_components would',
    'transport = in-memory pubsub (memnet): msgpack round-trip copy per subscriber, per-FIFO '
    'order preserved, zmq prefix topic filter, callback errors logged and swallowed as '
    'ru.zmq.Subscriber does; delivery order across FIFOs is the generated schedule',
    'ClientComponent/AgentComponent come from the real constructor and _initialize(); they are '
    'not started (no threads), the harness calls publish/advance directly',
    'radical.utils.get_version shim (src/radical/pilot/VERSION absent in this tree)']
NOT_REACHED = [
    'real ZMQ proxy bridges (radical.pilot.proxy.Proxy processes): loss or duplication inside '
    'ru.zmq.PubSub itself is outside the harness-owned transport',
    'more than 4 pilots in the exhaustive part (the closures do not depend on the number of '
    'sides; sequences reach 5 pilots)']
EXHAUSTIVE = ('single-message product: 1 client + 0..4 pilots x originating side x channel '
              '{control,state} x fwd {absent,False,True} x origin {absent, own, every other '
              'connected side, unknown} x tail order {first,last} for raw publishes; plus '
              'advance (default/False/True x non-final/FAILED), rpc_req / rpc_res '
              '(default/False/True) and rpc round trips (every caller x every addressee) on '
              'every side of every topology')
BUDGET = {'quick': 120, 'thorough': 1500}

CHANS   = {'control': rpc.CONTROL_PUBSUB, 'state': rpc.STATE_PUBSUB}
PROXIES = [rpc.PROXY_CONTROL_PUBSUB, rpc.PROXY_STATE_PUBSUB]
SRCS    = ['publish', 'advance', 'rpc_req', 'rpc_res', 'rpc_call', 'client_api', 'command_port']
ORIGINS = ['absent', 'own', 'other', 'unknown']
UNKNOWN = ['pilot.9999', 'agent', '', 'CLIENT']
MARKERS = ('fwd', 'origin')
RPC_CMD = 'verif_ping'
MAX_PILOTS = 5

_SBOX = boot.fresh_dir('c16.')


def side_name(i):
    return 'client' if i == 0 else 'pilot.%04d' % (i - 1)


# ------------------------------------------------------------------------------
# generators
#
def _msg(side, chan='control', src='publish', fwd=None, origin='absent',
         other=0, after=0, final=False):
    return {'side': side, 'chan': chan, 'src': src, 'fwd': fwd,
            'origin': origin, 'other': other, 'after': after, 'final': final}


def enum_cases(tier):
    for n_p in range(0, 5):
        n_s = n_p + 1
        for tail in ('first', 'last'):
            def case(m):
                return {'kind': 'fwd', 'pilots': n_p, 'msgs': [m], 'sched': [],
                        'tail': tail}
            for side in range(n_s):
                for chan in ('control', 'state'):
                    for fwd in (None, False, True):
                        yield case(_msg(side, chan, 'publish', fwd, 'absent'))
                        yield case(_msg(side, chan, 'publish', fwd, 'own'))
                        yield case(_msg(side, chan, 'publish', fwd, 'unknown'))
                        for k in range(n_s - 1):
                            yield case(_msg(side, chan, 'publish', fwd, 'other', other=k))
                for fwd in (None, False, True):
                    for final in (False, True):
                        yield case(_msg(side, 'state', 'advance', fwd, final=final))
                    yield case(_msg(side, 'control', 'rpc_req', fwd))
                    yield case(_msg(side, 'control', 'rpc_res', fwd))
                for fwd in (None, False, True):
                    for o in ('absent', 'own', 'unknown'):
                        yield case(_msg(side, 'control', 'client_api', fwd, o))
                if side:
                    for fwd in (None, False, True):
                        yield case(_msg(side, 'control', 'command_port', fwd, 'absent'))
                for k in range(n_s):
                    # 'other' here = index of the addressed side among ALL sides
                    yield case(_msg(side, 'control', 'rpc_call', None, other=k))


@st.composite
def sequences(draw):
    n_p = draw(st.sampled_from([0, 1, 2, 2, 3, 3, 4, 4, 5]))
    n_s = n_p + 1
    msgs = []
    for _ in range(draw(st.integers(1, 6))):
        src = draw(st.sampled_from(['publish'] * 5 + ['advance'] * 2 +
                                   ['rpc_req', 'rpc_res', 'rpc_call', 'client_api', 'command_port']))
        msgs.append(_msg(side=draw(st.integers(0, n_s - 1)),
                         chan=draw(st.sampled_from(['control', 'state'])),
                         src=src,
                         fwd=draw(st.sampled_from([None, False, True, True])),
                         origin=draw(st.sampled_from(['absent', 'absent', 'own',
                                                      'other', 'unknown'])),
                         other=draw(st.integers(0, 7)),
                         after=draw(st.sampled_from([0, 0, 0, 1, 2, 3, 5, 8])),
                         final=draw(st.booleans())))
    sched = draw(st.lists(st.integers(0, 11), max_size=60))
    return {'kind': 'fwd', 'pilots': n_p, 'msgs': msgs, 'sched': sched,
            'tail': draw(st.sampled_from(['first', 'last']))}


def parts(tier):
    return [Part('single_message_product', enum=enum_cases),
            Part('sequences', sequences(), quick=2000, thorough=5000)]


# ------------------------------------------------------------------------------
# the network of one case
#
class Side(object):
    pass


def build(n_sides, seen, replies):
    """one shared Net, one shared pair of proxy pubsubs, and per side: hollow
    Session -> real _publish_cfg -> local bridges -> real _crosswire_proxy ->
    real component with observers"""
    net   = Net(auto=False)
    proxy = {name: net.add_pubsub(name, ns='proxy') for name in PROXIES}
    sides = []
    for i in range(n_sides):
        mod  = side_name(i)
        role = rp.Session._PRIMARY if i == 0 else rp.Session._AGENT_0
        sess = HollowSession(net=net, module=mod, ns=mod, role=role,
                             sandbox=_SBOX, bridges=False)
        sess._rcfgs     = ru.Config()      # not read by the code under test
        sess._proxy_cfg = {k: dict(v) for k, v in proxy.items()}
        sess._publish_cfg()                # real: proxy channels -> registry
        for ps in CHANS.values():          # what _start_components registers
            sess._reg['bridges.%s' % ps] = net.add_pubsub(ps, mod)
        sess._crosswire_proxy()            # real: the four forwarder closures

        cls  = rpu.ClientComponent if i == 0 else rpu.AgentComponent
        comp = cls(comp_cfg(sess, 'verif.%s' % mod), sess)
        comp._initialize()                 # real: publishers, control subscriber

        def observer(chan, idx=i):
            def cb(topic, msg):
                seen.append((idx, chan, topic, copy.deepcopy(dict(msg))))
            return cb
        for chan, ps in CHANS.items():
            comp.register_subscriber(ps, observer(chan))

        def handler(tag, idx=i):
            replies.append((idx, tag))
            return tag
        comp.register_rpc_handler(RPC_CMD, handler, rpc_addr=mod)

        s = Side()
        s.idx, s.mod, s.sess, s.comp = i, mod, sess, comp
        sides.append(s)
    return net, sides


class _PortDone(BaseException):
    pass


def _command_port(side, msg):
    """one JSON command arrives at the command port of this side's agent_0"""
    import json
    from radical.pilot.agent import agent_0 as m_a0
    replies = []

    class Conn(object):
        def recv(self, n):
            return json.dumps(msg).encode('utf-8')

        def sendall(self, data):
            replies.append(data)

        def close(self):
            pass

    class Sock(object):
        n = 0

        def bind(self, addr):
            pass

        def listen(self, n):
            pass

        def accept(self):
            Sock.n += 1
            if Sock.n > 1:
                raise _PortDone()
            return Conn(), ('127.0.0.1', 40000)

    class SockMod(object):
        AF_INET = SOCK_STREAM = 0

        @staticmethod
        def socket(*a, **k):
            return Sock()

    a0 = m_a0.Agent_0.__new__(m_a0.Agent_0)
    a0._log = boot.LOG
    a0.publish = side.comp.publish
    saved = (m_a0.socket, ru.find_port, ru.get_hostip, ru.write_json)
    m_a0.socket = SockMod
    ru.find_port, ru.get_hostip = (lambda *a, **k: 10000), (lambda *a, **k: '127.0.0.1')
    ru.write_json = lambda *a, **k: None
    try:
        a0.command_port()
    except _PortDone:
        pass
    finally:
        m_a0.socket, ru.find_port, ru.get_hostip, ru.write_json = saved
    if replies != [b'OK']:
        raise RuntimeError('command port answered %r' % replies)


def ident(msg):
    """(id, kind) of an observed message, or None"""
    mt = msg.get('_msg_type')
    if mt in ('rpc_req', 'rpc_res'):
        return (msg.get('uid'), mt)
    if msg.get('cmd') == 'update':
        try:
            return (msg['arg'][0]['uid'], 'update')
        except Exception:        # noqa
            return None
    if msg.get('cmd') == 'verif' and 'mid' in msg:
        return (msg['mid'], 'raw')
    return None


def strip(msg):
    return {k: v for k, v in msg.items() if k not in MARKERS}


# ------------------------------------------------------------------------------
def run_case(case):
    res     = CaseResult()
    n_sides = min(max(0, int(case['pilots'])), MAX_PILOTS) + 1
    seen    = []        # (side, chan, topic, msg) per observer delivery
    replies = []        # (side, tag) per rpc handler invocation
    n_comp  = len(rpu_component._components)

    try:
        net, sides = build(n_sides, seen, replies)
    except Exception as e:          # noqa
        del rpu_component._components[n_comp:]
        if exc_site(e) is None:
            raise                   # harness frame only: harness error, not a verdict
        res.fail(exc_sig('crosswire_setup_raised', e), repr(e))
        return res

    sched   = [int(x) for x in case.get('sched', [])]
    tail    = case.get('tail', 'first')
    state   = {'pos': 0, 'n': 0}
    picks   = []
    expect  = {}        # ident -> dict(side, chan, f, o, mode, sent)
    n_msgs  = len(case['msgs']) + sum(1 for m in case['msgs'] if m['src'] == 'rpc_call')
    bound   = 4 * n_sides * max(1, n_msgs)

    def step():
        """one scheduled delivery; False if nothing is deliverable or bound hit"""
        fifos = net.enabled_fifos()
        if not fifos or state['n'] >= bound:
            return False
        if state['pos'] < len(sched):
            k = sched[state['pos']] % len(fifos)
            state['pos'] += 1
        else:
            k = 0 if tail == 'first' else len(fifos) - 1
        picks.append(k)
        fifos[k].deliver_one()
        state['n'] += 1
        return True

    labels = set()
    nt     = False

    for i, m in enumerate(case['msgs']):
        for _ in range(max(0, int(m.get('after', 0)))):
            if state['pos'] >= len(sched) or not step():
                break

        s     = sides[int(m['side']) % n_sides]
        src   = m['src'] if m['src'] in SRCS else 'publish'
        fwd   = m['fwd'] if m['fwd'] in (None, False, True) else None
        o_cls = 'absent'
        chan  = m['chan'] if m['chan'] in CHANS else 'control'

        try:
            if src == 'command_port' and s.idx == 0:
                src = 'publish'                 # only agents have a command port
            if src in ('publish', 'client_api', 'command_port'):
                if src in ('client_api', 'command_port'):
                    chan = 'control'            # rp.Client / the command port publish control messages only
                msg = {'cmd': 'verif', 'mid': 'msg.%06d' % i,
                       'arg': {'n': i, 'l': [1, 'x', None], 'd': {'k': 1.5}}}
                if fwd is not None:
                    msg['fwd'] = fwd
                o_cls = m['origin'] if m['origin'] in ORIGINS else 'absent'
                if o_cls == 'other' and n_sides == 1:
                    o_cls = 'unknown'           # nobody else is connected
                if o_cls == 'own':
                    msg['origin'] = s.mod
                elif o_cls == 'other':
                    others = [x for x in sides if x is not s]
                    msg['origin'] = others[int(m['other']) % len(others)].mod
                elif o_cls == 'unknown':
                    msg['origin'] = UNKNOWN[int(m['other']) % len(UNKNOWN)]
                key, f, sent = ('msg.%06d' % i, 'raw'), fwd, copy.deepcopy(msg)
                if src == 'command_port' and fwd is None:
                    sent['fwd'] = False         # the port's default: commands stay on the pilot
                if src == 'command_port':
                    # agent_0's TCP command port (bin/radical-pilot-control and other tools send
                    # JSON commands there): the real Agent_0.command_port relays them
                    _command_port(s, msg)
                elif src == 'client_api':
                    # the documented client API (rp.Client, usable from the application and from
                    # inside a task): attached to this side's control bridge
                    cl = rp.Client.__new__(rp.Client)
                    cl._log = boot.LOG
                    cl._ctrl_pub = ru.zmq.Publisher(channel=rpc.CONTROL_PUBSUB,
                                       url=s.sess._reg['bridges.%s' % rpc.CONTROL_PUBSUB]['addr_pub'])
                    cl.send_ctrl_msg(rpc.CONTROL_PUBSUB, msg)
                else:
                    s.comp.publish(CHANS[chan], msg)

            elif src == 'advance':
                chan  = 'state'
                thing = {'uid': 'task.%06d' % i, 'type': 'task', 'state': rps.NEW,
                         'description': {'executable': '/bin/true'}, 'pilot': s.mod}
                if m.get('final'):
                    tgt = rps.FAILED
                else:
                    tgt = rps.TMGR_SCHEDULING if s.idx == 0 else rps.AGENT_EXECUTING
                kw = {} if fwd is None else {'fwd': fwd}
                # component defaults (component.py): agent side forwards, client side not
                f  = fwd if fwd is not None else (s.idx != 0)
                key, sent = ('task.%06d' % i, 'update'), None
                s.comp.advance(thing, tgt, publish=True, push=False, **kw)

            else:
                chan = 'control'
                uid  = 'rpc.%06d' % i
                kw   = {} if (fwd is None or src == 'rpc_call') else {'fwd': fwd}
                # message defaults (messages.py; Pilot.rpc / BaseComponent.rpc rely
                # on request and result crossing the proxy)
                f    = True if (fwd is None or src == 'rpc_call') else fwd
                if src == 'rpc_res':
                    msg = RPCResultMessage(uid=uid, val=i, **kw)
                    key = (uid, 'rpc_res')
                elif src == 'rpc_req':
                    msg = RPCRequestMessage(uid=uid, cmd='verif_none', args=[i], **kw)
                    key = (uid, 'rpc_req')
                else:
                    tgt = sides[int(m['other']) % n_sides]
                    msg = RPCRequestMessage(uid=uid, cmd=RPC_CMD, addr=tgt.mod,
                                            args=[uid])
                    key = (uid, 'rpc_req')
                    # the addressed side answers through the real _handle_rpc_msg
                    expect[(uid, 'rpc_res')] = {
                        'side': tgt.idx, 'chan': 'control', 'f': True, 'o': 'absent',
                        'src': 'rpc_reply', 'sent': None, 'reply_to': s.idx}
                sent = None
                s.comp.publish(rpc.CONTROL_PUBSUB, msg)

        except Exception as e:          # noqa
            if exc_site(e) is None:
                raise
            res.fail(exc_sig('publish_raised:%s' % src, e), repr(e))
            continue

        expect[key] = {'side': s.idx, 'chan': chan, 'f': f, 'o': o_cls,
                       'src': src, 'sent': sent}
        picks.append('P')
        labels.add('src=%s' % src)
        labels.add('fwd=%s/origin=%s' % (fwd, o_cls))
        if (f is True and n_sides >= 3) or o_cls != 'absent':
            nt = True

    while step():
        pass

    del rpu_component._components[n_comp:]          # harness hygiene (at-fork list)

    # ---- oracle ---------------------------------------------------------------
    quiet = not net.enabled_fifos()
    if not quiet:
        res.fail('circulation:not_quiet_within_bound',
                 '%d deliveries done (bound %d = 4 x %d sides x %d messages), %d still '
                 'pending' % (state['n'], bound, n_sides, n_msgs, net.pending()))

    for ev in net.log:
        if ev[0] == 'cb_error':
            where = 'proxy' if '//proxy/' in ev[1] else 'local'
            res.fail(exc_sig('subscriber_raised:%s' % where, ev[3]),
                     '%s on %s: %r' % (ev[2], ev[1], ev[3]))

    counts = {}         # ident -> {(side, chan): [msgs]}
    for idx, chan, topic, msg in seen:
        k = ident(msg)
        if k is None or k not in expect:
            res.fail('alien_message', 'side %s %s: %r' % (side_name(idx), chan, msg))
            continue
        counts.setdefault(k, {}).setdefault((idx, chan), []).append(msg)

    for k in sorted(expect):
        e   = expect[k]
        got = counts.get(k, {})
        s, chan, f, o = e['side'], e['chan'], e['f'], e['o']
        cls = '%s/fwd=%s/origin=%s' % (e['src'], f, o)

        if e['src'] == 'rpc_reply':
            # the reply is judged only if exactly the addressed component
            # answered (whether it does is component behaviour, not forwarding;
            # a request that never arrived is reported on the request itself)
            if [idx for idx, tag in replies if tag == k[0]] != [s]:
                res.label('rpc_reply_not_judged')
                continue
            res.label('rpc_reply_judged')

        own = got.get((s, chan), [])
        if len(own) != 1:
            res.fail('%s_on_origin_side:%s' % ('lost' if not own else 'duplicate', cls),
                     '%s: %d deliveries on its own side %s'
                     % (k[0], len(own), side_name(s)))
        ref = e['sent'] if e['sent'] is not None else (own[0] if own else None)
        if e['sent'] is not None and own and own[0] != e['sent']:
            res.fail('payload_changed:origin_side', '%r -> %r' % (e['sent'], own[0]))

        if f is True and o in ('absent', 'own'):
            mode = 'all'
        elif f is not True:
            mode = 'none'
        else:
            mode = 'weak'

        for t in range(n_sides):
            for c in CHANS:
                n = len(got.get((t, c), []))
                if c != chan:
                    if n:
                        res.fail('wrong_channel:%s' % cls,
                                 '%s published on %s of %s seen %d x on %s of %s'
                                 % (k[0], chan, side_name(s), n, c, side_name(t)))
                    continue
                if t == s:
                    continue
                if mode == 'all' and n == 0:
                    res.fail('not_delivered:%s' % cls,
                             '%s from %s never reached %s'
                             % (k[0], side_name(s), side_name(t)))
                elif mode == 'none' and n > 0:
                    res.fail('left_its_side:%s' % cls,
                             '%s from %s seen %d x on %s'
                             % (k[0], side_name(s), n, side_name(t)))
                elif n > 1:
                    res.fail('duplicate_on_other_side:%s' % cls,
                             '%s from %s seen %d x on %s'
                             % (k[0], side_name(s), n, side_name(t)))
                for msg in got.get((t, c), []):
                    # informational only (the statement does not demand it): is
                    # the flag cleared on the forwarded copy?
                    res.label('forwarded_copy:flag_%s'
                              % ('still_set' if msg.get('fwd') else 'cleared'))
                if ref is not None:
                    for msg in got.get((t, c), []):
                        if strip(msg) != strip(ref):
                            res.fail('payload_changed:forwarded',
                                     '%r -> %r' % (ref, msg))

    res.nontrivial = nt
    res.label('sides=%d' % n_sides, 'msgs=%d' % min(len(case['msgs']), 6),
              'tail=%s' % tail, *sorted(labels))
    if state['pos'] > 0:
        res.label('scheduled_picks>0')
    if len({e['side'] for e in expect.values()}) > 1:
        res.label('multi_origin')
    res.key = {'n': n_sides, 'picks': picks,
               'm': [[expect[k]['side'], expect[k]['chan'], expect[k]['src'],
                      str(expect[k]['f']), expect[k]['o']] for k in sorted(expect)]}
    return res
