"""C15 part: a wait call does not depend on user callbacks.

A user state callback may take arbitrarily long (it may even wait for the thread which is
calling wait_tasks / wait_pilots, e.g. through a bounded queue).  The wait call must still
return "no later than shortly after the timeout" / once every awaited entity is there.

Two activities under the deterministic scheduler (detsched.Baton): the notifier (the state
subscriber thread: real TaskManager._update_tasks / PilotManager._update_pilot -> user
callback, which blocks until the harness lets it go) and the waiter (real wait_tasks /
wait_pilots with a timeout on the virtual clock).  The managers' locks are FakeLocks (yield
points; "blocked" is visible to the harness), so the verdict "the wait call cannot proceed
until the callback returns" is exact and needs no wall clock.
"""
import threading as mt

from hypothesis import strategies as st

from . import boot                                    # noqa: F401
from .runner import CaseResult, exc_sig
from .hollow import HollowSession, hollow_tmgr
from .c15_hollow import hollow_pmgr, add_pilot
from .detsched import Baton, FakeTime
from .execsim import FakeLock

import radical.pilot as rp
import radical.pilot.states as rps
import radical.pilot.task_manager  as m_tmgr
import radical.pilot.pilot_manager as m_pmgr
import radical.pilot.task  as m_task
import radical.pilot.pilot as m_pilot

_LOCK_TYPES = (type(mt.RLock()), type(mt.Lock()))


@st.composite
def cases(draw):
    return {'kind': 'blocking_callback',
            'what': draw(st.sampled_from(['tasks', 'pilots'])),
            'n': draw(st.integers(1, 4)),
            'hit': draw(st.integers(0, 3)),                   # entity whose update is in flight
            'level': draw(st.sampled_from(['manager', 'entity'])),     # where the callback is registered
            'awaited': draw(st.sampled_from(['all', 'hit', 'others'])),
            'timeout': draw(st.sampled_from([0.3, 0.5, 1.0, 2.5])),
            'target': draw(st.integers(0, 3))}


def _swap_locks(obj, baton):
    for name, val in list(vars(obj).items()):
        if isinstance(val, _LOCK_TYPES) or type(val).__name__ in ('RLock', 'Lock'):
            setattr(obj, name, FakeLock(baton, name, reentrant=True))


def run(case):
    res = CaseResult()
    res.label('blocking_callback', 'blocking_callback:%s' % case.get('what'))
    baton = Baton()
    what  = case.get('what') if case.get('what') in ('tasks', 'pilots') else 'tasks'
    n     = max(1, min(4, int(case.get('n') or 1)))
    hit   = int(case.get('hit') or 0) % n
    sess  = HollowSession()
    state = {'released': False, 'entered': False}

    def cb(*a, **k):
        state['entered'] = True
        while not state['released'] and not baton.closing:
            baton.yield_point('user_callback_blocked')
        return True

    saved = [(m, m.time) for m in (m_tmgr, m_pmgr, m_task, m_pilot)]
    try:
        for m, _ in saved:
            m.time = FakeTime(baton)
        if what == 'tasks':
            mgr = hollow_tmgr(sess)
            for sub in mgr._subscribers.values():
                sub.stop()
            ents = mgr.submit_tasks([rp.TaskDescription({'uid': 'task.%06d' % i, 'executable': '/bin/true'})
                                     for i in range(n)])
            tgt = [rps.TMGR_SCHEDULING_PENDING, rps.AGENT_EXECUTING, rps.DONE, rps.FAILED][int(case.get('target') or 0) % 4]
            notify = lambda: mgr._update_tasks([{'uid': ents[hit].uid, 'type': 'task', 'state': tgt}])   # noqa
            wait   = lambda uids, to: mgr.wait_tasks(uids, timeout=to)                                     # noqa
        else:
            mgr  = hollow_pmgr(sess)
            ents = [add_pilot(mgr, 'pilot.%04d' % i) for i in range(n)]
            tgt = [rps.PMGR_LAUNCHING_PENDING, rps.PMGR_ACTIVE, rps.DONE, rps.FAILED][int(case.get('target') or 0) % 4]
            notify = lambda: mgr._update_pilot({'uid': ents[hit].uid, 'type': 'pilot', 'state': tgt})    # noqa
            wait   = lambda uids, to: mgr.wait_pilots(uids, timeout=to)                                   # noqa
        if case.get('level') == 'entity':
            ents[hit].register_callback(cb)
        else:
            mgr.register_callback(cb)
        _swap_locks(mgr, baton)

        if case.get('awaited') == 'hit':
            uids = [ents[hit].uid]
        elif case.get('awaited') == 'others' and n > 1:
            uids = [e.uid for k, e in enumerate(ents) if k != hit]
        else:
            uids = [e.uid for e in ents]

        out = {}
        baton.spawn('notifier', notify)
        baton.spawn('waiter', lambda: out.setdefault('ret', wait(uids, float(case.get('timeout') or 0.5))))

        # the notification is being delivered: run the notifier into the user callback
        for _ in range(400):
            tag = baton.resume('notifier')
            if tag is None or tag == 'user_callback_blocked':
                break
        if not state['entered']:
            res.label('blocking_callback:callback_not_reached')
            return res
        res.nontrivial = True

        # ... and while the callback does not return, the wait call must come back on its own
        stuck = 0
        for _ in range(2000):
            tag = baton.resume('waiter')
            if tag is None:
                break
            stuck = stuck + 1 if tag.startswith('blocked:') else 0
            if stuck >= 5:
                res.fail('wait_blocked_by_user_callback:%s' % ('wait_tasks' if what == 'tasks' else 'wait_pilots'),
                         'the call waits for lock %s, held by the thread which is inside a user '
                         'callback (%s level); awaited %s, timeout %s'
                         % (tag.split(':', 1)[1], case.get('level'), uids, case.get('timeout')))
                break
        else:
            res.fail('wait_did_not_return_while_callback_runs', 'after 2000 scheduling steps, virtual time %.1f'
                     % baton.now)
        ct = baton.threads['waiter']
        if ct.done and ct.exc is not None:
            res.fail(exc_sig('wait_raised:blocking_callback', ct.exc), repr(ct.exc))
    finally:
        state['released'] = True
        try:
            baton.finish_all()
        except Exception:
            pass
        for m, t in saved:
            m.time = t
    return res


# ------------------------------------------------------------------------------
# submission vs. the first notifications: a pilot whose launch fails (or which is canceled)
# at once is final - a wait on it returns
#
@st.composite
def submit_cases(draw):
    return {'kind': 'submit_then_wait',
            'n': draw(st.integers(1, 3)),
            'script': draw(st.sampled_from([['PMGR_LAUNCHING', 'FAILED'], ['FAILED'], ['CANCELED'],
                                            ['PMGR_LAUNCHING', 'PMGR_ACTIVE_PENDING', 'PMGR_ACTIVE', 'DONE'],
                                            ['PMGR_LAUNCHING', 'CANCELED']])),
            'when': draw(st.sampled_from(['at_hand_over', 'at_hand_over', 'after_submit'])),
            'api': draw(st.sampled_from(['wait_pilots', 'Pilot.wait'])),
            'timeout': draw(st.sampled_from([0.5, 2.0]))}


def run_submit(case):
    """real PilotManager.submit_pilots on the hollow manager; the launcher's reaction (state
    notifications through the real _state_sub_cb) arrives either right when the pilots are handed
    over - the subscriber thread may run before the submitting thread continues - or after
    submit_pilots returned.  Either way the pilots are final afterwards and a wait returns at once."""
    import radical.utils as ru
    import radical.pilot.constants as rpc
    res = CaseResult()
    res.label('submit_then_wait', 'submit_then_wait:%s' % case.get('when'))
    sess = HollowSession()
    pm   = hollow_pmgr(sess)
    try:
        pm.register_output(rps.PMGR_LAUNCHING_PENDING, rpc.PMGR_LAUNCHING_QUEUE)
    except Exception:
        pass
    script = [s for s in (case.get('script') or ['FAILED']) if isinstance(s, str)]
    final  = script[-1]
    at_hand_over = case.get('when') != 'after_submit'

    def react(things):
        for t in ru.as_list(things):
            for s in script:
                pm._state_sub_cb(rpc.STATE_PUBSUB, {'cmd': 'update',
                                 'arg': [{'uid': t['uid'], 'type': 'pilot', 'state': s}]})

    orig = pm.advance
    handed = []

    def advance(things, state=None, publish=True, push=False, **kw):
        r = orig(things, state=state, publish=publish, push=push, **kw)
        if push:
            handed.extend(ru.as_list(things))
            if at_hand_over:
                react(things)
        return r
    pm.advance = advance

    saved = [(m, m.time) for m in (m_pmgr, m_pilot)]
    baton = Baton()
    try:
        for m, _ in saved:
            m.time = FakeTime(baton)
        n = max(1, min(3, int(case.get('n') or 1)))
        pds = [rp.PilotDescription({'resource': 'local.localhost', 'cores': 1, 'runtime': 10,
                                    'exit_on_error': False}) for _ in range(n)]
        try:
            pilots = pm.submit_pilots(pds)
        except Exception as e:          # noqa
            res.fail(exc_sig('submit_pilots_raised', e), repr(e))
            return res
        if not at_hand_over:
            react(handed)
        res.nontrivial = True
        t0 = baton.now
        to = float(case.get('timeout') or 0.5)
        try:
            if case.get('api') == 'Pilot.wait':
                got = [p.wait(timeout=to) for p in pilots]
            else:
                got = pm.wait_pilots([p.uid for p in pilots], timeout=to)
        except Exception as e:          # noqa
            res.fail(exc_sig('wait_raised:after_submit', e), repr(e))
            return res
        waited = baton.now - t0
        states = [p.state for p in pilots]
        if any(s != final for s in states):
            res.fail('pilot_not_final_after_its_final_notification:%s' % case.get('when'),
                     'notified %s, pilot states %s' % (script, states))
        elif waited > 0.3:
            res.fail('late_or_never:%s:after_submit' % case.get('api'),
                     'all pilots are final, the call took %.1f virtual seconds' % waited)
        elif any(g is not None and g != s for g, s in zip(ru.as_list(got), states)):
            # (None from Pilot.wait claims nothing)
            res.fail('wrong_value:%s:after_submit' % case.get('api'), '%s vs %s' % (got, states))
    finally:
        for m, t in saved:
            m.time = t
    return res


# ------------------------------------------------------------------------------
# wait calls next to a kill request in flight: PilotManager.kill_pilots (used by close() and
# by applications) publishes the request and waits for it to be enacted.  While it waits, the
# state subscriber must be able to deliver the final state, and a wait call of another thread
# keeps its own bounds.
#
@st.composite
def kill_cases(draw):
    return {'kind': 'kill_in_flight',
            'n': draw(st.integers(1, 3)),
            'kill_timeout': draw(st.sampled_from([2.0, 4.0, 10.0])),
            'enacted_after': draw(st.sampled_from([0.05, 0.3, 0.7, 1.5])),    # launcher reports CANCELED
            'waiter': draw(st.sampled_from(['wait_pilots', 'pilot_wait', 'none'])),
            'wait_timeout': draw(st.sampled_from([0.5, 1.0, 3.0])),
            'awaited': draw(st.sampled_from(['killed', 'all']))}


def run_kill(case):
    res = CaseResult()
    res.label('kill_in_flight', 'kill_in_flight:waiter=%s' % case.get('waiter'))
    baton = Baton()
    n     = max(1, min(3, int(case.get('n') or 1)))
    sess  = HollowSession()
    T     = float(case.get('kill_timeout') or 4.0)
    d     = float(case.get('enacted_after') or 0.3)
    wt    = float(case.get('wait_timeout') or 1.0)
    p     = 0.1                                      # poll interval of the wait loops
    saved = [(m, m.time) for m in (m_pmgr, m_pilot)]

    class _Clock(object):
        """virtual clock: a sleeping activity is not runnable until its wake-up time; time passes
        only when nothing can run"""
        wake = {}

        def time(self):
            return baton.now

        def sleep(self, dt):
            ct = baton.current()
            if ct is not None:
                self.wake[ct.name] = baton.now + max(float(dt), 0.0)
            baton.yield_point('sleep')

        def __getattr__(self, name):
            import time as _t
            return getattr(_t, name)
    clock = _Clock()
    clock.wake = {}
    try:
        for m, _ in saved:
            m.time = clock
        mgr  = hollow_pmgr(sess)
        ents = [add_pilot(mgr, 'pilot.%04d' % i) for i in range(n)]
        for e in ents:
            mgr._update_pilot({'uid': e.uid, 'type': 'pilot', 'state': rps.PMGR_ACTIVE})
        _swap_locks(mgr, baton)
        victim = ents[0]
        out, t_ret = {}, {}
        t0 = baton.now

        def killer():
            mgr.kill_pilots(victim.uid, _timeout=T)
            t_ret['kill'] = baton.now

        def notifier():
            mgr._update_pilot({'uid': victim.uid, 'type': 'pilot', 'state': rps.CANCELED})
            t_ret['notify'] = baton.now

        def waiter():
            if case.get('waiter') == 'pilot_wait':
                out['ret'] = victim.wait(timeout=wt)
            else:
                uids = [victim.uid] if case.get('awaited') != 'all' else [e.uid for e in ents]
                out['ret'] = mgr.wait_pilots(uids, timeout=wt)
            t_ret['wait'] = baton.now
            out['state_then'] = victim.state

        baton.spawn('killer', killer)
        names = ['killer']
        if case.get('waiter') in ('wait_pilots', 'pilot_wait'):
            baton.spawn('waiter', waiter)
            names.append('waiter')
        notif = False

        def runnable(nm):
            b = getattr(baton.threads[nm], 'blocked', None)
            if b is not None and b.held():
                return False
            return clock.wake.get(nm, 0) <= baton.now

        for _ in range(6000):
            if not notif and baton.now - t0 >= d:
                baton.spawn('notifier', notifier)
                names.append('notifier')
                notif = True
            live = [nm for nm in names if not baton.threads[nm].done]
            if not live:
                break
            run = [nm for nm in live if runnable(nm)]
            if 'notifier' in run:
                run = ['notifier']                    # the subscriber delivers at once if nothing holds it up
            if run:
                for nm in run:
                    baton.resume(nm)
                continue
            # everybody sleeps or waits for a lock: time passes up to the next wake-up / event
            wakes = [clock.wake[nm] for nm in live if clock.wake.get(nm, 0) > baton.now]
            if not notif:
                wakes.append(t0 + d)
            if not wakes:
                res.fail('kill_in_flight:deadlock', 'no activity can proceed at virtual time %.2f: %s'
                         % (baton.now - t0, live))
                break
            baton.now = min(wakes)
            if baton.now - t0 > T + d + wt + 30:
                break
        res.nontrivial = True
        for nm in names:
            ct = baton.threads[nm]
            if ct.done and ct.exc is not None:
                res.fail(exc_sig('kill_in_flight:%s_raised' % nm, ct.exc), repr(ct.exc))
        # the notification is applied when it arrives, not when the kill call gives up
        if 'notify' not in t_ret or t_ret['notify'] - t0 > d + 3 * p:
            res.fail('kill_in_flight:notification_held_back',
                     'CANCELED arrived at %.2f, applied at %s (kill_pilots timeout %.1f)'
                     % (d, '%.2f' % (t_ret['notify'] - t0) if 'notify' in t_ret else 'never', T))
        # kill_pilots waits for the kill to be enacted: back shortly after that
        if 'kill' not in t_ret or t_ret['kill'] - t0 > min(d, T) + 3 * p:
            res.fail('kill_in_flight:kill_pilots_returns_late',
                     'enacted at %.2f, timeout %.1f, returned at %s'
                     % (d, T, '%.2f' % (t_ret['kill'] - t0) if 'kill' in t_ret else 'never'))
        if 'waiter' in names:
            due = wt if (case.get('waiter') == 'wait_pilots' and case.get('awaited') == 'all' and n > 1) \
                else min(d, wt)
            if 'wait' not in t_ret or t_ret['wait'] - t0 > due + 3 * p:
                res.fail('kill_in_flight:%s_returns_late' % case.get('waiter'),
                         'awaited pilot final at %.2f, timeout %.1f, returned at %s'
                         % (d, wt, '%.2f' % (t_ret['wait'] - t0) if 'wait' in t_ret else 'never'))
            elif case.get('waiter') == 'wait_pilots' and out.get('ret') and \
                    out['ret'][0] != out.get('state_then'):
                res.fail('kill_in_flight:wait_pilots_untruthful', '%s vs %s' % (out['ret'], out.get('state_then')))
        if d < wt:
            res.label('kill_in_flight:enacted_before_wait_timeout')
    finally:
        try:
            baton.finish_all()
        except Exception:
            pass
        for m, t in saved:
            m.time = t
    return res
