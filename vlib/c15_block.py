"""C15 part: a wait call does not depend on user callbacks.

A user state callback may take arbitrarily long (it may even wait for the thread which is
calling wait_tasks / wait_pilots, e.g. through a bounded queue).  The wait call must still
return "no later than shortly after the timeout" / once every awaited entity is there.

Two activities under the deterministic scheduler (detsched.Baton): the notifier (the state
subscriber thread: real TaskManager._update_tasks / PilotManager._update_pilot -> user
callback, which blocks until the harness lets it go) and the waiter (real wait_tasks /
wait_pilots with a timeout on the virtual clock).  The managers' locks are FakeLocks (yield
points; "blocked" is visible to the harness), so the verdict "the wait call cannot proceed
until the callback returns" is exact and needs no wall clock.
"""
import threading as mt

from hypothesis import strategies as st

from . import boot                                    # noqa: F401
from .runner import CaseResult, exc_sig
from .hollow import HollowSession, hollow_tmgr
from .c15_hollow import hollow_pmgr, add_pilot
from .detsched import Baton, FakeTime
from .execsim import FakeLock

import radical.pilot as rp
import radical.pilot.states as rps
import radical.pilot.task_manager  as m_tmgr
import radical.pilot.pilot_manager as m_pmgr
import radical.pilot.task  as m_task
import radical.pilot.pilot as m_pilot

_LOCK_TYPES = (type(mt.RLock()), type(mt.Lock()))


@st.composite
def cases(draw):
    return {'kind': 'blocking_callback',
            'what': draw(st.sampled_from(['tasks', 'pilots'])),
            'n': draw(st.integers(1, 4)),
            'hit': draw(st.integers(0, 3)),                   # entity whose update is in flight
            'level': draw(st.sampled_from(['manager', 'entity'])),     # where the callback is registered
            'awaited': draw(st.sampled_from(['all', 'hit', 'others'])),
            'timeout': draw(st.sampled_from([0.3, 0.5, 1.0, 2.5])),
            'target': draw(st.integers(0, 3))}


def _swap_locks(obj, baton):
    for name, val in list(vars(obj).items()):
        if isinstance(val, _LOCK_TYPES) or type(val).__name__ in ('RLock', 'Lock'):
            setattr(obj, name, FakeLock(baton, name, reentrant=True))


def run(case):
    res = CaseResult()
    res.label('blocking_callback', 'blocking_callback:%s' % case.get('what'))
    baton = Baton()
    what  = case.get('what') if case.get('what') in ('tasks', 'pilots') else 'tasks'
    n     = max(1, min(4, int(case.get('n') or 1)))
    hit   = int(case.get('hit') or 0) % n
    sess  = HollowSession()
    state = {'released': False, 'entered': False}

    def cb(*a, **k):
        state['entered'] = True
        while not state['released'] and not baton.closing:
            baton.yield_point('user_callback_blocked')
        return True

    saved = [(m, m.time) for m in (m_tmgr, m_pmgr, m_task, m_pilot)]
    try:
        for m, _ in saved:
            m.time = FakeTime(baton)
        if what == 'tasks':
            mgr = hollow_tmgr(sess)
            for sub in mgr._subscribers.values():
                sub.stop()
            ents = mgr.submit_tasks([rp.TaskDescription({'uid': 'task.%06d' % i, 'executable': '/bin/true'})
                                     for i in range(n)])
            tgt = [rps.TMGR_SCHEDULING_PENDING, rps.AGENT_EXECUTING, rps.DONE, rps.FAILED][int(case.get('target') or 0) % 4]
            notify = lambda: mgr._update_tasks([{'uid': ents[hit].uid, 'type': 'task', 'state': tgt}])   # noqa
            wait   = lambda uids, to: mgr.wait_tasks(uids, timeout=to)                                     # noqa
        else:
            mgr  = hollow_pmgr(sess)
            ents = [add_pilot(mgr, 'pilot.%04d' % i) for i in range(n)]
            tgt = [rps.PMGR_LAUNCHING_PENDING, rps.PMGR_ACTIVE, rps.DONE, rps.FAILED][int(case.get('target') or 0) % 4]
            notify = lambda: mgr._update_pilot({'uid': ents[hit].uid, 'type': 'pilot', 'state': tgt})    # noqa
            wait   = lambda uids, to: mgr.wait_pilots(uids, timeout=to)                                   # noqa
        if case.get('level') == 'entity':
            ents[hit].register_callback(cb)
        else:
            mgr.register_callback(cb)
        _swap_locks(mgr, baton)

        if case.get('awaited') == 'hit':
            uids = [ents[hit].uid]
        elif case.get('awaited') == 'others' and n > 1:
            uids = [e.uid for k, e in enumerate(ents) if k != hit]
        else:
            uids = [e.uid for e in ents]

        out = {}
        baton.spawn('notifier', notify)
        baton.spawn('waiter', lambda: out.setdefault('ret', wait(uids, float(case.get('timeout') or 0.5))))

        # the notification is being delivered: run the notifier into the user callback
        for _ in range(400):
            tag = baton.resume('notifier')
            if tag is None or tag == 'user_callback_blocked':
                break
        if not state['entered']:
            res.label('blocking_callback:callback_not_reached')
            return res
        res.nontrivial = True

        # ... and while the callback does not return, the wait call must come back on its own
        stuck = 0
        for _ in range(2000):
            tag = baton.resume('waiter')
            if tag is None:
                break
            stuck = stuck + 1 if tag.startswith('blocked:') else 0
            if stuck >= 5:
                res.fail('wait_blocked_by_user_callback:%s' % ('wait_tasks' if what == 'tasks' else 'wait_pilots'),
                         'the call waits for lock %s, held by the thread which is inside a user '
                         'callback (%s level); awaited %s, timeout %s'
                         % (tag.split(':', 1)[1], case.get('level'), uids, case.get('timeout')))
                break
        else:
            res.fail('wait_did_not_return_while_callback_runs', 'after 2000 scheduling steps, virtual time %.1f'
                     % baton.now)
        ct = baton.threads['waiter']
        if ct.done and ct.exc is not None:
            res.fail(exc_sig('wait_raised:blocking_callback', ct.exc), repr(ct.exc))
    finally:
        state['released'] = True
        try:
            baton.finish_all()
        except Exception:
            pass
        for m, t in saved:
            m.time = t
    return res
