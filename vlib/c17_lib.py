"""C17 helpers: catalogue of shipped platform configs, factory-table resolution
without instantiation, hollow pilot launcher, sizing reference model (A.6).
"""
import os
import glob
import json
import signal
import tempfile
import contextlib

from . import boot
from .hollow import HollowSession, HollowPmgr

import radical.utils as ru
import radical.pilot as rp

from radical.pilot.pmgr.launching import base as rpl_base
from radical.pilot.agent.resource_manager.base import ResourceManager
from radical.pilot.agent.launch_method.base    import LaunchMethod
from radical.pilot.agent.scheduler.base        import AgentSchedulingComponent
from radical.pilot.agent.executing.base        import AgentExecutingComponent

CFG_DIR = os.path.join(os.path.dirname(os.path.abspath(rp.__file__)), 'configs')

# determinism: `get_resource_config` asks the resource manager class whether we
# run inside a batch job (and then overwrites the endpoints); sizing reads
# RADICAL_SMT.  The harness process starts outside any batch job, SMT unset.
for _k in ('COBALT_JOBID', 'LSB_JOBID', 'PBS_JOBID', 'SLURM_JOB_ID', 'RADICAL_SMT'):
    os.environ.pop(_k, None)

# agent config files written by _prepare_pilot (tempfile.mkstemp) stay in scratch
# (one directory per process: thorough-tier shards are forked)
_TMP = {'pid': None, 'dir': None}


def own_tmp():
    if _TMP['pid'] != os.getpid():
        _TMP['pid'] = os.getpid()
        _TMP['dir'] = boot.fresh_dir('c17tmp.%d.' % os.getpid())
        tempfile.tempdir = _TMP['dir']
    return _TMP['dir']


own_tmp()


# ------------------------------------------------------------------------------
# catalogue: read straight from the shipped files (not through the session), so
# that a config the session loader drops silently is still enumerated
_CATALOG = None


def catalog():
    """-> {'site.label': raw dict} for every label in configs/resource_*.json"""
    global _CATALOG
    if _CATALOG is None:
        out = dict()
        for fn in sorted(glob.glob('%s/resource_*.json' % CFG_DIR)):
            site = os.path.basename(fn)[len('resource_'):-len('.json')]
            data = ru.read_json(fn)
            for label in sorted(data):
                if isinstance(data[label], dict):
                    out['%s.%s' % (site, label)] = data[label]
        _CATALOG = out
    return _CATALOG


def pairs():
    """all shipped (resource, schema) pairs, sorted"""
    out = list()
    for resource, raw in sorted(catalog().items()):
        schemas = raw.get('schemas')
        if isinstance(schemas, dict) and schemas:
            for schema in sorted(schemas):
                out.append((resource, schema))
        else:
            out.append((resource, None))
    return out


def facts(resource, schema):
    """node-size facts of a pair from the raw file (schema entries overwrite)"""
    raw = dict(catalog()[resource])
    ovr = (raw.get('schemas') or {}).get(schema) if schema else None
    if isinstance(ovr, dict):
        raw.update(ovr)
    arch = raw.get('system_architecture') or {}
    return {'cpn'    : int(raw.get('cores_per_node') or 0),
            'gpn'    : int(raw.get('gpus_per_node')  or 0),
            'smt_cfg': int(arch.get('smt') or 1),
            'nbc'    : len(arch.get('blocked_cores') or []),
            'nbg'    : len(arch.get('blocked_gpus')  or []),
            'mandatory': list(raw.get('mandatory_args') or [])}


def node_size(f, smt_env):
    """A.6: usable cores / gpus per node (0 = unknown), and the smt in effect"""
    smt = int(smt_env) if smt_env else f['smt_cfg']
    c = f['cpn'] * smt - f['nbc'] if f['cpn'] else 0
    g = f['gpn'] - f['nbg']       if f['gpn'] else 0
    return c, g, smt


def ceil_div(a, b):
    return -((-a) // b)


# ------------------------------------------------------------------------------
# factory resolution: run the real factory (its own name switch + its own table
# + its own imports) and stop at the moment it instantiates the class it chose
class Resolved(Exception):
    pass


def _trap(cls, *a, **k):
    raise Resolved(cls)


@contextlib.contextmanager
def _no_instances(base):
    assert '__new__' not in base.__dict__
    base.__new__ = _trap
    try:
        yield
    finally:
        del base.__new__


@contextlib.contextmanager
def _keep_signal_handlers():
    # importing agent/executing/popen.py (the executor factory does) installs
    # process-wide SIGTERM/SIGINT handlers that swallow the signal; a forked
    # shard worker would then survive Pool.terminate() and hang the run
    old = {s: signal.getsignal(s) for s in (signal.SIGTERM, signal.SIGINT)}
    try:
        yield
    finally:
        for s, h in old.items():
            if signal.getsignal(s) is not h and h is not None:
                signal.signal(s, h)


def resolve(base, *args):
    """base.create(*args) up to instantiation -> the class chosen.
    Raises what the factory raises for a name it does not know."""
    with _keep_signal_handlers(), _no_instances(base):
        try:
            ret = base.create(*args)
        except Resolved as e:
            return e.args[0]
    return ret      # factory returned without instantiating (e.g. None)


class StubAgentSession(object):
    """what the scheduler / executor factories read: session.rcfg"""
    def __init__(self, rcfg):
        self.rcfg = rcfg
        self.cfg  = ru.Config(cfg={})
        self.uid  = 'rp.session.verif.0000'


def resolve_rm(name):
    direct = ResourceManager.get_manager(name)
    via    = resolve(ResourceManager, name, None, None, boot.LOG, boot.PROF)
    return direct, via


def resolve_lm(name):
    return resolve(LaunchMethod, name, None, None, boot.LOG, boot.PROF)


def resolve_scheduler(rcfg):
    return resolve(AgentSchedulingComponent, None, StubAgentSession(rcfg))


def resolve_executor(rcfg):
    return resolve(AgentExecutingComponent, None, StubAgentSession(rcfg))


def load_agent_config(agent_config):
    """as PMGRLaunchingComponent._prepare_pilot loads it"""
    if isinstance(agent_config, dict):
        return ru.Config(cfg=agent_config)
    if isinstance(agent_config, str):
        return ru.Config('radical.pilot', category='agent', name=agent_config)
    raise TypeError('agent config must be string or dict')


# ------------------------------------------------------------------------------
class LaunchLog(boot.StubLog):
    level       = 'OFF'
    debug_level = 0


def hollow_launcher(session):
    """PMGRLaunchingComponent.__init__ minus component start-up and the
    SAGA/PSI/J launchers: the fields _prepare_pilot reads"""
    lc = rpl_base.PMGRLaunchingComponent.__new__(rpl_base.PMGRLaunchingComponent)
    lc._uid        = 'pmgr.0000.launching.0000'
    lc._session    = session
    lc._log        = LaunchLog()
    lc._prof       = boot.PROF
    lc._pmgr       = 'pmgr.0000'
    lc._pilots     = dict()
    lc._sandboxes  = dict()
    lc._cancelled  = list()
    lc._mod_dir    = os.path.dirname(os.path.abspath(rpl_base.__file__))
    lc._root_dir   = "%s/../../" % lc._mod_dir
    lc._rp_version = '1.104.0'
    return lc


def new_session():
    own_tmp()
    sess = HollowSession()
    sess._cfg.proxy_url = 'tcp://localhost:10001/'
    return sess


def pilot_doc(session, descr):
    """the pilot dict as PilotManager.submit_pilots hands it to the launcher:
    real PilotDescription -> real Pilot constructor -> as_dict()"""
    pd = rp.PilotDescription(descr)
    pd.verify()
    pilot = rp.Pilot(HollowPmgr(session), pd)
    return pilot.as_dict()


def bulk_rcfg(session, resource, schema, pilot):
    """the first lines of PMGRLaunchingComponent._start_pilot_bulk (copied):
    resolve the config and expand %(pd.*)s place holders in its string values"""
    rcfg   = session.get_resource_config(resource, schema)
    expand = dict()
    pd     = pilot['description']
    for k, v in pd.items():
        if v is None:
            v = ''
        expand['pd.%s' % k] = v
        if isinstance(v, str):
            expand['pd.%s' % k.upper()] = v.upper()
            expand['pd.%s' % k.lower()] = v.lower()
        else:
            expand['pd.%s' % k.upper()] = v
            expand['pd.%s' % k.lower()] = v
    for k in rcfg:
        if isinstance(rcfg[k], str):
            rcfg[k] = rcfg[k] % expand
    return rcfg, expand


def read_staged_agent_cfg(pilot):
    """the agent_0.cfg staging directive -> (parsed json, path)"""
    for sd in pilot.get('sds') or []:
        if str(sd.get('target', '')).endswith('/agent_0.cfg'):
            with open(sd['source']) as f:
                return json.load(f), sd['source']
    return None, None


def cleanup_tmp():
    """remove the agent config files of this case.  radical.utils.write_json
    (used by agent_cfg.write) never closes the descriptor of its mkstemp file,
    one per _prepare_pilot call: close those which point into our directory."""
    d = own_tmp()
    try:
        fds = os.listdir('/proc/self/fd')
    except OSError:
        fds = []
    for fd in fds:
        try:
            tgt = os.readlink('/proc/self/fd/%s' % fd)
        except OSError:
            continue
        if tgt.startswith(d + '/'):
            try:
                os.close(int(fd))
            except OSError:
                pass
    for fn in os.listdir(d):
        try:
            os.unlink(os.path.join(d, fn))
        except OSError:
            pass


@contextlib.contextmanager
def smt_env(value):
    old = os.environ.get('RADICAL_SMT')
    if value:
        os.environ['RADICAL_SMT'] = str(value)
    else:
        os.environ.pop('RADICAL_SMT', None)
    try:
        yield
    finally:
        if old is None:
            os.environ.pop('RADICAL_SMT', None)
        else:
            os.environ['RADICAL_SMT'] = old
