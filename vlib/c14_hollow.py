"""C14 helpers: hollow PilotManager, hollow tmgr scheduler (second consumer of
pilot state notifications), hollow Agent_0 with a virtual clock, and the
killme.signal -> final_state snippet of bootstrap_0.sh.

Real methods run unmodified.  What is duplicated from constructors (trusted
base, named in evidence): the field initialisations of PilotManager.__init__
and Agent_0.__init__ listed below.
"""
import os
import re
import shutil
import subprocess
import threading as mt

from . import boot

import radical.utils as ru
import radical.pilot as rp
import radical.pilot.states    as rps
import radical.pilot.constants as rpc
import radical.pilot.utils     as rpu

from radical.pilot.agent import agent_0 as rp_agent_0
from radical.pilot.tmgr.scheduler.base        import TMGRSchedulingComponent
from radical.pilot.tmgr.scheduler.round_robin import RoundRobin

from .hollow import comp_cfg


# ------------------------------------------------------------------------------
def _real_initialize_base_only(comp):
    """run the real BaseComponent._initialize (publishers, control subscriber,
    cancel list) with the class level `initialize()` masked for that one call"""
    comp.initialize = lambda: None
    try:
        comp._initialize()
    finally:
        del comp.initialize


# ------------------------------------------------------------------------------
def hollow_pmgr(session, uid='pmgr.0000'):
    """PilotManager.__init__ minus start()/ComponentManager/heartbeat thread.
    Fields copied from the constructor; `initialize()` (only registers at-fork
    handlers, process global) is not run."""
    pm = rp.PilotManager.__new__(rp.PilotManager)
    pm._uid         = uid
    pm._uids        = list()
    pm._pilots      = dict()
    pm._pilots_lock = mt.RLock()
    pm._callbacks   = dict()
    pm._pcb_lock    = mt.RLock()
    pm._terminate   = mt.Event()
    pm._closed      = False
    for m in rpc.PMGR_METRICS:
        pm._callbacks[m] = dict()

    os.makedirs(session.path, exist_ok=True)     # control_cb writes resource json
    cfg = comp_cfg(session, uid, client_sandbox=session._get_client_sandbox())
    rpu.ClientComponent.__init__(pm, cfg, session=session)
    _real_initialize_base_only(pm)
    pm._rep = boot.StubRep()
    session._pmgrs[uid] = pm

    # as in the constructor
    pm.register_output(rps.PMGR_LAUNCHING_PENDING, rpc.PMGR_LAUNCHING_QUEUE)
    pm._stager = None
    pm.register_subscriber(rpc.STATE_PUBSUB, pm._state_sub_cb)
    return pm


# ------------------------------------------------------------------------------
def hollow_tmgr_scheduler(session, owner='tmgr.0000'):
    """real RoundRobin through its real constructor and real initialize(); only
    start() (the worker thread) is skipped."""
    cfg = comp_cfg(session, owner + '.scheduling', owner=owner,
                   scheduler=rp.SCHEDULER_ROUND_ROBIN)
    sched = TMGRSchedulingComponent.create(cfg, session)
    assert isinstance(sched, RoundRobin)
    sched._initialize()
    return sched


# ------------------------------------------------------------------------------
class VClock(object):
    """replacement for the `time` module global of agent_0.py"""

    def __init__(self, now=1000000.0):
        self.now = float(now)

    def time(self):
        return self.now

    def sleep(self, dt):
        self.now += max(0.0, float(dt))

    def advance(self, dt):
        self.now += max(0.0, float(dt))


class FakeRM(object):
    def __init__(self):
        self.stopped = 0
        self.info = ru.Config(cfg={'node_list': [], 'cores_per_node': 1,
                                   'gpus_per_node': 0, 'agent_node_list': []})

    def stop(self):
        self.stopped += 1


class AgentSession(object):
    """mixin for the hollow session handed to Agent_0: counts close() calls"""


def hollow_agent_0(session, pid='pilot.0000', pmgr='pmgr.0000', runtime=1,
                   clock=None, pwd=None):
    """Agent_0.__init__ minus session/RM bootstrap, sub-agents, service
    endpoint, lifetime idler thread (fields copied from the constructor); the
    real AgentComponent constructor and the real base _initialize() run.
    agent_0.py's module global `time` must already be rebound to `clock`."""
    a = rp.Agent_0.__new__(rp.Agent_0)
    pwd = pwd or os.getcwd()
    cfg = comp_cfg(session, 'agent_0', pid=pid, pmgr=pmgr, owner=pid,
                   pilot_sandbox=pwd, runtime=runtime, agents={}, services=[],
                   enable_ep=False)
    a._uid     = cfg.uid
    a._pid     = cfg.pid
    a._sid     = cfg.sid
    a._owner   = cfg.owner
    a._pmgr    = cfg.pmgr
    a._pwd     = cfg.pilot_sandbox
    a._session = session
    a._rm      = FakeRM()

    rpu.AgentComponent.__init__(a, cfg, session)

    a._starttime   = rp_agent_0.time.time()
    a._final_cause = None

    a._service_uid_launched = None
    a._service_uids_running = list()
    a._service_start_evt    = mt.Event()
    a._service_lock         = mt.Lock()
    a._service              = None

    _real_initialize_base_only(a)
    return a


class clock_installed(object):
    """context manager: rebind agent_0.time to a virtual clock"""

    def __init__(self, clock):
        self.clock = clock

    def __enter__(self):
        self.saved = rp_agent_0.time
        rp_agent_0.time = self.clock
        return self.clock

    def __exit__(self, *a):
        rp_agent_0.time = self.saved
        return False


class in_dir(object):
    """run a case in a fresh cwd (finalize() writes ./killme.signal), remove it"""

    def __enter__(self):
        self.saved = os.getcwd()
        self.path  = boot.fresh_dir('c14.')
        os.chdir(self.path)
        return self.path

    def __exit__(self, *a):
        os.chdir(self.saved)
        shutil.rmtree(self.path, ignore_errors=True)
        return False


# ------------------------------------------------------------------------------
_SNIPPET = None


def bootstrap_snippet():
    """the lines of bootstrap_0.sh which turn ./killme.signal into $final_state
    (from the last `if test -e "./killme.signal"` up to and including the `fi`
    closing the `if test -z "$final_state"` block).  None if not found."""
    global _SNIPPET
    if _SNIPPET is None:
        path = os.path.join(os.path.dirname(rp_agent_0.__file__), 'bootstrap_0.sh')
        try:
            with open(path) as f:
                lines = f.read().split('\n')
        except OSError:
            _SNIPPET = ''
            return None
        starts = [i for i, l in enumerate(lines)
                  if re.match(r'\s*if test -e "\./killme\.signal"\s*$', l)]
        snippet = ''
        if starts:
            i0 = starts[-1]
            seen_z = False
            for j in range(i0, min(len(lines), i0 + 40)):
                if re.match(r'\s*if test -z "\$final_state"\s*$', lines[j]):
                    seen_z = True
                if seen_z and re.match(r'\s*fi\s*$', lines[j]):
                    snippet = '\n'.join(lines[i0:j + 1])
                    break
        _SNIPPET = snippet
    return _SNIPPET or None


def bootstrap_final_state(cwd, exitcode=0):
    """execute the snippet with bash in `cwd`; returns (final_state, exitcode)
    as the bootstrapper would hold them, or None if the snippet is missing"""
    snip = bootstrap_snippet()
    if not snip:
        return None
    script = ('AGENT_EXITCODE=%d\n%s\n'
              'printf "\\n@@%%s@@%%s@@\\n" "$final_state" "$AGENT_EXITCODE"\n'
              % (exitcode, snip))
    out = subprocess.run(['/bin/bash', '-c', script], cwd=cwd, text=True,
                         stdout=subprocess.PIPE, stderr=subprocess.STDOUT,
                         timeout=30).stdout
    m = re.search(r'@@(.*)@@(.*)@@', out)
    if not m:
        return ('?', '?')
    return (m.group(1), m.group(2))


def bootstrap_tail_exit(cwd, agent_exit, kill=False):
    """run the real end of bootstrap_0.sh (from `# collect process and exit code` to its final
    `exit`) in `cwd` with a stand-in agent process which exits with `agent_exit` (or is killed);
    returns the bootstrapper's exit status, or None if the tail is not found"""
    path = os.path.join(os.path.dirname(rp_agent_0.__file__), 'bootstrap_0.sh')
    try:
        with open(path) as f:
            lines = f.read().split('\n')
    except OSError:
        return None
    starts = [i for i, l in enumerate(lines) if re.match(r'\s*# collect process and exit code', l)]
    if not starts:
        return None
    tail = '\n'.join(lines[starts[-1]:])
    agent = '( sleep 30 ) &\nAGENT_PID=$!\nkill -9 $AGENT_PID\n' if kill else \
            '( exit %d ) &\nAGENT_PID=$!\nsleep 0.05\n' % int(agent_exit)
    script = ('profile_event(){ :; }\nlast_event(){ :; }\ncontains(){ return 1; }\n'
              'CLEANUP=""\nPILOT_SANDBOX="$PWD"\nVIRTENV="$PWD/ve"\n'
              'PROFILES_TARBALL=p.tgz\nLOGFILES_TARBALL=l.tgz\n' + agent + tail + '\n')
    pr = subprocess.run(['/bin/bash', '-c', script], cwd=cwd, text=True,
                        stdout=subprocess.PIPE, stderr=subprocess.STDOUT, timeout=60)
    return pr.returncode


# ------------------------------------------------------------------------------
# BaseComponent.stop() logs ru.get_caller_name(), which walks inspect.stack()
# (6 ms per call, resolves source files): only a log argument -> constant here
ru.get_caller_name = lambda *a, **k: 'harness'
