"""C15 - Waiting on tasks and pilots returns when it should.  (DESIGN.md 4/C15, A.3)

Drive : the real Task.wait, Pilot.wait, TaskManager.wait_tasks and
        PilotManager.wait_pilots on hollow managers with real Task / Pilot
        objects.  The module-level `time` of the four modules is a virtual
        clock (c15_vclock): `sleep` advances virtual time and fires the scripted
        (time -> state) events of the case through the real update paths
        (TaskManager._update_tasks, PilotManager._update_pilot).  No real
        sleeping, no threads.
Oracle: with p = poll interval (0.1 s), t0 = 0 the time of the call:
          reached(e) = first t >= t0 at which entity e is final or has reached
                       the earliest requested state (state value >= min value
                       of the requested states; default: final)
          L          = max over awaited e of reached(e)   ("every awaited entity
                       has reached one of the requested states ... or is final")
          U          = first t >= t0 from which on, for a whole poll interval,
                       every awaited entity is in a requested state or final
                       (wait_tasks: documented earliest-state rule, i.e.
                       value >= min value) -- a polling implementation cannot
                       miss that
        never early : t_return >= min(L, t0 + timeout)
        in time     : t_return <= min(U, t0 + timeout) + 2p ; a call that is still
                      blocked at the case deadline (>= that bound) did not return
        truthful    : returned state(s) equal the entities' states at return
                      (None from Task.wait / Pilot.wait claims nothing)
"""
from hypothesis import strategies as st

from . import boot                                    # noqa: F401
from .runner import CaseResult, Part, exc_sig
from .hollow import HollowSession, hollow_tmgr
from .c15_hollow import hollow_pmgr, add_pilot
from .c15_vclock import VClock, DeadlineExceeded, EventFailed, active
from . import c15_block

import radical.pilot        as rp
import radical.pilot.states as rps

PID  = 'C15'
RULE = ('case = (wait API, requested states: none / [] / one / list of 1-3, final and non-final, '
        '1-5 entities each with a scripted trajectory (state reached before the call, then '
        '(delay ms, state) events ending in DONE / FAILED / CANCELED or never ending), '
        'which entities are awaited (one, a uid list, a single uid string, all), timeout none or '
        'any ms value); non-trivial = the call had to block (not satisfied at call time) and '
        '(requested set non-default, or an awaited entity ended in a final state that was not '
        'requested, or the timeout came first); distinct = canonical (api, request, awaited set, '
        'timeout and delays in 50 ms buckets, state sequences)')
ASSUMPTIONS = [
    'TaskManager / PilotManager are built hollow (constructor fields copied, no components or '
    'bridges); Task and Pilot objects come from the real constructors (submit_tasks / Pilot())',
    'the module-level name `time` of task.py, pilot.py, task_manager.py, pilot_manager.py is a '
    'virtual clock; entity states change only inside time.sleep() (between two polls), through '
    'the real _update_tasks / _update_pilot paths; the managers\' terminate flag is never set',
    'transport = in-memory pubsub with msgpack round trip, delivered synchronously',
    'radical.utils.get_version shim (src/radical/pilot/VERSION absent in this tree)']
NOT_REACHED = [
    'a wait loop that spins without calling time.time()/time.sleep() cannot be interrupted '
    '(no threads, no alarms); spinning through time.time() alone is caught by a call bound',
    'real-thread interleavings of state updates with the poll (updates land between polls only)',
    'a requested non-final state that is passed through in less than one poll interval: '
    'Task.wait / Pilot.wait / wait_pilots may miss it; the oracle then demands the return only '
    'once the entity is final (measured by the label transient_request_missed)']
BUDGET = {'quick': 90, 'thorough': 1500}

P_MS = 100                     # poll interval of all four loops (virtual ms)

FINAL = ['DONE', 'FAILED', 'CANCELED']
# written out here (from the documented state models), not read from states.py
T_ORDER = ['NEW', 'TMGR_SCHEDULING_PENDING', 'TMGR_SCHEDULING',
           'TMGR_STAGING_INPUT_PENDING', 'TMGR_STAGING_INPUT',
           'AGENT_STAGING_INPUT_PENDING', 'AGENT_STAGING_INPUT',
           'AGENT_SCHEDULING_PENDING', 'AGENT_SCHEDULING',
           'AGENT_EXECUTING_PENDING', 'AGENT_EXECUTING',
           'AGENT_STAGING_OUTPUT_PENDING', 'AGENT_STAGING_OUTPUT',
           'TMGR_STAGING_OUTPUT_PENDING', 'TMGR_STAGING_OUTPUT']
P_ORDER = ['NEW', 'PMGR_LAUNCHING_PENDING', 'PMGR_LAUNCHING',
           'PMGR_ACTIVE_PENDING', 'PMGR_ACTIVE']

APIS = ['Task.wait', 'Pilot.wait', 'wait_tasks', 'wait_pilots']
KIND = {'Task.wait': 'task', 'wait_tasks': 'task',
        'Pilot.wait': 'pilot', 'wait_pilots': 'pilot'}
ORDER = {'task': T_ORDER, 'pilot': P_ORDER}
START = {'task': 1, 'pilot': 0}     # index of the state right after submission
INF = float('inf')


def _val(kind, s):
    if s in FINAL:
        return len(ORDER[kind])
    return ORDER[kind].index(s)


# ------------------------------------------------------------------------------
# generator
#
_DT = st.one_of(st.sampled_from([0, 30, 50, 100, 101, 150, 250, 500]),
                st.integers(0, 1200))


@st.composite
def cases(draw, api):
    kind  = KIND[api]
    order = ORDER[kind]
    lo    = START[kind]
    single_api = api in ('Task.wait', 'Pilot.wait')
    n = draw(st.integers(1, 2 if single_api else 5))

    ents, visited = [], []
    for _ in range(n):
        end   = draw(st.sampled_from(['DONE', 'FAILED', 'CANCELED', None, 'DONE', 'FAILED']))
        idxs  = sorted(draw(st.lists(st.integers(lo + 1, len(order) - 1),
                                     max_size=4, unique=True)))
        seq   = [order[j] for j in idxs] + ([end] if end else [])
        n_pre = draw(st.sampled_from([0, 0, 0, 0, 1, 2, len(seq)]))
        n_pre = min(n_pre, len(seq))
        pre   = seq[n_pre - 1] if n_pre else None
        ev    = [[draw(_DT), s] for s in seq[n_pre:]]
        ents.append({'pre': pre, 'ev': ev})
        visited.extend(seq)

    every = order + FINAL
    pick  = st.sampled_from(sorted(set(visited), key=every.index) or every)
    one   = st.one_of(pick, st.sampled_from(every), st.sampled_from(FINAL))
    mode  = draw(st.sampled_from(['single', 'list', 'default', 'empty', 'list',
                                  'single', 'list', 'default']))
    if   mode == 'default': req = None
    elif mode == 'empty'  : req = []
    elif mode == 'single' : req = draw(one)
    else                  : req = draw(st.lists(one, min_size=1, max_size=3, unique=True))

    total = max([sum(dt for dt, _ in e['ev']) for e in ents] + [0])
    timeout = draw(st.one_of(st.none(), st.none(),
                             st.integers(1, 400),
                             st.integers(1, total + 600)))

    if single_api:
        uids, sel = 'one', [draw(st.integers(0, n - 1))]
    else:
        uids = draw(st.sampled_from(['all', 'all', 'list', 'list', 'single']))
        if   uids == 'all'   : sel = []
        elif uids == 'single': sel = [draw(st.integers(0, n - 1))]
        else: sel = draw(st.lists(st.integers(0, n - 1), min_size=1, max_size=n,
                                  unique=True))
    case = {'api': api, 'req': req, 'timeout': timeout, 'uids': uids, 'sel': sel,
            'ents': ents}
    if kind == 'task' and n >= 2 and draw(st.integers(0, 3)) == 0:
        # some tasks are named by the application - with names of the form the task manager
        # generates itself, which it has not handed out yet - the others get generated names
        naming = [draw(st.booleans()) for _ in range(n)]
        naming[draw(st.integers(0, n - 1))] = True
        if all(naming):
            naming[draw(st.integers(0, n - 1))] = False
        case['naming'] = naming
    return case


def parts(tier):
    return [Part(api.replace('.', '_'), cases(api), quick=800, thorough=2500)
            for api in APIS] + \
           [Part('blocking_user_callback', c15_block.cases(), quick=150, thorough=600),
            Part('submit_then_wait', c15_block.submit_cases(), quick=120, thorough=500),
            Part('kill_in_flight', c15_block.kill_cases(), quick=150, thorough=600)]


def normalise(case):
    """repair a candidate of the minimiser (or reject it)"""
    if isinstance(case, dict) and case.get('kind') in ('blocking_callback', 'submit_then_wait', 'kill_in_flight'):
        return case
    try:
        if case['api'] not in APIS or not case['ents']:
            return None
        if isinstance(case['req'], list):
            if not all(isinstance(s, str) for s in case['req']):
                return None
        elif case['req'] is not None and not isinstance(case['req'], str):
            return None
        if case['timeout'] is not None and not isinstance(case['timeout'], int):
            return None
        if not all(isinstance(k, int) for k in case['sel']):
            return None
        for e in case['ents']:
            if e['pre'] is not None and not isinstance(e['pre'], str):
                return None
            for ev in e['ev']:
                if len(ev) != 2 or not isinstance(ev[0], int) \
                        or not isinstance(ev[1], str):
                    return None
    except Exception:
        return None
    return case


# ------------------------------------------------------------------------------
# oracle helpers
#
def _segments(init, records, n):
    """per entity: [(t_start, state), ...], first at t=0"""
    segs = [[(0, init[i])] for i in range(n)]
    for t, i, s in records:
        if segs[i][-1][1] != s:
            if segs[i][-1][0] == t:
                segs[i][-1] = (t, s)        # replaced within the same instant
            else:
                segs[i].append((t, s))
    return segs


def _first(seg, ok):
    for t, s in seg:
        if ok(s):
            return t
    return INF


def _stable_from(segs, awaited, ok, width):
    """first t such that every awaited entity is ok during the whole [t, t+width)"""
    cands = sorted(set(t for i in awaited for t, _ in segs[i]))
    for c in cands:
        good = True
        for i in awaited:
            seg = segs[i]
            for k, (t, s) in enumerate(seg):
                t_end = seg[k + 1][0] if k + 1 < len(seg) else INF
                if t_end <= c or t >= c + width:
                    continue
                if not ok(s):
                    good = False
                    break
            if not good:
                break
        if good:
            return c
    return INF


# ------------------------------------------------------------------------------
def run_case(case):
    if case.get('kind') == 'blocking_callback':
        return c15_block.run(case)
    if case.get('kind') == 'submit_then_wait':
        return c15_block.run_submit(case)
    if case.get('kind') == 'kill_in_flight':
        return c15_block.run_kill(case)
    res   = CaseResult()
    api   = case['api']
    kind  = KIND[api]
    order = ORDER[kind]
    known = set(order) | set(FINAL)

    def clean(s):
        return s if s in known else None

    # ---- plain data -> concrete inputs
    req = case['req']
    if isinstance(req, list):
        req = [s for s in req if clean(s)]
        req_cls = 'list' if req else 'empty'
    elif req is None or not clean(req):
        req, req_cls = None, 'default'
    else:
        req_cls = 'single'
    R = set(req if isinstance(req, list) else [req] if req else FINAL) or set(FINAL)
    r_min = min(_val(kind, s) for s in R)

    timeout_ms = case['timeout']
    if not timeout_ms or timeout_ms < 0:
        timeout_ms = None               # 0 / None: "never times out"
    t_to = timeout_ms if timeout_ms is not None else INF

    n = len(case['ents'])
    sess = HollowSession()
    if kind == 'task':
        mgr  = hollow_tmgr(sess)
        naming = case.get('naming')
        if isinstance(naming, list) and len(naming) == n and any(naming) and not all(naming):
            # named tasks first (names the generator will reach next), then the unnamed ones
            import radical.utils as ru
            nxt = int(ru.generate_id('task.%(item_counter)06d', ru.ID_CUSTOM,
                                     ns=sess.uid).split('.')[1]) + 1
            ents = [None] * n
            k = 0
            for i in range(n):
                if naming[i]:
                    ents[i] = mgr.submit_tasks(rp.TaskDescription(
                        {'uid': 'task.%06d' % (nxt + k), 'executable': '/bin/true'}))
                    k += 2          # every other number the generator would produce
            for i in range(n):
                if not naming[i]:
                    ents[i] = mgr.submit_tasks(rp.TaskDescription({'executable': '/bin/true'}))
            res.label('task_names:application_and_generated')
        else:
            ents = mgr.submit_tasks([rp.TaskDescription({'uid': 'task.%06d' % i,
                                                         'executable': '/bin/true'})
                                     for i in range(n)])

        def update(i, s):
            mgr._update_tasks([{'uid': ents[i].uid, 'type': 'task', 'state': s}])
    else:
        mgr  = hollow_pmgr(sess)
        ents = [add_pilot(mgr, 'pilot.%04d' % i) for i in range(n)]

        def update(i, s):
            mgr._update_pilot({'uid': ents[i].uid, 'type': 'pilot', 'state': s})

    def apply(i, s):
        # the managers never update an entity that is final already
        if ents[i].state in FINAL or not clean(s):
            return
        update(i, s)

    try:
        for i, e in enumerate(case['ents']):
            if e.get('pre'):
                apply(i, e['pre'])
    except Exception as e:              # noqa
        res.fail(exc_sig('setup:update_raised', e), repr(e))
        return res

    uids_mode = case['uids']
    sel = []
    for k in case['sel']:
        if k % n not in sel:
            sel.append(k % n)
    if api in ('Task.wait', 'Pilot.wait'):
        sel = sel[:1] or [0]
        awaited = list(sel)
    elif uids_mode == 'single' and sel:
        sel = sel[:1]
        awaited = list(sel)
    elif uids_mode == 'list' and sel:
        awaited = list(sel)
    else:
        uids_mode = 'all'
        awaited = list(range(n))

    events, last = [], 0
    for i, e in enumerate(case['ents']):
        t = 0
        for dt, s in e['ev']:
            t += max(0, int(dt))
            events.append((t, (i, s)))
            last = max(last, t)
    deadline = max(last, timeout_ms or 0) + 10 * P_MS

    records = []

    def fire(t, payload):
        i, s = payload
        apply(i, s)
        records.append((t, i, ents[i].state))

    clock = VClock(events, fire, deadline)
    try:
        clock.advance_to(0)             # events at t=0 precede the call's first look
    except EventFailed as e:
        res.fail(exc_sig('setup:update_raised', e.exc), repr(e.exc))
        return res
    init    = [x.state for x in ents]
    records = []
    tout  = None if timeout_ms is None else timeout_ms / 1000.0

    def call():
        if api == 'Task.wait' or api == 'Pilot.wait':
            return ents[sel[0]].wait(state=req, timeout=tout)
        fn = mgr.wait_tasks if api == 'wait_tasks' else mgr.wait_pilots
        if   uids_mode == 'all'   : u = None
        elif uids_mode == 'single': u = ents[sel[0]].uid
        else                      : u = [ents[i].uid for i in sel]
        return fn(uids=u, state=req, timeout=tout)

    returned, ret, why = True, None, None
    with active(clock):
        try:
            ret = call()
        except DeadlineExceeded as e:
            returned, why = False, e.why
        except EventFailed as e:
            res.fail(exc_sig('setup:update_raised', e.exc), repr(e.exc))
            return res
        except Exception as e:          # noqa
            res.fail(exc_sig('raised:%s:%s' % (api, req_cls), e), repr(e))
            return res
    t_ret = clock.now
    final_states = [x.state for x in ents]

    # ---- the reference times
    segs = _segments(init, records, n)

    def reached(s):                      # weakest reading of "has reached"
        return s in FINAL or _val(kind, s) >= r_min

    def in_req(s):                       # what a polling loop must not miss
        if api == 'wait_tasks':
            return reached(s)
        return s in R or s in FINAL

    L = max(_first(segs[i], reached) for i in awaited)
    U = _stable_from(segs, awaited, in_req, P_MS)
    low = min(L, t_to)
    up  = min(U, t_to)

    # what makes the call due
    if up == INF:
        cause = 'never_due'
    elif t_to < U:
        cause = 'timeout'
    else:
        # states the awaited entities show while the return is due: [U, U+2p]
        at_u = []
        for i in awaited:
            seg = segs[i]
            for k, (t, s) in enumerate(seg):
                t_end = seg[k + 1][0] if k + 1 < len(seg) else INF
                if t_end > U and t <= U + 2 * P_MS:
                    at_u.append(s)
        if any(s in FINAL and s not in R for s in at_u):
            cause = 'other_final'
        else:
            cause = 'requested'

    sig_tail = '%s:%s:%s' % (api, req_cls, cause)

    if not returned:
        if up + 2 * P_MS <= deadline:
            res.fail('late_or_never:' + sig_tail,
                     'no return by virtual t=%d ms (%s); due by %s ms (+%d): req=%r timeout=%s '
                     'trajectories=%r' % (clock.now, why, up, 2 * P_MS, req, timeout_ms,
                                          [segs[i] for i in awaited]))
        res.label('blocked_at_deadline')
    else:
        if t_ret < low:
            res.fail('early_return:%s:%s' % (api, req_cls),
                     'returned %r at t=%d ms, but not before %s ms: req=%r timeout=%s '
                     'trajectories=%r' % (ret, t_ret, low, req, timeout_ms,
                                          [segs[i] for i in awaited]))
        if t_ret > up + 2 * P_MS:
            res.fail('late_or_never:' + sig_tail,
                     'returned at t=%d ms, due by %s ms (+%d): req=%r timeout=%s trajectories=%r'
                     % (t_ret, up, 2 * P_MS, req, timeout_ms, [segs[i] for i in awaited]))

        # truthful return value
        actual = [final_states[i] for i in awaited]
        bad = None
        if api in ('Task.wait', 'Pilot.wait') or uids_mode == 'single':
            if api in ('Task.wait', 'Pilot.wait') and ret is None:
                res.label('returned_None')
            elif ret != actual[0]:
                bad = 'returned %r, actual state %r' % (ret, actual[0])
        elif uids_mode == 'list':
            if not isinstance(ret, list) or ret != actual:
                bad = 'returned %r, actual states %r' % (ret, actual)
        else:
            ok_sets = [sorted(actual)]
            if api == 'wait_pilots':
                # wait_pilots(None) considers the pilots that were not final at the call
                ok_sets.append(sorted(final_states[i] for i in awaited
                                      if init[i] not in FINAL))
            if not isinstance(ret, list) or sorted(ret) not in ok_sets:
                bad = 'returned %r, actual states %r' % (ret, actual)
        if bad:
            res.fail('wrong_value:%s:%s' % (api, uids_mode), bad)

    # ---- measurement
    blocked_needed = (up > 0)
    other_final = any(final_states[i] in FINAL and final_states[i] not in R
                      for i in awaited)
    res.nontrivial = bool(blocked_needed and (req_cls in ('single', 'list') or other_final
                                              or cause == 'timeout'))
    res.label('api=' + api, 'req=' + req_cls, 'cause=' + cause, 'uids=' + uids_mode,
              'awaited=%d' % min(len(awaited), 3))
    if not blocked_needed:
        res.label('satisfied_at_call')
    if other_final:
        res.label('ends_in_unrequested_final')
    if timeout_ms is not None:
        res.label('timeout_given')
    if not R <= set(FINAL):
        res.label('nonfinal_requested')
        # a requested state was passed but never seen for a whole poll interval
        if L < U and L < INF:
            res.label('transient_request_missed' if api != 'wait_tasks' else 'reached_before_stable')
    if returned:
        res.label('polls=%s' % ('0' if clock.sleeps == 0 else '1' if clock.sleeps == 1
                                else '2-5' if clock.sleeps <= 5 else '6+'))

    res.key = {'a': api, 'r': req, 'u': uids_mode, 's': sel,
               't': None if timeout_ms is None else timeout_ms // 50,
               'e': [[e.get('pre'), [[int(dt) // 50, s] for dt, s in e['ev']]]
                     for e in case['ents']]}
    return res
