"""C20 part (a): request / resource accounting of the real raptor DefaultWorker
over fake multiprocessing (no processes, no threads, no sleeping).

What is real   : DefaultWorker._alloc, _dealloc, _request_cb, _dispatch (incl. the
                 nested _worker_proc), _result_watcher, _result_cb, get_dispatcher and
                 the real Worker._dispatch_eval as the request payload.
What is faked  : worker_default.mp (Process / Queue / Lock / Event), worker_default.time
                 (sleep = "let something else happen": the harness runs one pending
                 process or one watcher step, chosen by the case's schedule),
                 worker_default.os (getpid = pid of the fake process that is running,
                 environ / chdir of the forked child are private), setproctitle.

A fake process is the pair of facts the real code can observe about a child:
when its target runs (harness-chosen) and what join / is_alive / terminate say.
   ok / raise / badmode : the inner process finishes within join(timeout)
   hang                 : it is still alive after join(timeout) -> terminate()
   late                 : it has put its result but has not exited yet when
                          join(timeout) returns (is_alive() is still True)
   preempt              : like late, but the process got no further than releasing the
                          result lock after its put when join(timeout) returned (stopped
                          right there; it never runs again: the dispatcher terminates it)
   spawn_fail           : the outer Process.start() raises OSError
   die                  : the payload ends its process without an exception the
                          dispatcher could catch (here: sys.exit(); stands for a
                          segfault / OOM kill as well) - nothing is faked for this one
"""
import os
import sys
import copy
import types
import queue
import pickle
import threading as mt

from . import boot                                    # noqa: F401
from .runner import CaseResult, exc_sig
from . import c20_disp

import radical.pilot.raptor.worker_default as wd
from radical.pilot.raptor.worker_default import DefaultWorker
from radical.pilot.task_description import (TASK_FUNC, TASK_METH, TASK_EVAL,
                                            TASK_EXEC, TASK_PROC, TASK_SHELL)
import radical.pilot as rp

OUTCOMES = ['ok', 'raise', 'hang', 'late', 'preempt', 'badmode', 'spawn_fail', 'die', 'quick']
MAX_STEPS = 400


class _Yield(BaseException):
    """ends one stepped run of the real _result_watcher loop"""


class _Preempted(BaseException):
    """the inner process is stopped for good right after it released the result lock"""


class _Stuck(BaseException):
    """_request_cb waits for resources while nothing can ever free any"""


# ------------------------------------------------------------------------------
class Harness(object):

    def __init__(self, case):
        self.case     = case
        self.sched    = [int(x) for x in case.get('sched') or []] or [0]
        self.sched_i  = 0
        self.next_pid = 1000
        self.pid_stack = []
        self.pending  = []       # started outer processes whose target did not run yet
        self.cur_outer = None
        self.results  = []       # what reached the master (res_put)
        self.spawned  = {}       # uid -> slots at outer start
        self.started_order = []
        self.watch_dead = None   # exception that killed the result watcher
        self.steps    = 0
        self.outcome  = {}       # uid -> scripted outcome
        self.tout     = {}
        self.blocked  = 0        # times _request_cb had to wait for resources
        self.w        = None
        self.inner_running = None    # the inner fake process whose target runs right now

    # -- schedule ----------------------------------------------------------
    def pick(self, n):
        v = self.sched[self.sched_i % len(self.sched)]
        self.sched_i += 1
        return v % n

    # -- actions -----------------------------------------------------------
    def run_outer(self, k):
        if not self.pending:
            return False
        proc = self.pending.pop(k % len(self.pending))
        proc._run()
        return True

    def watch(self, n):
        """run the real watcher loop for at most n results"""
        w = self.w
        if self.watch_dead is not None or not w._result_queue.items:
            return False
        w._result_queue.budget = n
        try:
            w._result_watcher()
        except _Yield:
            pass
        except Exception as e:     # noqa  (the thread would be gone now)
            self.watch_dead = e
        return True

    def on_block(self):
        """called from the faked time.sleep inside `while not self._alloc(task)`"""
        self.blocked += 1
        self.steps += 1
        if self.steps > MAX_STEPS:
            raise _Stuck('step bound')
        acts = [('run', i) for i in range(len(self.pending))]
        if self.watch_dead is None and self.w._result_queue.items:
            acts.append(('watch', 1))
        if not acts:
            raise _Stuck('no process pending, no result queued')
        a = acts[self.pick(len(acts))]
        if a[0] == 'run':
            self.run_outer(a[1])
        else:
            self.watch(1)


# ------------------------------------------------------------------------------
def make_fakes(H):

    class FakeQueue(object):
        def __init__(self, *a, **k):
            self.items  = []
            self.budget = None

        def put(self, obj, *a, **k):
            self.items.append(pickle.loads(pickle.dumps(obj)))   # crosses a process boundary

        def get(self, block=True, timeout=None):
            if not self.items or self.budget == 0:
                raise _Yield()          # the stepped watcher run ends here
            if self.budget is not None:
                self.budget -= 1
            return self.items.pop(0)

        def close(self):        pass
        def join_thread(self):  pass
        def empty(self):        return not self.items

    class FakeLock(object):
        def __init__(self, *a, **k): self.held = False
        def acquire(self, *a, **k):
            assert not self.held, 'harness: fake mp.Lock acquired twice'
            self.held = True
            return True
        def release(self):
            self.held = False
            p = H.inner_running
            if p is not None and p._preempt_armed:
                p._preempt_armed = False
                raise _Preempted()
        def __enter__(self):    self.acquire(); return self
        def __exit__(self, *a): self.release()

    class FakeEvent(object):
        def __init__(self):     self.flag = False
        def set(self):          self.flag = True
        def clear(self):        self.flag = False
        def is_set(self):       return self.flag
        def wait(self, timeout=None): return self.flag

    class FakeProcess(object):

        def __init__(self, group=None, target=None, name=None, args=(), kwargs=None,
                     daemon=None):
            self._target = target
            self._args   = args
            self._kwargs = kwargs or {}
            self.daemon  = daemon
            self.pid     = None
            self.exitcode = None
            self._inner  = H.cur_outer is not None
            self._owner  = H.cur_outer
            self._alive  = False
            self._ran    = False
            self._uid    = None
            self._preempt_armed = False

        # ---- outer process: one per request, target = DefaultWorker._dispatch
        def start(self):
            H.next_pid += 1
            if self._inner:
                self.pid    = H.next_pid
                self._alive = True
                self._uid   = self._owner._uid
                return
            task = self._args[0]
            self._uid = task['uid']
            if H.outcome.get(self._uid) == 'spawn_fail':
                raise OSError(11, 'Resource temporarily unavailable')
            self.pid    = H.next_pid
            self._alive = True
            # fork semantics: the child works on its own copy of the arguments
            self._args  = copy.deepcopy(self._args)
            H.spawned[self._uid] = copy.deepcopy(task.get('slots'))
            H.started_order.append(self._uid)
            H.pending.append(self)
            H.on_spawn(self._uid, task)
            if H.outcome.get(self._uid) == 'quick':
                # a quick child: it has run and queued its result before the parent is back from
                # start().  The result watcher (another thread) takes the result at once - unless
                # it has to wait for the pool lock, then it takes it once the lock is free
                H.pending.remove(self)
                self._run()
                lock = getattr(H.w, '_plock', None)
                if lock is not None and not lock.locked():
                    H.watch(1)

        def _run(self):
            assert not self._ran
            self._ran = True
            prev, H.cur_outer = H.cur_outer, self
            H.pid_stack.append(self.pid)
            try:
                self._target(*self._args, **self._kwargs)
            except SystemExit as e:
                self.exitcode = e.code
            finally:
                H.pid_stack.pop()
                H.cur_outer = prev
                self._alive = False

        def _run_inner(self):
            if self._ran:
                return
            self._ran = True
            H.pid_stack.append(self.pid)
            prev, H.inner_running = H.inner_running, self
            try:
                self._target(*self._args, **self._kwargs)
            except SystemExit as e:
                self.exitcode = e.code
            except _Preempted:
                pass
            finally:
                H.inner_running = prev
                H.pid_stack.pop()

        # ---- what the parent can observe
        def join(self, timeout=None):
            if not self._inner:
                return
            oc   = H.outcome.get(self._uid, 'ok')
            tout = timeout
            if not self._alive:
                return
            if oc == 'hang' and tout:
                return                      # still running when the timeout expires
            if oc == 'late' and tout:
                self._run_inner()           # result is out, process not yet gone
                return
            if oc == 'preempt' and tout:
                self._preempt_armed = True  # result is out, lock released, nothing more
                self._run_inner()
                return
            self._run_inner()
            self._alive = False

        def is_alive(self):
            return self._alive

        def terminate(self):
            self._alive = False
            self.exitcode = -15

        def kill(self):
            self.terminate()

    class FakeTime(object):
        def __getattr__(self, name):
            import time as _t
            return getattr(_t, name)

        def sleep(self, dt):
            H.on_block()

    class FakeOS(object):
        """the `os` of the forked children: own pid, own environ, own cwd"""
        def __init__(self):
            self.environ = dict(os.environ)

        def getpid(self):
            return H.pid_stack[-1] if H.pid_stack else os.getpid()

        def chdir(self, path):
            pass

        def getenv(self, k, d=None):
            return self.environ.get(k, d)

        def __getattr__(self, name):
            return getattr(os, name)

    mp = types.SimpleNamespace(Process=FakeProcess, Queue=FakeQueue, Lock=FakeLock,
                               Event=FakeEvent)
    return mp, FakeTime(), FakeOS(), FakeQueue, FakeEvent


class RecPutter(object):
    def __init__(self, H):
        self.H = H

    def put(self, msgs, qname=None):
        for m in (msgs if isinstance(msgs, list) else [msgs]):
            m = pickle.loads(pickle.dumps(m))
            self.H.results.append(m)
            self.H.on_result(m)


def hollow_default_worker(H, n_cores, n_gpus, FakeQueue, FakeEvent):
    """DefaultWorker.__init__ / Worker.__init__ minus registry, pubsub, threads"""
    w = c20_disp.hollow_worker(DefaultWorker)
    w._res_evt  = FakeEvent()
    w._my_term  = mt.Event()
    w._res_put  = RecPutter(H)
    w._descr    = {}
    w._n_cores  = n_cores
    w._n_gpus   = n_gpus
    w._rlock    = mt.Lock()
    w._resources = {'cores': [0] * n_cores, 'gpus': [0] * n_gpus}
    w._res_evt.set()
    w._pool     = dict()
    w._plock    = mt.Lock()
    w._result_queue = FakeQueue()
    return w


# ------------------------------------------------------------------------------
def make_request(idx, r, n_cores, n_gpus):
    oc = r.get('out')
    if oc not in OUTCOMES:
        oc = 'ok'
    cores = 1 + (max(1, int(r.get('c', 1))) - 1) % n_cores
    gpus  = int(r.get('g', 0)) % (n_gpus + 1)
    tout  = float(max(0, int(r.get('tout', 0))))
    if oc in ('hang',) and not tout:
        tout = 1.0              # a request that never ends has no place in a finite history
    if oc == 'raise':
        code = '1/0'
    elif oc == 'die':
        code = "__import__('sys').exit(3)"
    else:
        code = '%d + 1' % idx
    d = {'uid': 'task.%06d' % idx, 'mode': TASK_EVAL, 'code': code, 'timeout': tout}
    td = rp.TaskDescription(d)
    td.verify()
    dd = td.as_dict()
    if oc == 'badmode':
        dd['mode'] = 'task.c20_unknown'
    task = {'uid': d['uid'], 'type': 'task', 'state': 'AGENT_SCHEDULING',
            'origin': 'raptor', 'description': dd,
            'task_sandbox_path': boot.SCRATCH, 'cores': cores, 'gpus': gpus}
    return task, oc, tout


def run_worker_case(case):
    res = CaseResult()
    n_cores = max(1, min(8, int(case.get('cores', 1))))
    n_gpus  = max(0, min(4, int(case.get('gpus', 0))))

    H = Harness(case)
    mp_, time_, os_, FakeQueue, FakeEvent = make_fakes(H)

    reqs, want = [], {}
    for i, r in enumerate(case.get('reqs') or []):
        if not isinstance(r, dict):
            continue
        task, oc, tout = make_request(i, r, n_cores, n_gpus)
        reqs.append(task)
        H.outcome[task['uid']] = oc
        H.tout[task['uid']]    = tout
        want[task['uid']] = (task['cores'], task['gpus'])

    # ---- oracle state
    outstanding = {}         # uid -> slots : allocated (spawned), no result yet
    n_results   = {}         # uid -> count
    accepted    = []
    stats = {'max_par': 0, 'overlap_fail': False}

    def check_slots(uid, slots):
        if (not isinstance(slots, list) or len(slots) != 1
                or set(slots[0].keys()) != {'cores', 'gpus'}):
            res.fail('slots_malformed', '%s: %r' % (uid, slots))
            return None
        cs, gs = list(slots[0]['cores']), list(slots[0]['gpus'])
        wc, wg = want[uid]
        if len(cs) != wc or len(set(cs)) != len(cs):
            res.fail('slots_wrong_core_count', '%s wants %d cores, got %r' % (uid, wc, cs))
        if len(gs) != wg or len(set(gs)) != len(gs):
            res.fail('slots_wrong_gpu_count', '%s wants %d gpus, got %r' % (uid, wg, gs))
        if any(not (0 <= c < n_cores) for c in cs):
            res.fail('slots_outside_allotment:cores', '%s: %r of %d' % (uid, cs, n_cores))
        if any(not (0 <= g < n_gpus) for g in gs):
            res.fail('slots_outside_allotment:gpus', '%s: %r of %d' % (uid, gs, n_gpus))
        return set(cs), set(gs)

    def on_spawn(uid, task):
        got = check_slots(uid, task.get('slots'))
        if got is None:
            return
        cs, gs = got
        for other, (ocs, ogs) in outstanding.items():
            if cs & ocs:
                res.fail('cores_shared_by_running_requests',
                         '%s and %s both on cores %s' % (uid, other, sorted(cs & ocs)))
            if gs & ogs:
                res.fail('gpus_shared_by_running_requests',
                         '%s and %s both on gpus %s' % (uid, other, sorted(gs & ogs)))
        outstanding[uid] = (cs, gs)
        stats['max_par'] = max(stats['max_par'], len(outstanding))

    def on_result(task):
        uid = task['uid']
        n_results[uid] = n_results.get(uid, 0) + 1
        outstanding.pop(uid, None)

    H.on_spawn, H.on_result = on_spawn, on_result

    def check_occupancy(where):
        busy_c, busy_g = set(), set()
        for cs, gs in outstanding.values():
            busy_c |= cs
            busy_g |= gs
        exp_c = [1 if i in busy_c else 0 for i in range(n_cores)]
        exp_g = [1 if i in busy_g else 0 for i in range(n_gpus)]
        got_c = [1 if x else 0 for x in w._resources['cores']]
        got_g = [1 if x else 0 for x in w._resources['gpus']]
        if got_c != exp_c:
            kind = 'not_freed' if sum(got_c) > sum(exp_c) else 'freed_while_held'
            res.fail('cores_%s:%s' % (kind, where),
                     'occupancy %r, requests without result hold %r' % (got_c, exp_c))
        if got_g != exp_g:
            kind = 'not_freed' if sum(got_g) > sum(exp_g) else 'freed_while_held'
            res.fail('gpus_%s:%s' % (kind, where),
                     'occupancy %r, requests without result hold %r' % (got_g, exp_g))

    # ---- install
    saved = {k: getattr(wd, k) for k in ('mp', 'time', 'os')}
    saved_spt = sys.modules.get('setproctitle')
    sys.modules['setproctitle'] = types.SimpleNamespace(setproctitle=lambda *a: None)
    wd.mp, wd.time, wd.os = mp_, time_, os_

    try:
        with c20_disp.EnvGuard():
            w = hollow_default_worker(H, n_cores, n_gpus, FakeQueue, FakeEvent)
            H.w = w
            nxt = 0

            def do(op):
                nonlocal nxt
                kind = op[0] if op else None
                arg  = int(op[1]) if len(op) > 1 else 1
                if kind == 'req':
                    bulk = reqs[nxt:nxt + max(1, arg)]
                    nxt += len(bulk)
                    if not bulk:
                        return
                    accepted.extend(t['uid'] for t in bulk)
                    try:
                        w._request_cb(copy.deepcopy(bulk))   # arrives over the wire
                    except _Stuck as e:
                        after('during')          # name the root cause if there is one
                        if not res.problems:
                            res.fail('request_waits_forever',
                                     'resources never become free: %s; occupancy %r'
                                     % (e, w._resources))
                    except Exception as e:   # noqa
                        res.fail(exc_sig('request_cb_raised', e), repr(e))
                elif kind == 'run':
                    H.run_outer(arg)
                elif kind == 'watch':
                    H.watch(max(1, arg))

            def after(where):
                """the clauses, in root-cause order; the first one that fails ends the case"""
                if res.problems:
                    return
                if H.watch_dead is not None:
                    e = H.watch_dead
                    res.fail(exc_sig('result_watcher_died', e),
                             '%r (results so far per request: %r)' % (e, n_results))
                    return
                dup = sorted(u for u, n in n_results.items() if n > 1)
                if dup:
                    res.fail('request_answered_twice', '%s' % dup)
                    return
                # a request whose process is gone, with no result queued or delivered,
                # will never be answered and never give its resources back
                gone = [u for u in outstanding
                        if not any(p._uid == u for p in H.pending)
                        and not any(r[0]['uid'] == u for r in w._result_queue.items)]
                for u in gone:
                    res.fail('request_without_result:%s' % H.outcome[u],
                             '%s: process ended, nothing on the result queue; it still holds %r'
                             % (u, outstanding[u]))
                if not res.problems:
                    check_occupancy(where)

            for op in case.get('ops') or []:
                if not isinstance(op, list):
                    continue
                do(op)
                after('during')
                if res.problems:
                    break

            # ---- quiescence: everything submitted, everything run, everything watched
            if not res.problems:
                while nxt < len(reqs) and not res.problems:
                    do(['req', 1])
                    after('during')
                guard = 0
                while not res.problems and (H.pending or (w._result_queue.items
                                                         and H.watch_dead is None)):
                    guard += 1
                    if guard > MAX_STEPS:
                        res.fail('no_quiescence', 'pending %d' % len(H.pending))
                        break
                    if H.pending:
                        H.run_outer(0)
                    else:
                        H.watch(1000)
                    after('during')
            if not res.problems:
                after('quiescence')
                for uid in accepted:
                    n = n_results.get(uid, 0)
                    if n != 1:
                        res.fail('request_without_result' if n == 0 else 'request_answered_twice',
                                 '%s: %d results (outcome %s)' % (uid, n, H.outcome[uid]))
                if any(w._resources['cores']) or any(w._resources['gpus']):
                    res.fail('not_all_free_at_quiescence', repr(w._resources))
                if w._pool and not res.problems:
                    res.fail('pool_entry_left', repr(list(w._pool)))
                # the one result tells the truth about the scripted outcome
                for t in H.results:
                    oc, rc = H.outcome[t['uid']], t.get('exit_code')
                    if oc in ('ok', 'quick') and rc != 0:
                        res.fail('result_failed_but_request_succeeded:%s' % oc,
                                 '%s: exit_code %r exc %r' % (t['uid'], rc, t.get('exception')))
                    if oc in ('raise', 'hang', 'badmode', 'spawn_fail', 'die'):
                        if rc == 0 or (rc is None and not t.get('exception')):
                            res.fail('result_ok_but_request_failed:%s' % oc,
                                     '%s: exit_code %r exc %r' % (t['uid'], rc, t.get('exception')))
                    if oc in ('ok', 'quick') and rc == 0 and t.get('return_value') != \
                            int(t['uid'].split('.')[1]) + 1:
                        res.fail('result_wrong_value', '%s: %r' % (t['uid'], t.get('return_value')))
    finally:
        for k, v in saved.items():
            setattr(wd, k, v)
        if saved_spt is None:
            sys.modules.pop('setproctitle', None)
        else:
            sys.modules['setproctitle'] = saved_spt

    ocs = set(H.outcome[u] for u in accepted)
    res.nontrivial = (stats['max_par'] >= 2
                      and bool(ocs & {'raise', 'hang', 'late', 'preempt', 'badmode', 'spawn_fail', 'die', 'quick'}))
    res.label('worker:cores=%d' % n_cores, 'worker:gpus=%d' % n_gpus,
              'worker:max_parallel=%d' % min(stats['max_par'], 4),
              'worker:requests=%s' % ('1-3' if len(reqs) <= 3 else '4-8' if len(reqs) <= 8 else '9+'))
    for oc in sorted(ocs):
        res.label('worker:outcome=%s' % oc)
    if H.blocked:
        res.label('worker:request_had_to_wait')
    res.key = {'k': 'worker', 'c': n_cores, 'g': n_gpus,
               'r': [(want[t['uid']], H.outcome[t['uid']], H.tout[t['uid']]) for t in reqs],
               'o': case.get('ops'), 's': case.get('sched')}
    return res
