"""C20 part (b): routing and result accounting of the real raptor Master on a
hollow master (no zmq queues / server / threads).

Real    : Master.submit_tasks, _submit_tasks, _submit_raptor_tasks,
          _submit_executable_tasks, _request_cb, request_cb, _result_cb, _state_cb,
          _run_task; AgentComponent.advance / publish; Task / TaskDescription.
Faked   : ru.zmq Putter / Publisher / Subscriber / registry (vlib.memnet); master.mt.Event
          for _run_task (wait() = "the worker answers now").
Observed: what is put on the worker request queue, on the agent staging input queue and
          on the agent staging output queue (memnet event log), what the application
          hook result_cb() is given, what _run_task returns.
"""
import copy
import threading as mt
import types

from . import boot                                    # noqa: F401
from .runner import CaseResult, exc_sig
from .memnet import Net
from .hollow import HollowSession

import radical.utils as ru
import radical.pilot as rp
import radical.pilot.states    as rps
import radical.pilot.constants as rpc
import radical.pilot.utils     as rpu
import radical.pilot.raptor.master as rm
from radical.pilot.raptor.master import Master
from radical.pilot.task_description import (TASK_EXECUTABLE, TASK_FUNC, TASK_EVAL,
                                            TASK_EXEC, TASK_PROC, TASK_SHELL)

MODES = {'executable': TASK_EXECUTABLE, 'func': TASK_FUNC, 'eval': TASK_EVAL,
         'exec': TASK_EXEC, 'proc': TASK_PROC, 'shell': TASK_SHELL}
VIAS  = ['submit_td', 'submit_dict', 'sched', 'run_task']
EXITS = [0, 1, 2, 127, -1, None]

REQ_QUEUE = 'raptor_tasks'


class RecMaster(Master):
    """an application master: overloads the documented hooks"""

    def result_cb(self, tasks):
        for t in tasks:
            self.c20_results.append(copy.deepcopy(t))
        # an application hook may trip over a result it did not expect (e.g. it reads a field of
        # the return value of a call which failed): the results are handed on regardless
        if getattr(self, 'c20_hook_trips', False) and \
                any(t.get('exit_code') not in (0, None) or t.get('return_value') is None for t in tasks):
            raise TypeError("'NoneType' object is not subscriptable")

    def request_cb(self, tasks):
        self.c20_requests.extend(t['uid'] for t in tasks)
        return tasks


def hollow_master(net, uid='master.0000', sess=None):
    """Master.__init__ minus Session bootstrap, zmq queues, task service and
    sleeping (fields copied from the constructor); the component base class
    constructor and _initialize() are the real ones"""
    sess = sess or HollowSession(net=net, module='agent', ns='agent')
    sbox = sess._cfg.base
    m = RecMaster.__new__(RecMaster)
    m._uid        = uid
    m._pid        = 'pilot.0000'
    m._sid        = sess.uid
    m._name       = 'c20 master'
    m._sbox       = '%s/%s' % (sbox, uid)
    m._psbox      = sbox
    m._ssbox      = sbox
    m._rsbox      = sbox
    m._reg_addr   = sess._cfg.reg_addr
    m._workers    = dict()
    m._tasks      = dict()
    m._exec_tasks = list()
    m._term       = mt.Event()
    m._thread     = None
    m._session    = sess
    ccfg = ru.Config(from_dict={'uid': uid, 'sid': sess.uid, 'owner': m._pid,
                                'reg_addr': m._reg_addr})
    rpu.AgentComponent.__init__(m, ccfg, sess)
    m._workers = dict()       # (the component base class uses the same name)
    m._initialize()
    m.register_output(rps.AGENT_STAGING_INPUT_PENDING, rpc.AGENT_STAGING_INPUT_QUEUE)
    m.register_output(rps.AGENT_STAGING_OUTPUT_PENDING, rpc.AGENT_STAGING_OUTPUT_QUEUE)
    q = net.add_queue('%s.%s' % (uid, REQ_QUEUE), 'agent')
    m._req_put = ru.zmq.Putter(REQ_QUEUE, q['addr_put'])
    m._uid = uid              # (BaseComponent.__init__ took it from the config)
    m._task_service_data = dict()
    m.register_subscriber(rpc.STATE_PUBSUB, m._state_cb)
    m.c20_results  = []
    m.c20_requests = []
    m.c20_req_url  = q['addr_put']
    return m


def make_td(idx, r, master_uid):
    mode = MODES.get(r.get('mode'), TASK_EXECUTABLE)
    d = {'uid': 'task.%06d' % idx, 'mode': mode,
         'ranks': 1 + int(r.get('ranks', 0)) % 3,
         'cores_per_rank': 1 + int(r.get('cpr', 0)) % 2}
    if   mode == TASK_EXECUTABLE: d.update(executable='/bin/true', arguments=['x'])
    elif mode == TASK_FUNC      : d.update(function='hello', args=['w'])
    elif mode == TASK_EVAL      : d.update(code='1+1')
    elif mode == TASK_EXEC      : d.update(code='return 1')
    elif mode == TASK_PROC      : d.update(executable='/bin/true')
    elif mode == TASK_SHELL     : d.update(command='true')
    if r.get('via') == 'sched':
        d['raptor_id'] = master_uid
    return rp.TaskDescription(d)


def count_puts(net, url_part, uid):
    hits = []
    for ev in net.log:
        if ev[0] == 'put' and url_part in ev[1]:
            for t in ev[3]:
                if isinstance(t, dict) and t.get('uid') == uid:
                    hits.append(t)
    return hits


def expected_target(exit_code):
    return rps.DONE if exit_code == 0 else rps.FAILED


# ------------------------------------------------------------------------------
def run_master_case(case):
    res = CaseResult()
    net = Net()
    m   = hollow_master(net)
    m.c20_hook_trips = bool(case.get('hook_trips'))
    if m.c20_hook_trips:
        res.label('master:application_result_hook_raises')

    reqs = [r for r in case.get('reqs') or [] if isinstance(r, dict)]
    nxt  = 0
    info = {}                 # uid -> {'mode','via','exit', 'exec': bool}
    out_worker, out_exec = [], []      # dispatched, no result yet (uids, in order)
    dicts = {}                # uid -> task dict as dispatched (what comes back)
    done  = []                # uids whose result was delivered to the master
    run_task_ret = {}

    cur_rt = {}

    class NeverAnswered(Exception):
        pass

    class FakeEvent(object):
        """master.mt.Event inside _run_task: wait() is where the worker answers"""
        def __init__(self):
            self.flag = False

        def set(self):
            self.flag = True

        def is_set(self):
            return self.flag

        def wait(self, timeout=None):
            if not self.flag:
                uid = [u for u, v in m._task_service_data.items() if v[0] is self]
                if uid and cur_rt.get('info'):
                    uid = uid[0]
                    info[uid] = cur_rt['info']
                    cur_rt['uid'] = uid
                    note_dispatch([uid])
                    if uid in out_worker:
                        deliver_worker([uid])
                    elif uid in out_exec:
                        deliver_exec(uid)
            if not self.flag:
                raise NeverAnswered()
            return True

    def note_dispatch(uids):
        """after a submission: find where each request went"""
        for uid in uids:
            w = count_puts(net, REQ_QUEUE, uid)
            a = count_puts(net, rpc.AGENT_STAGING_INPUT_QUEUE, uid)
            is_exec = info[uid]['mode'] == 'executable'
            if is_exec:
                if len(w):
                    res.fail('executable_request_sent_to_workers', uid)
                if len(a) != 1:
                    res.fail('executable_request_not_pushed_once',
                             '%s pushed %d times to the agent staging input queue' % (uid, len(a)))
                elif a[0].get('state') != rps.AGENT_STAGING_INPUT_PENDING:
                    res.fail('executable_request_wrong_state', '%s: %s' % (uid, a[0].get('state')))
                elif info[uid]['via'] == 'sched' and not a[0].get('raptor_seen'):
                    res.fail('executable_request_would_loop',
                             '%s goes back to the scheduler without raptor_seen' % uid)
                if len(a) >= 1 and uid not in out_exec:
                    out_exec.append(uid)
                    dicts[uid] = a[0]
            else:
                if len(a):
                    res.fail('function_request_sent_to_pilot:%s' % info[uid]['mode'], uid)
                if len(w) != 1:
                    res.fail('function_request_not_dispatched_once:%s' % info[uid]['mode'],
                             '%s put %d times on the worker queue' % (uid, len(w)))
                if len(w) >= 1 and uid not in out_worker:
                    out_worker.append(uid)
                    dicts[uid] = w[0]

    def result_dict(uid):
        t  = copy.deepcopy(dicts[uid])
        ec = info[uid]['exit']
        if ec is None:
            # e.g. the worker's dispatch-error path: the request comes back as it went out
            # (Task.as_dict() carries 'exit_code': None); a few results lack the key altogether
            if info[uid].get('drop_key'):
                t.pop('exit_code', None)
            else:
                t['exit_code'] = None
            t['exception'] = 'OSError(11)'
        else:
            t['exit_code'] = ec
        t['stdout'] = 'out'
        t['return_value'] = None
        return t

    from radical.pilot.agent.executing.base import AgentExecutingComponent
    executor = AgentExecutingComponent.__new__(AgentExecutingComponent)
    executor._log, executor._prof = boot.LOG, boot.PROF
    executor.advance = lambda *a, **k: None          # the task's own state advance is not the subject
    executor.publish = lambda topic, msg: net.publish(
        m._reg['bridges.%s' % topic]['addr_pub'], topic, msg)

    def deliver_worker(uids):
        uids = [u for u in uids if u in out_worker]
        if not uids:
            return
        for u in uids:
            out_worker.remove(u)
            done.append(u)
        try:
            m._result_cb([result_dict(u) for u in uids])      # the Getter callback
        except Exception as e:       # noqa
            res.fail(exc_sig('result_cb_raised', e), repr(e))

    def deliver_exec(uid):
        if uid not in out_exec:
            return
        out_exec.remove(uid)
        done.append(uid)
        t = result_dict(uid)
        # the executor hands the request on through its real advance_tasks (which reports tasks
        # of a raptor master back to it): after execution as AGENT_STAGING_OUTPUT_PENDING, after a
        # launch failure (no exit code, exception recorded) as FAILED
        state = rps.FAILED if info[uid]['exit'] is None else rps.AGENT_STAGING_OUTPUT_PENDING
        t['state'] = state
        t.setdefault('origin', 'client')
        n0 = len(net.log)
        try:
            executor.advance_tasks(t, state, publish=True, push=(state != rps.FAILED))
        except Exception as e:       # noqa
            res.fail(exc_sig('advance_tasks_raised', e), repr(e))
        for ev in net.log[n0:]:
            if ev[0] == 'cb_error':
                res.fail(exc_sig('state_cb_raised', ev[3]), repr(ev[3]))

    def check_results():
        """every delivered result: reported once, pushed on once, truthful state"""
        for uid in done:
            ec  = info[uid]['exit']
            exp = expected_target(ec)
            rep = [t for t in m.c20_results if t['uid'] == uid]
            psh = count_puts(net, rpc.AGENT_STAGING_OUTPUT_QUEUE, uid)
            cls = 'executable' if info[uid]['mode'] == 'executable' else 'function'
            if len(rep) != 1:
                res.fail('result_reported_%s:%s' % ('twice' if len(rep) > 1 else 'never', cls),
                         '%s: result_cb saw it %d times' % (uid, len(rep)))
            if len(psh) != 1:
                res.fail('result_pushed_%s:%s' % ('twice' if len(psh) > 1 else 'never', cls),
                         '%s: %d times on the staging output queue' % (uid, len(psh)))
            for t in rep + psh:
                if t.get('target_state') != exp:
                    res.fail('wrong_target_state:exit_%s' %
                             ('missing' if ec is None else 'zero' if ec == 0 else 'nonzero'),
                             '%s: exit_code %r -> target_state %r' % (uid, ec, t.get('target_state')))
            for t in psh:
                if t.get('state') != rps.AGENT_STAGING_OUTPUT_PENDING:
                    res.fail('result_pushed_in_wrong_state', '%s: %s' % (uid, t.get('state')))
        for uid in out_worker + out_exec:
            if any(t['uid'] == uid for t in m.c20_results) or \
               count_puts(net, rpc.AGENT_STAGING_OUTPUT_QUEUE, uid):
                res.fail('result_before_completion', uid)

    saved_mt = rm.mt
    rm.mt = types.SimpleNamespace(Event=FakeEvent, Thread=mt.Thread, RLock=mt.RLock,
                                  Lock=mt.Lock)
    try:
        def submit(n, how):
            nonlocal nxt
            bulk = reqs[nxt:nxt + max(1, n)]
            idx0 = nxt
            nxt += len(bulk)
            if not bulk:
                return
            uids, tds = [], []
            for i, r in enumerate(bulk):
                r = dict(r)
                if how == 'sched':
                    r['via'] = 'sched'
                elif r.get('via') not in ('submit_td', 'submit_dict', 'run_task'):
                    r['via'] = 'submit_td'
                td  = make_td(idx0 + i, r, m.uid)
                ec  = r.get('exit')
                if ec is not None:
                    ec = int(ec)
                info[td.uid] = {'mode': r.get('mode') if r.get('mode') in MODES else 'executable',
                                'via': r['via'], 'exit': ec,
                                'drop_key': bool(r.get('drop_key'))}
                uids.append(td.uid)
                tds.append((td, r['via']))
            try:
                if how == 'sched':
                    # what the agent scheduler forwards: client tasks as dicts
                    tasks = []
                    for td, _ in tds:
                        td.verify()
                        tasks.append({'uid': td.uid, 'type': 'task', 'origin': 'client',
                                      'state': rps.AGENT_SCHEDULING, 'description': td.as_dict(),
                                      'pilot': m._pid, 'pilot_sandbox': m._psbox,
                                      'task_sandbox': '%s/%s/' % (m._psbox, td.uid),
                                      'task_sandbox_path': '%s/%s/' % (m._psbox, td.uid)})
                    m._request_cb(tasks)
                    note_dispatch(uids)
                else:
                    plain = [(td, v) for td, v in tds if v != 'run_task']
                    if plain:
                        m.submit_tasks([td if v == 'submit_td'
                                        else rp.Task(m, td, origin='raptor').as_dict()
                                        for td, v in plain])
                        note_dispatch([td.uid for td, _ in plain])
                    for td, v in tds:
                        if v != 'run_task':
                            continue
                        # the worker-side `master.run_task(td)` service call: blocks until
                        # the result is in.  The uid is chosen by the master.
                        cur_rt.clear()
                        cur_rt['info'] = info.pop(td.uid)
                        try:
                            ret = m._run_task(td.as_dict())
                        except NeverAnswered:
                            res.fail('run_task_never_answered', repr(cur_rt.get('uid')))
                            continue
                        finally:
                            cur_rt.pop('info', None)
                        if cur_rt.get('uid') is None:
                            res.fail('run_task_not_submitted', td.uid)
                            continue
                        run_task_ret[cur_rt['uid']] = ret
            except Exception as e:       # noqa
                res.fail(exc_sig('submit_raised:%s' % how, e), repr(e))

        for op in case.get('ops') or []:
            if not isinstance(op, list) or not op:
                continue
            kind = op[0]
            a = int(op[1]) if len(op) > 1 else 1
            b = int(op[2]) if len(op) > 2 else 1
            if kind == 'submit':
                submit(a, 'submit')
            elif kind == 'sched':
                submit(a, 'sched')
            elif kind == 'result' and out_worker:
                k = a % len(out_worker)
                deliver_worker(out_worker[k:k + max(1, b)])
            elif kind == 'exec_done' and out_exec:
                deliver_exec(out_exec[a % len(out_exec)])
            elif kind == 'noise':
                # unrelated state traffic must not produce results
                net.publish(m._reg['bridges.%s' % rpc.STATE_PUBSUB]['addr_pub'],
                            rpc.STATE_PUBSUB,
                            {'cmd': 'update', 'arg': [{'uid': 'task.other', 'type': 'task',
                                                        'state': rps.AGENT_STAGING_OUTPUT}]})
            check_results()
            if res.problems:
                break

        if not res.problems:
            while nxt < len(reqs) and not res.problems:
                submit(1, 'submit')
            while out_worker and not res.problems:
                deliver_worker(out_worker[:2])
            while out_exec and not res.problems:
                deliver_exec(out_exec[0])
            check_results()
        if not res.problems:
            for uid, ret in run_task_ret.items():
                ec = info[uid]['exit']
                if not isinstance(ret, dict) or ret.get('target_state') != expected_target(ec) \
                        or (ec is not None and ret.get('exit_code') != ec):
                    res.fail('run_task_wrong_answer',
                             '%s: exit %r -> %r' % (uid, ec, {k: ret.get(k) for k in
                                                            ('exit_code', 'target_state')}
                                                    if isinstance(ret, dict) else ret))
            if m._task_service_data:
                res.fail('task_service_data_left', repr(list(m._task_service_data)))
            extra = [t['uid'] for t in m.c20_results if t['uid'] not in info]
            if extra:
                res.fail('unknown_request_reported', repr(extra))
    finally:
        rm.mt = saved_mt

    modes = set(v['mode'] for v in info.values())
    exits = set('missing' if v['exit'] is None else 'zero' if v['exit'] == 0 else 'nonzero'
                for v in info.values())
    res.nontrivial = ('executable' in modes and len(modes) >= 2 and len(exits) >= 2
                      and len(done) >= 2)
    for md in sorted(modes):
        res.label('master:mode=%s' % md)
    for e in sorted(exits):
        res.label('master:exit=%s' % e)
    for v in sorted(set(v['via'] for v in info.values())):
        res.label('master:via=%s' % v)
    res.key = {'k': 'master', 'r': reqs, 'o': case.get('ops')}
    return res


# ------------------------------------------------------------------------------
# worker submission: the description a worker sizes its own allotment from
#
def run_worker_submit(case):
    """real Master.submit_workers: the worker description which travels to the worker through the
    registry (`raptor.<uid>.cfg`, read by DefaultWorker.__init__ to size its core / GPU pool) and the
    one in the task pushed to the agent both say what the application described - also when it
    used the deprecated attribute names"""
    from radical.pilot.task_description import RAPTOR_WORKER
    res = CaseResult()
    res.label('worker_submission')
    net = Net(auto=True)
    m = hollow_master(net)
    want = {'ranks': max(1, int(case.get('ranks') or 1)),
            'cores_per_rank': max(1, int(case.get('cores') or 1)),
            'gpus_per_rank': float(int(case.get('gpus') or 0)),
            'mem_per_rank': int(case.get('mem') or 0)}
    old = bool(case.get('deprecated'))
    names = {'ranks': 'cpu_processes', 'cores_per_rank': 'cpu_threads',
             'gpus_per_rank': 'gpu_processes', 'mem_per_rank': 'mem_per_process'} if old else \
            {k: k for k in want}
    d = {'mode': RAPTOR_WORKER}
    for k, v in want.items():
        d[names[k]] = v
    if case.get('mixed') and old:
        d['cores_per_rank'] = d.pop('cpu_threads')         # deprecated and current names mixed
    try:
        uids = m.submit_workers([rp.TaskDescription(d)])
    except Exception as e:        # noqa
        res.fail(exc_sig('submit_workers_raised', e), repr(e))
        return res
    res.nontrivial = old
    if old:
        res.label('worker_submission:deprecated_names')
    for uid in uids or []:
        reg = m._reg['raptor.%s.cfg' % uid]
        psh = count_puts(net, rpc.AGENT_STAGING_INPUT_QUEUE, uid)
        docs = [('registry', reg)] + [('task', t.get('description') or {}) for t in psh]
        if not psh:
            res.fail('worker_not_pushed', uid)
        for where, doc in docs:
            for k, v in want.items():
                if (doc or {}).get(k) != v:
                    res.fail('worker_description_%s:%s' % (where, k),
                             '%s: %s copy says %s=%r, described %r (%s)'
                             % (uid, where, k, (doc or {}).get(k), v, 'deprecated names' if old else 'current names'))
    return res
