"""c15_vclock: virtual time for the four modules whose wait loops C15 drives
(DESIGN.md 3.5).

The module-level name `time` of task.py, pilot.py, task_manager.py and
pilot_manager.py is rebound ONCE (at import of this module) to a proxy object.
While a case clock is active the proxy's `time()` / `sleep()` go to that clock;
otherwise `time()` is the real one and `sleep()` refuses to run (the harness
never sleeps for real).  Everything else (`time.strftime`, ...) is delegated to
the real module, so unrelated code in those modules is not disturbed.

Time is kept in integer milliseconds (no float drift in the oracle); the code
under test sees `ms / 1000.0` floats, as it would from `time.time()`.
"""
import time as _real_time

from . import boot                                    # noqa: F401

import radical.pilot.task          as _m_task
import radical.pilot.pilot         as _m_pilot
import radical.pilot.task_manager  as _m_tmgr
import radical.pilot.pilot_manager as _m_pmgr

MODULES = [_m_task, _m_pilot, _m_tmgr, _m_pmgr]


class DeadlineExceeded(BaseException):
    """virtual time passed the case deadline (or the call spins without letting
    time pass).  BaseException: no `except Exception` in the code under test may
    swallow it.  The oracle turns it into a 'did not return' verdict."""

    def __init__(self, why):
        BaseException.__init__(self, why)
        self.why = why


class EventFailed(BaseException):
    """a scripted state change raised inside the real update path"""

    def __init__(self, exc):
        BaseException.__init__(self, repr(exc))
        self.exc = exc


class VClock(object):
    """events: list of (t_ms, payload) relative to the clock's start; fired in
    (t_ms, list position) order through `fire(t_ms, payload)` when a sleep
    reaches or passes them."""

    BASE_MS   = 1000000          # the call starts at virtual 1000.000 s
    MAX_CALLS = 20000            # time()/sleep() calls per case (spin guard)

    def __init__(self, events, fire, deadline_ms):
        self.now      = 0                        # ms since start of the call
        self._events  = sorted(((int(t), k, p) for k, (t, p) in enumerate(events)),
                               key=lambda x: (x[0], x[1]))
        self._next    = 0
        self._fire    = fire
        self.deadline = int(deadline_ms)
        self.calls    = 0
        self.sleeps   = 0

    # -- what the code under test sees
    def time(self):
        self._count()
        return (self.BASE_MS + self.now) / 1000.0

    def sleep(self, dt):
        self._count()
        if dt < 0:
            raise ValueError('sleep length must be non-negative')
        self.sleeps += 1
        ticks  = int(round(dt * 1000.0))
        self.advance_to(self.now + ticks)
        if self.now > self.deadline:
            raise DeadlineExceeded('deadline')

    # -- harness side
    def advance_to(self, target):
        """fire every event with t <= target in order, then set now = target.
        An event at time t is visible to every poll at a time >= t; the harness
        calls advance_to(0) before the call under test so that this also holds
        for the check the wait call makes at its very start."""
        while self._next < len(self._events) and \
                self._events[self._next][0] <= target:
            t, _, payload = self._events[self._next]
            self._next += 1
            self.now = max(self.now, t)
            try:
                self._fire(t, payload)
            except BaseException as e:           # noqa
                raise EventFailed(e) from e
        self.now = max(self.now, target)

    def _count(self):
        self.calls += 1
        if self.calls > self.MAX_CALLS:
            raise DeadlineExceeded('spin')


class _TimeProxy(object):
    """stands in for the `time` module inside the four modules"""

    def __init__(self):
        self.clock = None

    def time(self):
        c = self.clock
        if c is None:
            return _real_time.time()
        return c.time()

    def sleep(self, dt):
        c = self.clock
        if c is None:
            raise RuntimeError('C15 harness: real time.sleep(%r) attempted '
                               'outside a virtual-clock case' % (dt,))
        return c.sleep(dt)

    def __getattr__(self, name):
        return getattr(_real_time, name)


PROXY = _TimeProxy()


def install():
    for m in MODULES:
        if getattr(m, 'time', None) is not PROXY:
            m.time = PROXY


class active(object):
    """with active(clock): ...   -- the proxy delegates to `clock` inside"""

    def __init__(self, clock):
        self._clock = clock

    def __enter__(self):
        install()
        self._prev  = PROXY.clock
        PROXY.clock = self._clock
        return self._clock

    def __exit__(self, *a):
        PROXY.clock = self._prev
        return False


install()
