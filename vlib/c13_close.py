"""C13 part: the pilots of a pilot manager end because the application closes that manager
(PilotManager.close(terminate=True): cancel_pilots, kill_pilots) while a task manager still has
tasks on them.

Real  : PilotManager.close / cancel_pilots / kill_pilots / wait_pilots / _update_pilot (hollow
        manager of c15_hollow, real Pilot objects), TaskManager.add_pilots / submit_tasks /
        _update_tasks / _pilot_state_cb, Task.
Faked : the manager's component manager (close() is a no-op), dump(); the module `time` of
        pilot_manager.py is a virtual clock - the pilots' CANCELED notifications arrive (through
        the real _update_pilot) while close() polls for them, as they do from the state subscriber
        thread in production.
"""
from hypothesis import strategies as st

from . import boot                                    # noqa: F401
from .runner import CaseResult, exc_sig
from .hollow import HollowSession, hollow_tmgr
from .c15_hollow import hollow_pmgr, add_pilot

import radical.pilot as rp
import radical.pilot.states as rps
import radical.pilot.pilot_manager as m_pmgr

T_STATES = [rps.TMGR_SCHEDULING_PENDING, rps.TMGR_STAGING_INPUT, rps.AGENT_SCHEDULING,
            rps.AGENT_EXECUTING, rps.AGENT_STAGING_OUTPUT, rps.TMGR_STAGING_OUTPUT_PENDING,
            rps.DONE, rps.FAILED, rps.CANCELED]


class _VTime(object):
    """virtual clock: sleep() advances it and runs the pending deliveries"""
    def __init__(self):
        self.now, self.pending = 0.0, []

    def time(self):
        return self.now

    def sleep(self, dt):
        self.now += max(0.0, float(dt))
        todo, self.pending = self.pending, []
        for fn in todo:
            fn()

    def __getattr__(self, name):
        import time as _t
        return getattr(_t, name)


class _NoCmgr(object):
    def close(self):
        pass


@st.composite
def cases(draw):
    n_a = draw(st.integers(1, 3))          # pilots of the manager which gets closed
    n_b = draw(st.integers(0, 2))          # pilots of another manager
    tasks = []
    for _ in range(draw(st.integers(1, 10))):
        tasks.append([draw(st.one_of(st.none(), st.integers(0, n_a + n_b - 1))),
                      draw(st.integers(0, len(T_STATES) - 1))])
    return {'kind': 'pmgr_close', 'n_a': n_a, 'n_b': n_b, 'tasks': tasks,
            'active': draw(st.lists(st.booleans(), min_size=n_a, max_size=n_a))}


def run(case):
    res = CaseResult()
    res.label('pmgr_close')
    n_a = max(1, min(3, int(case.get('n_a') or 1)))
    n_b = max(0, min(2, int(case.get('n_b') or 0)))
    sess = HollowSession()
    tm   = hollow_tmgr(sess)
    pm_a = hollow_pmgr(sess, 'pmgr.0000')
    pm_b = hollow_pmgr(sess, 'pmgr.0001')
    pilots = [add_pilot(pm_a, 'pilot.a%03d' % i) for i in range(n_a)] + \
             [add_pilot(pm_b, 'pilot.b%03d' % i) for i in range(n_b)]
    tm.add_pilots(pilots)

    # pilots of the closing manager are somewhere on their way
    for k, p in enumerate(pilots[:n_a]):
        upto = rps.PMGR_ACTIVE if (case.get('active') or [True])[k % len(case.get('active') or [True])] \
            else rps.PMGR_LAUNCHING
        for s in (rps.PMGR_LAUNCHING_PENDING, rps.PMGR_LAUNCHING, rps.PMGR_ACTIVE_PENDING, rps.PMGR_ACTIVE):
            pm_a._update_pilot({'uid': p.uid, 'type': 'pilot', 'state': s})
            if s == upto:
                break

    specs = [t for t in (case.get('tasks') or []) if isinstance(t, list) and len(t) == 2][:10]
    tds = [rp.TaskDescription({'uid': 'task.%06d' % i, 'executable': '/bin/true'})
           for i in range(len(specs))]
    tasks = tm.submit_tasks(tds) if tds else []
    bound = {}
    for (pi, si), task in zip(specs, tasks):
        state = T_STATES[int(si) % len(T_STATES)]
        upd = {'uid': task.uid, 'type': 'task', 'state': state}
        if pi is not None and state != rps.TMGR_SCHEDULING_PENDING:
            upd['pilot'] = pilots[int(pi) % len(pilots)].uid
            bound[task.uid] = upd['pilot']
        if state == rps.FAILED:
            upd['exception'], upd['exception_detail'] = 'RuntimeError("own failure")', 'failed on its own'
        tm._update_tasks([upd])
        if task.state != state:
            res.fail('setup:state_not_reached', '%s wanted %s got %s' % (task.uid, state, task.state))
            return res

    before = {t.uid: (t.state, t.exception, t.exception_detail) for t in tasks}

    vt = _VTime()
    saved = m_pmgr.time
    m_pmgr.time = vt
    pm_a._cmgr = _NoCmgr()
    pm_a.dump  = lambda *a, **k: None

    def deliver():
        # the pilots answer the cancel / kill request: CANCELED arrives through the state channel
        for p in pilots[:n_a]:
            if p.state not in rps.FINAL:
                pm_a._update_pilot({'uid': p.uid, 'type': 'pilot', 'state': rps.CANCELED})
    vt.pending.append(deliver)
    try:
        pm_a.close(terminate=True)
    except Exception as e:          # noqa
        res.fail(exc_sig('pmgr_close_raised', e), repr(e))
        return res
    finally:
        m_pmgr.time = saved

    ended = set(p.uid for p in pilots[:n_a] if p.state in rps.FINAL)
    if len(ended) != n_a:
        res.label('pmgr_close:pilots_not_final')
        return res
    own = other = 0
    for t in tasks:
        st0, ex0, exd0 = before[t.uid]
        pid = bound.get(t.uid)
        if pid in ended and st0 not in rps.FINAL:
            own += 1
            if t.state != rps.FAILED:
                res.fail('own_task_not_failed:pmgr_closed:from=%s' % st0,
                         '%s bound to %s (canceled by PilotManager.close) is %s' % (t.uid, pid, t.state))
            elif pid not in '%s %s' % (t.exception, t.exception_detail):
                res.fail('explanation_lacks_pilot', '%s: %r %r' % (t.uid, t.exception, t.exception_detail))
        else:
            other += 1
            if (t.state, t.exception, t.exception_detail) != (st0, ex0, exd0):
                res.fail('foreign_task_changed:pmgr_closed', '%s (pilot %s, was %s) became %s'
                         % (t.uid, pid, st0, t.state))
    res.nontrivial = bool(own and other)
    return res
