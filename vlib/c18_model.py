"""C18 reference model: what a case *is* (host names, node file text, batch
system environment) and what the offered node list must look like.

Everything here is a pure function of the plain-data case and is written from
the batch systems' documented formats and the docstrings in
agent/resource_manager/base.py - it never calls radical.pilot.

Case layout (all plain JSON):

  rm        : FORK | DEBUG | SLURM | TORQUE | CCM | LSF | COBALT | PBSPRO
  mode      : per-RM variant (see MODES)
  groups    : [{'pre': str, 'suf': str, 'w': int, 'ids': [int]}]   compute hosts,
              name = pre + '%0*d' % (w, id) + suf, allocation order
  pseudo    : [str]        LSF login/batch (pseudo) host names, one line each
  lines     : [int]        node file: one host per line; k >= 0 -> k-th compute
              host (modulo), k < 0 -> pseudo host -k-1 (modulo)
  decoy     : [int]        CCM: lines of an *older* nodelist file (must be ignored)
  chunks    : [[int]]      PBSPro exec_vnode chunks (host indices), '+' joined
  wrap      : int          qstat -f line wrap width (0: no wrapping)
  ncpus_key : 'ncpus'|'cpu'
  cpn       : int          configured physical cores per node (0: not configured)
  smt       : int          hardware threads per core (the agent config carries
                           cpn*smt, as pmgr/launching/base.py computes it)
  smt_cfg   : 'same'|'none'|'other'   rcfg.system_architecture.smt vs $RADICAL_SMT
  hw        : int          cores per node the batch system reports / lists
                           (Fork: detected cores; Slurm: $SLURM_CPUS_ON_NODE;
                           Torque/CCM unconfigured, LSF: lines per host; PBSPro: ncpus)
  gpn       : int          configured GPUs per node
  gpu_env   : ''|'SLURM_GPUS_ON_NODE'|'SLURM_JOB_GPUS'|'SLURM_STEP_GPUS'|'GPU_DEVICE_ORDINAL'
  gpu_hw    : int          GPUs per node the Slurm environment reports
  lfs, mem  : int
  blocked_cores, blocked_gpus : [int]
  nodes     : int          requested nodes (0: derive from cores, only if cpn == 0)
  cores, gpus : int        requested cores / gpus as the launcher passes them
  backup    : int          backup nodes
  probe     : [str]        ssh probe outcome per host (modulo): ok | fail | timeout | hang
  agents    : [str]        sub-agent targets ('node' | 'local')
  services  : bool         ./services file present
  fake      : bool         Fork: rcfg.fake_resources
  drop_env  : bool         the batch system's node-list variable is missing
"""
import math

RMS = ['FORK', 'DEBUG', 'SLURM', 'TORQUE', 'CCM', 'LSF', 'COBALT', 'PBSPRO']

MODES = {
    'FORK'  : ['-'],
    'DEBUG' : ['-'],
    'SLURM' : ['SLURM_NODELIST', 'SLURM_JOB_NODELIST', 'both'],
    'TORQUE': ['-'],
    'CCM'   : ['-'],
    'LSF'   : ['-'],
    'COBALT': ['nodefile', 'partname'],
    # vnode: qstat works; qstat_fail: non-zero exit; no_vnode: qstat output has no
    # exec_vnode entry; vnode_extra: chunks carry more resources than ncpus
    # (the parser then falls back to the node file)
    'PBSPRO': ['vnode', 'qstat_fail', 'no_vnode', 'vnode_extra'],
}

FILE_RMS = ('TORQUE', 'CCM', 'LSF', 'COBALT', 'PBSPRO')


# ------------------------------------------------------------------------------
def names_of(case):
    """compute host names in allocation order (unique)"""
    out, seen = [], set()
    for g in case.get('groups') or []:
        w = max(0, int(g.get('w') or 0))
        for i in g.get('ids') or []:
            n = '%s%0*d%s' % (g.get('pre', 'n'), w, abs(int(i)), g.get('suf', ''))
            if n not in seen:
                seen.add(n)
                out.append(n)
    return out


def slurm_expr(case):
    """the host list expression Slurm hands out for the groups: consecutive ids
    are compressed to 'lo-hi' inside one bracket per group; a single host is
    written literally.  -> (expression, mixed_width)

    mixed_width: some bracket holds numbers of different printed length
    (n[8-11], n[98-101]) - Slurm expands those without padding."""
    parts, mixed = [], False
    for g in case.get('groups') or []:
        ids = sorted(set(abs(int(i)) for i in g.get('ids') or []))
        if not ids:
            continue
        w   = max(0, int(g.get('w') or 0))
        pre, suf = g.get('pre', 'n'), g.get('suf', '')
        if len(ids) == 1:
            parts.append('%s%0*d%s' % (pre, w, ids[0], suf))
            continue
        runs, lo, hi = [], ids[0], ids[0]
        for i in ids[1:]:
            if i == hi + 1:
                hi = i
            else:
                runs.append((lo, hi))
                lo = hi = i
        runs.append((lo, hi))
        toks, lens = [], set()
        for lo, hi in runs:
            a, b = '%0*d' % (w, lo), '%0*d' % (w, hi)
            lens.update((len(a), len(b)))
            toks.append(a if lo == hi else '%s-%s' % (a, b))
        if len(lens) > 1:
            mixed = True
        parts.append('%s[%s]%s' % (pre, ','.join(toks), suf))
    return ','.join(parts), mixed


def cobalt_expr(case):
    """$COBALT_PARTNAME: '3-5,8' over the ids of all groups; names are nid%05d"""
    ids = sorted(set(abs(int(i)) for g in case.get('groups') or []
                                 for i in g.get('ids') or []))
    runs, toks = [], []
    for i in ids:
        if runs and i == runs[-1][1] + 1:
            runs[-1][1] = i
        else:
            runs.append([i, i])
    for lo, hi in runs:
        toks.append(str(lo) if lo == hi else '%d-%d' % (lo, hi))
    return ','.join(toks), ['nid%05d' % i for i in ids]


def file_hosts(case, key='lines'):
    """node file lines as host names"""
    if key == 'decoy':
        # hosts of an earlier job: none of them belongs to this allocation
        return ['prev%04d' % abs(int(k)) for k in case.get(key) or []]
    names  = names_of(case)
    pseudo = list(case.get('pseudo') or [])
    out = []
    for k in case.get(key) or []:
        k = int(k)
        if k >= 0:
            if names:
                out.append(names[k % len(names)])
        elif pseudo:
            out.append(pseudo[(-k - 1) % len(pseudo)])
    return out


def count_hosts(hosts):
    order, cnt = [], {}
    for h in hosts:
        if h not in cnt:
            order.append(h)
            cnt[h] = 0
        cnt[h] += 1
    return order, cnt


def vnode_string(case, extra=False):
    names = names_of(case)
    key   = case.get('ncpus_key') or 'ncpus'
    n     = int(case.get('hw') or 0)
    chunks = []
    used   = []
    for ch in case.get('chunks') or []:
        sl = []
        for k in ch:
            if not names:
                continue
            h = names[int(k) % len(names)]
            used.append(h)
            s = '%s:%s=%d' % (h, key, n)
            if extra:
                s += ':ngpus=%d:mem=4gb' % max(1, int(case.get('gpn') or 0))
            sl.append(s)
        if sl:
            chunks.append('(' + '+'.join(sl) + ')')
    return '+'.join(chunks), used


def qstat_output(case):
    """text of `qstat -f $PBS_JOBID` (PBSPro prints long values wrapped, the
    continuation lines start with a tab)"""
    mode = case.get('mode')
    vs, _ = vnode_string(case, extra=(mode == 'vnode_extra'))
    head = ['Job Id: 4711.pbs01', '    Job_Name = pilot.0000',
            '    job_state = R', '    queue = workq']
    tail = ['    Hold_Types = n', '    Resource_List.ncpus = 8',
            '    Variable_List = PBS_O_HOME=/home/u,PBS_O_LANG=en_US.UTF-8']
    if mode == 'no_vnode' or not vs:
        return '\n'.join(head + tail) + '\n'
    line = '    exec_vnode = ' + vs
    wrap = int(case.get('wrap') or 0)
    body = []
    if wrap >= 20 and len(line) > wrap:
        body.append(line[:wrap])
        rest = line[wrap:]
        while rest:
            body.append('\t' + rest[:wrap - 1])
            rest = rest[wrap - 1:]
    else:
        body.append(line)
    return '\n'.join(head + body + tail) + '\n'


# ------------------------------------------------------------------------------
class Expect(object):
    """what the model demands.
    verdict : 'ok'     the input is a consistent allocation: no exception, lists as below
              'raise'  no acceptable node list exists for this input (or the code
                       documents the exception): an exception is required
              'either' the model does not take sides (outside the canonical domain);
                       only the input-independent clauses are checked
    may_raise: with 'ok': an exception is acceptable as well (request larger than
               the allocation), but a list, if produced, must be the right one
    """
    def __init__(self):
        self.verdict   = 'ok'
        self.may_raise = False
        self.why       = ''
        self.usable    = []      # usable compute hosts (multiset; Fork/Debug repeat localhost)
        self.pseudo    = set()   # names which must never be offered
        self.bad       = set()   # hosts whose probe failed (must not be used at all)
        self.repeat_ok = False   # same name may appear more than once (Fork, Debug)
        self.E         = 0       # len(node['cores'])
        self.G         = 0       # len(node['gpus'])
        self.requested = 0
        self.n_agent   = 0
        self.n_service = 0
        self.n_offered = 0
        self.surplus   = 0       # accessible nodes beyond the requested number
        self.klass     = []      # labels

    def set(self, verdict, why):
        # 'raise' and 'either' are sticky in that order of arrival
        if self.verdict == 'ok':
            self.verdict, self.why = verdict, why
        return self


def expect(case):                                               # noqa: C901
    e   = Expect()
    rm  = case['rm']
    mode = case.get('mode') or '-'
    smt = max(1, int(case.get('smt') or 1))
    cfg_cpn = max(0, int(case.get('cpn') or 0)) * smt     # what the agent config carries
    hw  = max(0, int(case.get('hw') or 0))
    gpn = max(0, int(case.get('gpn') or 0))
    bc  = sorted(set(int(x) for x in case.get('blocked_cores') or []))
    bg  = sorted(set(int(x) for x in case.get('blocked_gpus')  or []))
    nodes  = max(0, int(case.get('nodes')  or 0))
    cores  = max(0, int(case.get('cores')  or 0))
    gpus   = max(0, int(case.get('gpus')   or 0))
    backup = max(0, int(case.get('backup') or 0))
    names  = names_of(case)
    drop   = bool(case.get('drop_env'))

    E, G = cfg_cpn, gpn
    usable = []

    if rm == 'FORK':
        e.repeat_ok = True
        E = cfg_cpn or hw
        if not E:
            return e.set('either', 'fork: no cores')
        if not case.get('fake'):
            if not (cores <= E <= hw):
                e.set('either', 'fork: cores_per_node vs detected cores')
        req = nodes
        if not req:
            req = int(math.ceil(cores / E))
            if gpus:
                if not gpn:
                    return e.set('either', 'fork: gpus requested, none configured')
                req = max(req, int(math.ceil(gpus / gpn)))
        nodes  = req           # Fork fixes the number before blocked cores are applied
        usable = ['localhost'] * (req + backup)

    elif rm == 'DEBUG':
        e.repeat_ok = True
        if not cfg_cpn or not nodes:
            return e.set('either', 'debug: needs cores_per_node and nodes')
        usable = ['localhost'] * nodes

    elif rm == 'SLURM':
        if drop:
            return e.set('raise', 'slurm: no node list variable')
        usable = list(names)
        _, mixed = slurm_expr(case)
        if mixed:
            e.klass.append('slurm_mixed_width')
        if not E:
            if not case.get('cpus_env', True):
                return e.set('raise', 'slurm: cores per node unknown')
            E = hw
        if not G and case.get('gpu_env'):
            G = max(0, int(case.get('gpu_hw') or 0))

    elif rm in ('TORQUE', 'CCM'):
        if drop:
            return e.set('raise', '%s: no node file' % rm)
        order, cnt = count_hosts(file_hosts(case))
        usable = order
        cs = set(cnt.values())
        if cfg_cpn:
            # one line per node, per slot, or per non-blocked slot: the
            # configured size holds (`_parse_nodefile`: "cpn will supercede")
            if not cs <= {1, cfg_cpn, cfg_cpn - len(bc)}:
                e.set('either', 'node file slots differ from configured cores')
            elif len(cs) > 1:
                e.set('either', 'non-uniform node file')
        else:
            if len(cs) != 1:
                e.set('raise', 'non-uniform node file, nothing configured')
            else:
                E = cs.pop()

    elif rm == 'LSF':
        if drop:
            return e.set('raise', 'lsf: no host file')
        order, cnt = count_hosts(file_hosts(case))
        e.pseudo = set(case.get('pseudo') or [])
        usable   = [h for h in order if h not in e.pseudo]
        # pseudo nodes are recognised by name or by having a single slot
        for h in e.pseudo:
            if h in cnt and cnt[h] != 1 and 'login' not in h and 'batch' not in h:
                e.set('either', 'lsf: unmarked pseudo node with several slots')
        cs = set(cnt[h] for h in usable)
        if 1 in cs:
            e.set('either', 'lsf: compute node with a single slot')
        if len(cs) != 1:
            e.set('raise', 'lsf: non-uniform host file')
        else:
            E = cs.pop() * smt
            if cfg_cpn and cfg_cpn != E:
                e.set('either', 'lsf: configured cores contradict host file')

    elif rm == 'COBALT':
        if not cfg_cpn:
            return e.set('raise', 'cobalt: cores_per_node required')
        if drop:
            return e.set('raise', 'cobalt: no node file / partname')
        if mode == 'partname':
            usable = cobalt_expr(case)[1]
        else:
            usable = count_hosts(file_hosts(case))[0]

    elif rm == 'PBSPRO':
        if drop:
            # no $PBS_JOBID: refusing and falling back to the node file are both fine
            e.set('either', 'pbspro: no job id')
        if mode == 'vnode' and not drop:
            vs, used = vnode_string(case)
            usable = count_hosts(used)[0]
            if not usable:
                e.set('either', 'pbspro: empty exec_vnode')
            E = hw
            if cfg_cpn and cfg_cpn != hw:
                e.set('either', 'pbspro: ncpus differs from configured cores')
        else:
            # no job id / qstat failure / unparsable vnodes: node file + config
            if not cfg_cpn:
                return e.set('raise', 'pbspro: neither vnodes nor cores_per_node')
            if case.get('no_nodefile'):
                return e.set('raise', 'pbspro: neither vnodes nor node file')
            usable = count_hosts(file_hosts(case))[0]

    e.usable = usable
    e.E, e.G = E, G

    if not usable:
        return e.set('raise' if rm not in ('FORK', 'DEBUG') else 'either', 'no hosts')
    if E <= 0:
        return e.set('either', 'no cores per node')

    if any(i < 0 or i >= E for i in bc):
        e.set('raise', 'blocked core index outside the node')
    if any(i < 0 or i >= G for i in bg):
        e.set('raise', 'blocked gpu index outside the node')
    avail_c = E - len(bc)
    avail_g = G - len(bg)
    if avail_c <= 0:
        e.set('either', 'all cores blocked')

    if not cores:
        e.set('either', 'no cores requested')

    req = nodes
    if not req and avail_c > 0:
        n = cores / avail_c
        if avail_g > 0:
            n = max(n, gpus / avail_g)
        req = int(math.ceil(n))
    e.requested = req
    if not req:
        e.set('either', 'no nodes requested')

    if req > len(usable):
        # refusing is fine, offering what is there is fine, too
        e.may_raise = True
        e.klass.append('request_exceeds_allocation')

    ok = list(usable)
    if backup:
        probe = case.get('probe') or ['ok']
        ok = []
        for k, h in enumerate(usable):
            if probe[k % len(probe)] == 'ok':
                ok.append(h)
            elif not e.repeat_ok:
                e.bad.add(h)
        if not ok:
            e.set('raise', 'no accessible node')

    kept = min(len(ok), req)
    e.surplus   = max(0, len(ok) - req)
    e.n_agent   = sum(1 for t in case.get('agents') or [] if t == 'node')
    e.n_service = 1 if case.get('services') else 0
    e.n_offered = kept - e.n_agent - e.n_service
    if e.n_offered <= 0:
        e.set('raise', 'no node left for tasks')

    return e
