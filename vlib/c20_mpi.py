"""C20, MPI worker part: the real `worker_mpi._Resources` allotment, `MPIWorkerRank.run` loop with its
`_dispatch*` methods, the `Worker._dispatch_*` dispatchers and `_ResultPusher._check_ranks`, fed with
streams of 1..n-rank requests.  MPI group / communicator objects and the zmq endpoints are recorders
(the putter serialises with `to_msgpack` as the real one does).

Oracle: ranks given to requests held at the same time are disjoint and inside the allotment; every
request comes back exactly once - exit code 0 and the per-rank return values iff the call succeeded,
a non-zero code and an exception otherwise (also when the dispatcher itself raises) - and gives its
ranks back; every communicator created is freed.
"""
import os

from hypothesis import strategies as st

from . import boot                                    # noqa: F401
from .runner import CaseResult, exc_sig

import radical.utils as ru
import radical.pilot as rp

from radical.utils.serialize     import to_msgpack, from_msgpack
from radical.pilot.raptor        import worker_mpi as wm
from radical.pilot.raptor.worker import Worker

KINDS = ['eval_ok', 'eval_ok', 'eval_bad', 'exec_ok', 'func_comm', 'func_nocomm', 'func_unknown',
         'mode_unknown', 'func_raises', 'proc_ok', 'proc_rank_killed', 'shell_rank_fails']
NO_EXC = ('proc_ok', 'proc_rank_killed', 'shell_rank_fails')     # processes report a code, no exception


def c20_takes_comm(comm, x):
    return x * 2


def c20_no_comm(x):
    return x * 2


def c20_raises(comm, x):
    raise ValueError('request failed: %s' % x)


class _Quiet(object):
    def __getattr__(self, name):
        return lambda *a, **k: None


class _End(Exception):
    pass


@st.composite
def cases(draw):
    n = draw(st.integers(2, 4))
    ops = []
    for _ in range(draw(st.integers(1, 8))):
        if ops and draw(st.integers(0, 3)) == 0:
            ops.append(['run'])
        else:
            ops.append(['req', draw(st.sampled_from(KINDS)),
                        draw(st.sampled_from([1, 2, 2, 2, 3, 4])) % (n + 1) or 1])
    return {'kind': 'mpi_worker', 'ranks': n, 'ops': ops}


def normalise(case):
    try:
        n = max(2, min(4, int(case.get('ranks', 2))))
        ops = []
        for op in case.get('ops', []):
            if op and op[0] == 'run':
                ops.append(['run'])
            elif op and op[0] == 'req' and len(op) == 3 and op[1] in KINDS:
                ops.append(['req', op[1], max(1, min(n, int(op[2])))])
        return {'kind': 'mpi_worker', 'ranks': n, 'ops': ops} if ops else None
    except Exception:
        return None


def _request(uid, kind, ranks, sbox):
    d = {'ranks': ranks, 'environment': {}, 'args': [], 'kwargs': {}}
    ok, val = True, None
    if kind == 'eval_ok':
        d.update(mode=rp.TASK_EVAL, code='6 * 7'); val = 42
    elif kind == 'eval_bad':
        d.update(mode=rp.TASK_EVAL, code='1 / 0'); ok = False
    elif kind == 'exec_ok':
        d.update(mode=rp.TASK_EXEC, code='import os\nreturn int(os.environ["RP_RANKS"]) * 21')
        val = ranks * 21
    elif kind == 'func_comm':
        d.update(mode=rp.TASK_FUNC, function=rp.PythonTask(c20_takes_comm, args=(None, 21))); val = 42
    elif kind == 'func_nocomm':
        # no slot for the communicator: fine on one rank, refused by the dispatcher on several
        d.update(mode=rp.TASK_FUNC, function=rp.PythonTask(c20_no_comm, args=(21,)))
        ok, val = ranks == 1, 42
    elif kind == 'func_unknown':
        d.update(mode=rp.TASK_FUNC, function='c20_no_such_function'); ok = False
    elif kind == 'func_raises':
        d.update(mode=rp.TASK_FUNC, function=rp.PythonTask(c20_raises, args=(None, 1))); ok = False
    elif kind == 'proc_ok':
        d.update(mode=rp.TASK_PROC, executable='/bin/true', arguments=[])
    elif kind == 'proc_rank_killed':
        # every rank but the first is killed by a signal
        # (the command line runs under `sh -c`: where that shell replaces itself by the program -
        # bash does - this is what a crashing program looks like; here the shell takes the signal)
        d.update(mode=rp.TASK_PROC, executable='test "$RP_RANK" = "0" || kill -9 $$', arguments=[])
        ok = ranks == 1
    elif kind == 'shell_rank_fails':
        d.update(mode=rp.TASK_SHELL, command='test "$RP_RANK" = "0"')
        ok = ranks == 1
    else:
        d.update(mode='task.bogus'); ok = False
    task = {'uid': uid, 'name': uid, 'description': d,
            'task_sandbox_path': os.path.join(sbox, uid)}
    return task, ok, val


def run_case(case):
    res = CaseResult()
    n_ranks = case['ranks']
    queues, results = {}, []
    counts = {'comm_new': 0, 'comm_free': 0}

    class Getter(object):
        def __init__(self, *a, **k):
            pass

        def get_nowait(self, qname=None, timeout=None):
            bulks = queues.setdefault(qname, [])
            if not bulks:
                raise _End()
            return from_msgpack(to_msgpack(bulks.pop(0)))

    class Putter(object):
        def __init__(self, *a, **k):
            pass

        def put(self, msgs, qname=None):
            results.extend(from_msgpack(to_msgpack(ru.as_list(msgs))))

    class Group(object):
        def __init__(self, ranks=None):
            self.ranks = list(ranks) if ranks is not None else list(range(n_ranks))

        def Incl(self, ranks):
            return Group(ranks)

        def Free(self):
            pass

    class Comm(object):
        def __init__(self, rank, size):
            self.rank, self.size = rank, size
            counts['comm_new'] += 1

        def __bool__(self):
            return True

        def Free(self):
            counts['comm_free'] += 1

    class World(object):
        def __init__(self, rank):
            self._rank = rank

        def Create_group(self, group):
            return Comm(group.ranks.index(self._rank), len(group.ranks))

    sbox = boot.case_dir('c20mpi')
    old_env, old_cwd = dict(os.environ), os.getcwd()
    old_get, old_put = ru.zmq.Getter, ru.zmq.Putter
    try:
        os.chdir(sbox)
        for k in ('RP_TASK_SANDBOX', 'RP_RESOURCE_SANDBOX', 'RP_SESSION_SANDBOX', 'RP_PILOT_SANDBOX'):
            os.environ[k] = sbox
        os.environ.update({'RP_PILOT_ID': 'pilot.0000', 'RP_SESSION_ID': 'session.c20',
                           'RP_RESOURCE': 'local.localhost', 'RP_GTOD': 'gtod', 'RP_PROF': 'prof',
                           'RP_PROF_TGT': 'prof.tgt'})
        ru.zmq.Getter, ru.zmq.Putter = Getter, Putter

        log = prof = _Quiet()
        base = wm.MPIWorker.__new__(wm.MPIWorker)
        base._log, base._prof = log, prof
        base._my_term, base._my_ret = wm.mt.Event(), 0
        base._modes = dict()
        base._task_env = {k: v for k, v in os.environ.items() if not k.startswith('RP_')}
        for mode, disp in ((rp.TASK_FUNC, base._dispatch_func), (rp.TASK_METH, base._dispatch_meth),
                           (rp.TASK_EVAL, base._dispatch_eval), (rp.TASK_EXEC, base._dispatch_exec),
                           (rp.TASK_PROC, base._dispatch_proc), (rp.TASK_SHELL, base._dispatch_shell)):
            Worker.register_mode(base, mode, disp)

        resources = wm._Resources(log, prof, n_ranks)
        pusher = wm._ResultPusher('put', 'get', wm.mt.Event(), resources, log, prof)
        pusher._cache = dict()
        ranks = [wm.MPIWorkerRank('get', 'put', {'world': World(r), 'group': Group(), 'rank': r,
                                                 'ranks': n_ranks}, wm.mt.Event(), log, prof, base)
                 for r in range(n_ranks)]

        want, held, back = {}, {}, {}
        kinds, par = set(), 0

        def run_all():
            del results[:]
            for r in ranks:
                r.run()                               # ends when its queue is drained
            for one in list(results):
                try:
                    if pusher._check_ranks(one):
                        resources._dealloc(one)
                        back.setdefault(one['uid'], []).append(one)
                        held.pop(one['uid'], None)
                except Exception as e:                # noqa
                    res.fail(exc_sig('mpi_worker:collect_raised', e), repr(e))
            # whatever is still held did not come back: the real puller would now wait for ever
            for uid in list(held):
                held.pop(uid)

        i = 0
        for op in list(case['ops']) + [['run']]:
            if op[0] == 'run':
                run_all()
                continue
            uid = 'req.%04d' % i
            i += 1
            task, ok, val = _request(uid, op[1], op[2], sbox)
            kinds.add(op[1] + (':mpi' if op[2] > 1 else ''))
            free = resources._resources['cores'].count(wm.FREE)
            if free < op[2]:
                run_all()
                free = resources._resources['cores'].count(wm.FREE)
            if free < op[2]:
                res.fail('mpi_worker:ranks_not_given_back', '%s: %d of %d ranks free although no '
                         'request is running' % (uid, free, n_ranks))
                continue
            want[uid] = (ok, val, op[2], op[1])
            task['ranks'] = resources._alloc(task)
            got = set(task['ranks'])
            if len(got) != op[2] or not got <= set(range(n_ranks)):
                res.fail('mpi_worker:ranks_malformed', '%s: %s' % (uid, task['ranks']))
            for other, rs in held.items():
                if got & rs:
                    res.fail('mpi_worker:rank_given_twice', '%s and %s share %s' % (uid, other, got & rs))
            held[uid] = got
            par = max(par, len(held))
            for rank in task['ranks']:
                task['rank'] = rank
                queues.setdefault(str(rank), []).append([dict(task)])

        for uid, (ok, val, nr, kind) in want.items():
            b = back.get(uid, [])
            if len(b) != 1:
                res.fail('mpi_worker:request_came_back_%s' % ('never' if not b else 'twice'),
                         '%s (%s, %d ranks)' % (uid, kind, nr))
                continue
            r = b[0]
            ret = r.get('exit_code')
            if ok and kind in NO_EXC:
                if ret != 0:
                    res.fail('mpi_worker:success_misreported', '%s (%s, %d ranks): exit %r stderr %r'
                             % (uid, kind, nr, ret, r.get('stderr')))
            elif ok:
                vals = r.get('return_value')
                vals = vals if nr > 1 or isinstance(vals, list) else [vals]
                if ret != 0 or list(vals) != [val] * nr:
                    res.fail('mpi_worker:success_misreported', '%s (%s, %d ranks): exit %r value %r '
                             'stderr %r' % (uid, kind, nr, ret, r.get('return_value'), r.get('stderr')))
            elif ret in (0, None) or (kind not in NO_EXC and not r.get('exception')):
                res.fail('mpi_worker:failure_misreported', '%s (%s, %d ranks): exit %r exception %r'
                         % (uid, kind, nr, ret, r.get('exception')))
        busy = resources._resources['cores'].count(wm.BUSY)
        if busy:
            res.fail('mpi_worker:ranks_busy_at_end', '%d of %d' % (busy, n_ranks))
        if counts['comm_new'] != counts['comm_free']:
            res.fail('mpi_worker:communicator_not_freed', str(counts))

        res.nontrivial = any(k.endswith(':mpi') and not k.startswith(('eval_ok', 'exec_ok', 'func_comm'))
                             for k in kinds) or par >= 2
        res.label('mpi_worker', *['mpi_worker:%s' % k for k in sorted(kinds)])
        if par >= 2:
            res.label('mpi_worker:requests_held_together')
        res.key = [case['ranks'], case['ops']]
    except Exception as e:                            # noqa
        res.fail(exc_sig('mpi_worker:harness_or_worker_raised', e), repr(e))
    finally:
        ru.zmq.Getter, ru.zmq.Putter = old_get, old_put
        os.chdir(old_cwd)
        os.environ.clear()
        os.environ.update(old_env)
    return res


# ------------------------------------------------------------------------------
# the allotment under concurrency: the task puller blocks in `_alloc` until the result pusher's
# `_dealloc` has made room.  Every placement of the pusher's steps between the puller's steps is
# enumerated (lock and event operations are the yield points).
#
class _Abandon(BaseException):
    pass


class _YEvent(object):
    def __init__(self, baton):
        self.baton, self.flag = baton, False

    def _yield(self, tag):
        if self.baton.closing:
            raise _Abandon()                          # the case is over: a waiting thread gives up
        self.baton.yield_point(tag)

    def is_set(self):
        self._yield('evt:is_set')
        return self.flag

    def set(self):
        self._yield('evt:set')
        self.flag = True

    def clear(self):
        self._yield('evt:clear')
        self.flag = False

    def wait(self, timeout=None):
        self._yield('evt:wait')
        return self.flag


def alloc_race_cases(tier):
    for n in (1, 2, 3):
        for need in range(1, n + 1):
            for holders in (1, 2):
                if holders > n:
                    continue
                for k1 in range(0, 14):
                    for k2 in ((0,) if holders == 1 else (0, 3, 9)):
                        yield {'kind': 'mpi_alloc_race', 'ranks': n, 'need': need, 'holders': holders,
                               'k1': k1, 'k2': k2}


def run_alloc_race(case):
    from .detsched import Baton
    from .execsim import FakeLock
    res = CaseResult()
    res.label('mpi_alloc_race')
    n, need, holders = int(case['ranks']), int(case['need']), int(case['holders'])
    baton = Baton()
    log = prof = _Quiet()
    r = wm._Resources(log, prof, n)
    # the worker is fully occupied by `holders` running requests
    held = []
    per = n // holders
    for h in range(holders):
        cnt = per if h < holders - 1 else n - per * (holders - 1)
        t = {'uid': 'held.%d' % h, 'description': {'ranks': cnt}}
        t['ranks'] = r._alloc(t)
        t['rank'] = t['ranks'][0]
        held.append(t)
    r._res_lock = FakeLock(baton, 'res_lock')
    evt = _YEvent(baton)
    evt.flag = r._res_evt.is_set()
    r._res_evt = evt
    new = {'uid': 'req.new', 'description': {'ranks': need}}
    out = {}
    try:
        baton.spawn('puller', lambda: out.setdefault('ranks', r._alloc(new)))
        for i, t in enumerate(held):
            baton.spawn('pusher.%d' % i, lambda t=t: r._dealloc(t))

        def run(name, steps):
            for _ in range(steps):
                ct = baton.threads[name]
                if ct.done:
                    return
                b = getattr(ct, 'blocked', None)
                if b is not None and b.held():
                    return
                baton.resume(name)

        def finish(name):
            for _ in range(400):
                ct = baton.threads[name]
                if ct.done:
                    return True
                b = getattr(ct, 'blocked', None)
                if b is not None and b.held():
                    run('puller', 1)                  # whoever holds the lock moves on
                    continue
                baton.resume(name)
            return baton.threads[name].done

        run('puller', int(case['k1']))
        if not finish('pusher.0'):
            res.fail('mpi_alloc_race:dealloc_stuck', str(case))
        if holders == 2:
            run('puller', int(case['k2']))
            if not finish('pusher.1'):
                res.fail('mpi_alloc_race:dealloc_stuck', str(case))
        # everything the request needs is free now: it is placed
        for _ in range(600):
            if baton.threads['puller'].done:
                break
            baton.resume('puller')
        ct = baton.threads['puller']
        if not ct.done:
            res.fail('mpi_alloc_race:request_never_placed',
                     '%d of %d ranks free, the request needs %d and still waits (puller preempted '
                     'after %s steps)' % (r._resources['cores'].count(wm.FREE), n, need, case['k1']))
        elif ct.exc is not None:
            res.fail(exc_sig('mpi_alloc_race:alloc_raised', ct.exc), repr(ct.exc))
        elif len(set(out.get('ranks') or [])) != need:
            res.fail('mpi_alloc_race:ranks_malformed', str(out))
        res.nontrivial = int(case['k1']) > 0
    finally:
        try:
            baton.finish_all()
        except Exception:
            pass
    return res
