"""C13 - A dying pilot fails its own tasks and only those.  (DESIGN.md 4/C13)

Drive : hollow TaskManager (real add_pilots / submit_tasks / _update_tasks /
        _pilot_state_cb), real Task objects, real Pilot objects (real ctor,
        real _update which fires the callback add_pilots registered).
Oracle: after each pilot update: tasks bound to a pilot that just became final
        and that were not final -> FAILED, explanation names the pilot; every
        other task keeps state and exception.
"""
from hypothesis import strategies as st

from . import boot                                    # noqa: F401
from . import c13_close
from .runner import CaseResult, Part
from .hollow import HollowSession, HollowPmgr, hollow_tmgr, real_pilot

import radical.pilot        as rp
import radical.pilot.states as rps

PID  = 'C13'
RULE = ('cases = (2-4 pilots, 1-12 tasks each unbound or bound to a pilot and driven to a '
        'generated state of the task model through the real update path, then a generated '
        'order of pilot state notifications incl. finals); non-trivial = >=2 pilots holding '
        'non-final tasks each, plus >=1 unbound task and >=1 already-final task, and >=1 pilot '
        'ends; distinct = canonical (task bindings+states, pilot event order)')
ASSUMPTIONS = [
    'TaskManager is built hollow (constructor fields copied, no components/bridges); '
    'Pilot objects come from the real constructor on a hollow pilot manager',
    'transport = in-memory pubsub with msgpack round trip, delivered synchronously',
    'radical.utils.get_version shim (src/radical/pilot/VERSION absent in this tree)']

T_STATES = [s for s, _ in sorted(rps._task_state_values.items(), key=lambda x: x[1])
            if s is not None and s not in rps.FINAL] + list(rps.FINAL)
T_UNBOUND = [rps.TMGR_SCHEDULING_PENDING, rps.TMGR_SCHEDULING,
             rps.FAILED, rps.CANCELED]
P_ORDER = [rps.NEW, rps.PMGR_LAUNCHING_PENDING, rps.PMGR_LAUNCHING,
           rps.PMGR_ACTIVE_PENDING, rps.PMGR_ACTIVE]


@st.composite
def cases(draw):
    n_p = draw(st.integers(2, 4))
    rich = draw(st.booleans())
    n_t = draw(st.integers(4 if rich else 1, 12))
    tasks = []
    for i in range(n_t):
        if rich and i < 4:
            # construct the interesting shape instead of hoping for it
            bound = [0, 1, None, draw(st.integers(0, n_p - 1))][i]
        else:
            bound = draw(st.one_of(st.none(), st.integers(0, n_p - 1), st.integers(0, n_p - 1)))
        if rich and i < 2:
            tasks.append({'pilot': bound, 'named': draw(st.booleans()),
                          'state': draw(st.sampled_from(T_STATES[1:-3]))})
            continue
        if rich and i == 3:
            tasks.append({'pilot': bound, 'named': draw(st.booleans()),
                          'state': draw(st.sampled_from(list(rps.FINAL)))})
            continue
        if bound is None:
            state = draw(st.sampled_from(T_UNBOUND))
            named = False
        else:
            state = draw(st.sampled_from(T_STATES[1:]))
            named = draw(st.booleans())        # named in description vs bound by update
        tasks.append({'pilot': bound, 'state': state, 'named': named})
    for t in tasks:
        if t['pilot'] is not None and t.get('named') and draw(st.integers(0, 2)) == 0:
            t['raptor'] = True
        elif t['pilot'] is not None and t.get('named') and n_p >= 2 and draw(st.integers(0, 3)) == 0:
            # a raptor master handed to its pilot through Pilot.submit_raptors, from a description
            # which was used before and still names another pilot
            t['master'] = True
    for t in tasks:
        # tasks which were placed carry their slots in the record the client receives: in the
        # agent scheduler's format, or - for a task a raptor worker ran - the worker's short form
        if t['pilot'] is not None and t['state'] not in rps.FINAL and draw(st.integers(0, 2)) == 0:
            t['slots'] = 'raptor' if t.get('raptor') and draw(st.booleans()) else \
                         draw(st.sampled_from(['v1', 'raptor', 'old']))
    for t in tasks:
        # a task whose executable failed carries that error already while it is still on its way
        # through output staging (not final yet)
        if t['pilot'] is not None and t['state'] not in rps.FINAL and draw(st.integers(0, 3)) == 0:
            t['prior_exc'] = True
    events = draw(st.lists(
        st.tuples(st.integers(0, n_p - 1),
                  st.sampled_from(['step', 'step', 'DONE', 'FAILED', 'CANCELED', 'remove']),
                  st.booleans()),      # full pilot document (as advance publishes finals) or short form
        min_size=1, max_size=10))
    return {'kind': 'pilots', 'n_pilots': n_p, 'tasks': tasks,
            'events': [list(e) for e in events]}


def parts(tier):
    return [Part('pilot_end_histories', cases(), quick=600, thorough=6000),
            Part('pilot_manager_closed', c13_close.cases(), quick=200, thorough=2000)]


def run_case(case):
    if case.get('kind') == 'pmgr_close':
        return c13_close.run(case)
    res  = CaseResult()
    sess = HollowSession()
    tm   = hollow_tmgr(sess)
    pm   = HollowPmgr(sess)
    pm._call_pilot_callbacks = lambda pilot: None

    n_p = max(1, int(case['n_pilots']))
    pilots = [real_pilot(pm, 'pilot.%04d' % i) for i in range(n_p)]
    tm.add_pilots(pilots)
    if case.get('app_cb', True):
        # the application watches its pilots, too: a method of one of its objects, registered
        # after the pilots were handed to the task manager
        class _App(object):
            def __init__(self):
                self.seen = []

            def on_pilot(self, pilots, state=None):       # (the form Pilot._update calls)
                self.seen.append(([p.uid for p in pilots], state))
        app = _App()
        for p in pilots:
            p.register_callback(app.on_pilot)
        res.label('application_method_registered_as_pilot_callback')

    def bound_pid(k):
        t = case['tasks'][k]
        p = t['pilot']
        if p is None:
            return None
        if not t['named'] and t['state'] in (rps.TMGR_SCHEDULING_PENDING,
                                             rps.TMGR_SCHEDULING):
            return None         # binding only happens when leaving TMGR_SCHEDULING
        return pilots[p % n_p].uid

    # --- tasks into their states through the real notification path
    tds = []
    for i, t in enumerate(case['tasks']):
        d = {'uid': 'task.%06d' % i, 'executable': '/bin/true'}
        if t['pilot'] is not None and t['named']:
            d['pilot'] = pilots[t['pilot'] % n_p].uid
            if t.get('raptor'):
                # a task addressed to a raptor master running on that pilot
                d['raptor_id'] = 'raptor.0000'
                res.label('bound_task_addressed_to_raptor_master')
        if t['pilot'] is not None and t['named'] and t.get('master') and n_p >= 2:
            d['mode']  = rp.RAPTOR_MASTER
            d['pilot'] = pilots[(t['pilot'] + 1) % n_p].uid      # left over from an earlier use
            d['_via_pilot'] = t['pilot'] % n_p
        tds.append(d)
    tasks = [None] * len(tds)
    try:
        plain = [(i, d) for i, d in enumerate(tds) if '_via_pilot' not in d]
        if plain:
            for (i, _), task in zip(plain, tm.submit_tasks([rp.TaskDescription(d) for _, d in plain])):
                tasks[i] = task
        for i, d in enumerate(tds):
            if '_via_pilot' in d:
                k = d.pop('_via_pilot')
                got = pilots[k].submit_raptors(rp.TaskDescription(d))
                tasks[i] = got[0] if isinstance(got, list) else got
                res.label('raptor_master_submitted_through_its_pilot')
    except Exception as e:                      # noqa
        from .runner import exc_sig
        res.fail(exc_sig('setup:submit_raised', e), repr(e))
        return res
    seen_setup = []
    for t, task in zip(case['tasks'], tasks):
        upd = {'uid': task.uid, 'type': 'task', 'state': t['state']}
        if bound_pid(len(seen_setup)) is not None:
            upd['pilot'] = bound_pid(len(seen_setup))
        seen_setup.append(task.uid)
        if t['state'] == rps.FAILED:
            upd['exception'] = 'RuntimeError("own failure")'
            upd['exception_detail'] = 'failed on its own'
        elif t.get('prior_exc') and t['state'] not in rps.FINAL:
            upd['exception'] = 'RuntimeError("task failed")'
            upd['exception_detail'] = 'exit code: 1'
            res.label('nonfinal_task_with_recorded_error')
        if t.get('slots') and t['state'] in (rps.AGENT_EXECUTING, rps.AGENT_STAGING_OUTPUT_PENDING,
                                             rps.AGENT_STAGING_OUTPUT, rps.TMGR_STAGING_OUTPUT_PENDING,
                                             rps.TMGR_STAGING_OUTPUT):
            if t['slots'] == 'raptor':
                upd['slots'] = [{'cores': [1], 'gpus': []}]            # raptor/worker_default.py
            elif t['slots'] == 'old':
                upd['slots'] = [{'node_name': 'n0', 'node_index': 0, 'cores': [0, 1], 'gpus': [],
                                 'lfs': 0, 'mem': 0}]
            else:
                upd['slots'] = [{'version': 1, 'node_name': 'n0', 'node_index': 0,
                                 'cores': [{'index': 0, 'occupation': 1.0}], 'gpus': [],
                                 'lfs': 0, 'mem': 0}]
            res.label('bound_task_with_slots:%s' % t['slots'])
        if task.state != t['state'] or 'slots' in upd:
            tm._update_tasks([upd])
        if task.state != t['state']:
            # could not even be set up: the model under test refused a forward move
            res.fail('setup:state_not_reached', '%s wanted %s got %s'
                     % (task.uid, t['state'], task.state))
            return res

    ended = set()
    removed = set()
    removed_then_ended = False
    nt_alive_pilots = set()
    for k, task in enumerate(tasks):
        if bound_pid(k) and task.state not in rps.FINAL:
            nt_alive_pilots.add(bound_pid(k))
    has_unbound = any(bound_pid(k) is None for k in range(len(tasks)))
    has_final   = any(t['state'] in rps.FINAL for t in case['tasks'])
    n_ends = 0

    for event in case['events']:
        idx, ev = event[0], event[1]
        full = bool(event[2]) if len(event) > 2 else False
        p = pilots[idx % n_p]
        if p.uid in ended:
            continue            # the pilot manager never updates a final pilot again
        if ev == 'remove':
            # the application takes the pilot off the task manager; its tasks stay bound to it
            # (what removal itself does to them is not judged here)
            if p.uid in tm._pilots:
                try:
                    tm.remove_pilots(p.uid)
                except Exception as e:              # noqa
                    from .runner import exc_sig
                    res.fail(exc_sig('remove_pilots_raised', e), repr(e))
                    return res
                removed.add(p.uid)
            continue
        cur = P_ORDER.index(p.state)
        if ev == 'step':
            if cur + 1 >= len(P_ORDER):
                continue
            tgts = [P_ORDER[cur + 1]]
        elif ev == rps.DONE:
            # DONE is reached through the model (the pilot manager fills gaps)
            tgts = P_ORDER[cur + 1:] + [rps.DONE]
        else:
            tgts = [ev]
        before = [(t.state, t.exception, t.exception_detail) for t in tasks]
        try:
            for tgt in tgts:
                if full:
                    # the whole pilot document, as the launcher / agent publish it with final
                    # states ('resources' is None until the pilot was prepared for launch)
                    doc = dict(p.as_dict(), state=tgt)
                    if p.state not in (rps.NEW, rps.PMGR_LAUNCHING_PENDING) and not doc.get('resources'):
                        doc['resources'] = {'cpu': 4, 'gpu': 0}
                    p._update(doc)
                else:
                    p._update({'uid': p.uid, 'type': 'pilot', 'state': tgt})
        except Exception as e:              # noqa
            from .runner import exc_sig
            res.fail(exc_sig('pilot_update_raised', e), repr(e))
            return res
        if tgt in rps.FINAL:
            ended.add(p.uid)
            n_ends += 1
            if p.uid in removed:
                removed_then_ended = True
        for k, task in enumerate(tasks):
            st0, ex0, exd0 = before[k]
            mine = (tgt in rps.FINAL and bound_pid(k) == p.uid
                    and st0 not in rps.FINAL)
            if mine:
                if task.state != rps.FAILED:
                    res.fail('own_task_not_failed:from=%s' % st0,
                             '%s bound to ended %s is %s' % (task.uid, p.uid, task.state))
                else:
                    text = '%s %s' % (task.exception, task.exception_detail)
                    if p.uid not in text:
                        res.fail('explanation_lacks_pilot',
                                 '%s: %r' % (task.uid, text))
            else:
                if task.state != st0:
                    why = ('unbound' if bound_pid(k) is None else
                           'final' if st0 in rps.FINAL else
                           'other_pilot' if bound_pid(k) != p.uid else 'nonfinal_pilot_event')
                    res.fail('foreign_task_changed:%s' % why,
                             '%s (pilot %s, was %s) became %s when %s -> %s'
                             % (task.uid, bound_pid(k), st0, task.state, p.uid, tgt))
                elif (task.exception, task.exception_detail) != (ex0, exd0):
                    res.fail('foreign_task_exception_changed',
                             '%s: %r -> %r' % (task.uid, (ex0, exd0),
                                               (task.exception, task.exception_detail)))

    res.nontrivial = (len(nt_alive_pilots) >= 2 and has_unbound and has_final
                      and n_ends >= 1)
    res.label('ends=%d' % min(n_ends, 3), 'pilots=%d' % n_p)
    if n_ends >= 2:
        res.label('multi_end')
    if removed_then_ended:
        res.label('pilot_removed_from_tmgr_before_its_end')
    res.key = {'t': [(t['pilot'], t['state']) for t in case['tasks']],
               'e': case['events'], 'n': n_p}
    if any(len(e) > 2 and e[2] for e in case['events']):
        res.label('full_pilot_document')
    return res
