"""generators and result mapping shared by C01-C04 (scheduler-pair histories)"""
from hypothesis import strategies as st

from .runner import CaseResult

GPU_SHARES = [0.0, 0.0, 0.0, 0.0, 0.25, 0.5, 1.0 / 3, 1.0, 1.0, 2.0, 1.5]


@st.composite
def layouts(draw, big=False, jsrun=False):
    n = draw(st.integers(1, 8 if big else 6))
    c = draw(st.sampled_from([1, 2, 3, 4, 4, 6, 8, 8, 12, 16]))
    g = draw(st.sampled_from([0, 0, 1, 2, 2, 4]))
    lfs = draw(st.sampled_from([0, 100, 100, 1000]))
    mem = draw(st.sampled_from([0, 0, 128, 1024]))
    bc, bg = [], []
    if draw(st.integers(0, 3)) == 0 and c > 1:
        bc = draw(st.lists(st.integers(0, c - 1), min_size=1, max_size=min(3, c - 1),
                           unique=True))
    if g and draw(st.integers(0, 4)) == 0:
        bg = draw(st.lists(st.integers(0, g - 1), min_size=1, max_size=max(1, g - 1),
                           unique=True))
    return {'nodes': n, 'cores': c, 'gpus': g, 'lfs': lfs, 'mem': mem,
            'blocked_cores': bc, 'blocked_gpus': bg}


@st.composite
def task_specs(draw, layout, light=False, allow_bad=True, jsrun=False, heavy=False, colo=False,
               gpu_focus=False):
    c, g = layout['cores'], layout['gpus']
    spec = {}
    r = draw(st.integers(0, 40))
    if r == 0 and allow_bad:
        spec['ranks'] = draw(st.sampled_from([0, -1]))
    elif r < 24:
        spec['ranks'] = draw(st.integers(1, 3))
    else:
        spec['ranks'] = draw(st.integers(2, 12))
    r = draw(st.integers(0, 30))
    if r == 0:
        spec['cores_per_rank'] = 0
    elif r == 1:
        spec['cores_per_rank'] = c + 1
    else:
        spec['cores_per_rank'] = draw(st.integers(1, c))
    if g and gpu_focus:
        spec['gpus_per_rank'] = draw(st.sampled_from([0.25, 0.5, 0.5, 1.0 / 3, 1.0, 0.0]))
    elif g:
        spec['gpus_per_rank'] = draw(st.sampled_from(GPU_SHARES))
        if jsrun and 0 < spec['gpus_per_rank'] < 1:
            # resource sets: several ranks share the GPUs of one set (1/2, 1/4 of a GPU per rank)
            spec['gpus_per_rank'] = draw(st.sampled_from([0.5, 0.5, 0.25, 1.0]))
            if spec['gpus_per_rank'] < 1:
                k = int(round(1 / spec['gpus_per_rank']))
                spec['ranks'] = max(k, (spec['ranks'] // k) * k) if spec['ranks'] > 0 else spec['ranks']
    elif draw(st.integers(0, 25)) == 0:
        spec['gpus_per_rank'] = 1.0
    if not light:
        if layout['lfs'] and draw(st.integers(0, 0 if heavy else 3)) == 0:
            spec['lfs_per_rank'] = draw(st.sampled_from(
                [layout['lfs'] // 5, layout['lfs'] // 4, layout['lfs'] // 3,
                 layout['lfs'] // 2, layout['lfs'] // 2 + 1,
                 layout['lfs'], layout['lfs'] + 1]))
        if layout['mem'] and draw(st.integers(0, 1 if heavy else 3)) == 0:
            spec['mem_per_rank'] = draw(st.sampled_from(
                [layout['mem'] // 5, layout['mem'] // 4, layout['mem'] // 3,
                 layout['mem'] // 2, layout['mem'] // 2 + 1,
                 layout['mem'], layout['mem'] + 1]))
        if not jsrun and draw(st.integers(0, 5)) == 0:
            spec['ranks_per_node'] = draw(st.sampled_from([1, 2]))
        if draw(st.integers(0, 1 if colo else 7)) == 0:
            spec['colocate'] = draw(st.sampled_from(['a', 'b', 'c', 0, 1]))   # integer tags (range(n)) are common; 0 is falsy
            spec['exclusive'] = draw(st.booleans())
    if draw(st.integers(0, 3)) == 0:
        spec['priority'] = draw(st.integers(-1, 2))
    if draw(st.integers(0, 7)) == 0:
        spec['old_names'] = True      # written with the deprecated attribute names
    return spec


@st.composite
def histories(draw, max_ops=40, big=False, cls='continuous', scattered=None,
              app=True, light=False, named_env=False, allow_bad=True, heavy=False, colo=False,
              gpu_focus=False, blocked_focus=False):
    jsrun = (cls == 'jsrun')
    layout = draw(layouts(big=big, jsrun=jsrun))
    if blocked_focus:
        # blocked cores (and GPUs) on every node, in the middle of the free ones
        layout['cores'] = max(layout['cores'], 4)
        if not layout['blocked_cores']:
            layout['blocked_cores'] = draw(st.lists(st.integers(0, layout['cores'] - 2), min_size=1,
                                                    max_size=2, unique=True))
        if layout['gpus'] >= 2 and not layout['blocked_gpus'] and draw(st.booleans()):
            layout['blocked_gpus'] = [draw(st.integers(0, layout['gpus'] - 1))]
    if heavy:
        layout['lfs'] = layout['lfs'] or 1000
        layout['mem'] = layout['mem'] or 1024
        layout['cores'] = max(layout['cores'], 4)
    if colo:
        # colocate-focused: several nodes, so that a tag's node and the node the search would
        # start at differ
        layout['nodes'] = max(layout['nodes'], 3)
    if gpu_focus:
        # GPU-share focused: every node has GPUs, some of them blocked, most tasks ask for shares
        layout['gpus'] = max(layout['gpus'], 2)
        if not layout['blocked_gpus'] and not jsrun:
            layout['blocked_gpus'] = draw(st.lists(st.integers(0, layout['gpus'] - 1), min_size=1,
                                                   max_size=layout['gpus'] - 1, unique=True))
    spec = task_specs(layout, light=light, allow_bad=allow_bad, jsrun=jsrun, heavy=heavy, colo=colo,
                      gpu_focus=gpu_focus)
    ops = []
    n_ops = draw(st.integers(3, max_ops))
    for _ in range(n_ops):
        k = draw(st.integers(0, 19))
        if k < 7:
            bulk = draw(st.lists(spec, min_size=1, max_size=6))
            if named_env and draw(st.integers(0, 5)) == 0:
                for s in bulk[:2]:
                    s['named_env'] = 'env1'
            ops.append(['submit', bulk])
        elif k < 10:
            ops.append(['finish', draw(st.integers(0, 7))])
        elif k < 11:
            ops.append(['finish_bulk', draw(st.integers(0, 7)), draw(st.integers(2, 4))])
        elif k < 13:
            if draw(st.integers(0, 2)) == 0:
                # the request arrives while the tasks still sit in the scheduler's input queue
                ops.append(['submit_cancel', draw(st.lists(spec, min_size=1, max_size=4)),
                            draw(st.lists(st.integers(0, 3), min_size=1, max_size=2))])
            else:
                ops.append(['cancel', draw(st.lists(st.integers(0, 40), min_size=1, max_size=3))])
        elif k < 16:
            ops.append(['step', draw(st.integers(1, 12))])
        elif k < 18:
            ops.append(['settle'])
        elif k == 18 and app and not jsrun:
            s = draw(task_specs(layout, light=True, allow_bad=False))
            s['ranks'] = max(1, min(s.get('ranks') or 1, 4))
            s['cores_per_rank'] = max(1, min(s['cores_per_rank'], layout['cores']))
            if (s.get('gpus_per_rank') or 0) > 1:
                s['gpus_per_rank'] = 1.0
            ops.append(['submit_app', s])
        elif named_env:
            ops.append(['env', 'env1'])
        else:
            ops.append(['settle'])
    sc = draw(st.booleans()) if scattered is None else scattered
    case = {'kind': 'history', 'cls': cls, 'scattered': sc, 'layout': layout,
            'ops': ops, 'drain': draw(st.lists(st.integers(0, 5), max_size=6))}
    if cls == 'reconfig':
        # CONTINUOUS_RECONFIG: a file names the shape (ranks, cores per rank) every incoming task
        # is given; either entry may be missing
        case['reconfig'] = {'ranks': draw(st.sampled_from([None, 1, 1, 2, 3])),
                            'cores_per_rank': draw(st.sampled_from([None, 1, 1, 2,
                                                                    max(1, min(4, layout['cores']))]))}
    return case


def normalise(case):
    """repair candidates of the minimiser: ops must stay well-formed"""
    try:
        ops = []
        for op in case.get('ops', []):
            if not isinstance(op, list) or not op:
                continue
            if op[0] in ('submit',) and (len(op) < 2 or not isinstance(op[1], list)
                                         or not op[1]):
                continue
            if op[0] in ('submit_app',) and (len(op) < 2 or not isinstance(op[1], dict)):
                continue
            if op[0] == 'finish_bulk' and len(op) < 3:
                continue
            if op[0] in ('finish', 'step') and len(op) < 2:
                continue
            if op[0] == 'cancel' and (len(op) < 2 or not op[1]):
                continue
            if op[0] == 'submit_cancel' and (len(op) < 3 or not isinstance(op[1], list) or not op[1]
                                             or not isinstance(op[2], list) or not op[2]):
                continue
            if op[0] == 'env' and len(op) < 2:
                continue
            ops.append(op)
        case = dict(case)
        case['ops'] = ops
        lay = case['layout']
        if lay['nodes'] < 1 or lay['cores'] < 1:
            return None
        return case
    except Exception:
        return None


def to_result(sim, prop, nontrivial, key=None):
    res = CaseResult()
    seen = set()
    for p, sig, msg in sim.problems:
        if p != prop or (sig, msg) in seen:
            continue
        seen.add((sig, msg))
        res.fail(sig, msg)
    res.nontrivial = bool(nontrivial)
    for l in sorted(sim.labels):
        res.label(l)
    return res
