"""C20 part (b2): the agent scheduler's raptor forwarding, composed with hollow
masters: AgentSchedulingComponent.work / _schedule_incoming (raptor branch) /
control_cb (register_raptor_queue, unregister_raptor_queue).

Placement is NOT the subject here (C01-C04): the scheduler is a hollow subclass
whose schedule_task() grants every request and records it - "scheduled here"
stands for "the pilot's normal execution path".  Everything that decides where
a task goes is the real code.
"""
import queue
import collections
import threading as mt

from . import boot                                    # noqa: F401
from .runner import CaseResult, exc_sig
from .memnet import Net
from .hollow import HollowSession, comp_cfg
from . import c20_master

import radical.pilot as rp
import radical.pilot.states    as rps
import radical.pilot.constants as rpc
from radical.pilot.agent.scheduler.base import AgentSchedulingComponent
from radical.pilot.task_description import RAPTOR_WORKER

MODES = dict(c20_master.MODES)
MODES['worker'] = RAPTOR_WORKER


class _Q(object):
    """mp.Queue as the scheduler loop uses it"""
    def __init__(self):
        self.items = collections.deque()

    def put(self, x):
        self.items.append(x)

    def get(self, block=True, timeout=None):
        if not self.items:
            raise queue.Empty()
        return self.items.popleft()


class HollowSched(AgentSchedulingComponent):

    def initialize(self):
        # fields of AgentSchedulingComponent.initialize() and of the preamble of
        # _schedule_tasks() (the forked scheduler process), without RM / fork
        self._waitpool   = collections.defaultdict(dict)
        self._ts_map     = collections.defaultdict(set)
        self._ts_valid   = False
        self._active_cnt = 0
        self._named_envs = list()
        self._queue_sched   = _Q()
        self._queue_unsched = _Q()
        self._term          = mt.Event()
        self._scheduler_process = True
        self._raptor_queues = dict()
        self._raptor_tasks  = dict()
        self._raptor_lock   = mt.Lock()
        self.register_output(rps.AGENT_EXECUTING_PENDING, rpc.AGENT_EXECUTING_QUEUE)
        self.c20_local = []

    def _configure(self):
        pass

    def schedule_task(self, task):
        self.c20_local.append(task['uid'])
        return [{'node_name': 'n0', 'node_index': 0, 'cores': [0], 'gpus': [],
                 'lfs': 0, 'mem': 0}], None

    def unschedule_task(self, task):
        pass

    def _change_slot_states(self, slots, new_state):
        pass

    def slot_status(self, msg=None, uid=None):
        pass


def hollow_sched(sess):
    cfg = comp_cfg(sess, 'agent.scheduling.0000')
    s = HollowSched(cfg, sess)
    s._initialize()
    return s


def norm_rid(x, n_masters):
    if x is None or x == 'none':
        return None
    if x == '*':
        return '*'
    return 'master.%04d' % (int(x) % n_masters)


# ------------------------------------------------------------------------------
def run_sched_case(case):
    res  = CaseResult()
    net  = Net()
    sess = HollowSession(net=net, module='agent', ns='agent')
    sched = hollow_sched(sess)
    n_m  = max(1, min(3, int(case.get('masters', 2))))
    ctrl = sess._reg['bridges.%s' % rpc.CONTROL_PUBSUB]['addr_pub']

    masters  = {}          # name -> hollow master (created at first registration)
    in_q     = {}          # name -> queue url
    reg      = set()       # currently registered
    where    = {}          # uid -> list of places, in order
    spec     = {}
    n_task   = [0]
    failed   = {}

    def place(uid, what):
        where.setdefault(uid, []).append(what)

    def scan_log(n0):
        """classify what the scheduler did since log position n0"""
        for ev in net.log[n0:]:
            if ev[0] == 'put':
                for name, url in in_q.items():
                    if ev[1] == url:
                        for t in ev[3]:
                            place(t['uid'], 'fwd:' + name)
                if rpc.AGENT_EXECUTING_QUEUE in ev[1]:
                    for t in ev[3]:
                        place(t['uid'], 'exec')
            elif ev[0] == 'pub' and rpc.STATE_PUBSUB in ev[1] \
                    and isinstance(ev[3], dict) and ev[3].get('cmd') == 'update':
                for t in ev[3]['arg']:
                    if t.get('state') == rps.FAILED and t.get('uid') in spec:
                        place(t['uid'], 'failed')
            elif ev[0] == 'cb_error':
                res.fail(exc_sig('control_cb_raised', ev[3]), repr(ev[3]))

    def sched_step(tasks):
        n0 = len(net.log)
        try:
            sched.work(tasks)
            sched._schedule_incoming()
        except Exception as e:       # noqa
            res.fail(exc_sig('schedule_incoming_raised', e), repr(e))
        scan_log(n0)

    def pump():
        """masters take what was forwarded to them; executables they push to the
        agent staging input queue come back to the scheduler (the stager between
        them only changes the state)"""
        for _ in range(4):
            moved = False
            for name in sorted(masters):
                got = net.q_get(in_q[name], 'default')
                if got:
                    moved = True
                    try:
                        masters[name]._request_cb(got)
                    except Exception as e:       # noqa
                        res.fail(exc_sig('master_request_cb_raised', e), repr(e))
            back = []
            for url in list(net.queues):
                if rpc.AGENT_STAGING_INPUT_QUEUE in url:
                    back += net.q_get(url, 'default')
            if back:
                moved = True
                for t in back:
                    place(t['uid'], 'master_to_pilot')
                    t['state'] = rps.AGENT_SCHEDULING_PENDING
                sched_step(back)
            for name in sorted(masters):
                for t in net.q_get(masters[name].c20_req_url, 'default'):
                    place(t['uid'], 'master_to_worker')
            if not moved:
                break

    for op in case.get('ops') or []:
        if not isinstance(op, list) or not op or res.problems:
            continue
        kind = op[0]
        if kind == 'tasks':
            tasks = []
            for t in op[1] if len(op) > 1 and isinstance(op[1], list) else []:
                if not isinstance(t, dict):
                    continue
                uid  = 'task.%06d' % n_task[0]
                n_task[0] += 1
                mode = MODES.get(t.get('mode'), rp.TASK_EXECUTABLE)
                rid  = norm_rid(t.get('rid'), n_m)
                d = {'uid': uid, 'mode': mode}
                if   mode in (rp.TASK_EXECUTABLE, rp.TASK_PROC, RAPTOR_WORKER):
                    d['executable'] = '/bin/true'
                elif mode == rp.TASK_FUNC : d['function'] = 'hello'
                elif mode == rp.TASK_SHELL: d['command'] = 'true'
                else: d['code'] = '1'
                if rid:
                    d['raptor_id'] = rid
                td = rp.TaskDescription(d)
                td.verify()
                spec[uid] = {'rid': rid, 'mode': t.get('mode') if t.get('mode') in MODES
                             else 'executable', 'reg_at_arrival': set(reg)}
                tasks.append({'uid': uid, 'type': 'task', 'origin': 'client',
                              'state': rps.AGENT_SCHEDULING_PENDING,
                              'description': td.as_dict(), 'pilot': 'pilot.0000',
                              'pilot_sandbox': sess._cfg.base,
                              'task_sandbox': '%s/%s/' % (sess._cfg.base, uid),
                              'task_sandbox_path': '%s/%s/' % (sess._cfg.base, uid)})
            if tasks:
                sched_step(tasks)
        elif kind in ('register', 'unregister'):
            name = 'master.%04d' % (int(op[1]) % n_m if len(op) > 1 else 0)
            qname = '%s.input_queue' % name
            if name not in masters:
                masters[name] = c20_master.hollow_master(net, uid=name, sess=sess)
                in_q[name] = net.add_queue(qname, 'agent')['addr_put']
            n0 = len(net.log)
            if kind == 'register':
                msg = {'cmd': 'register_raptor_queue',
                       'arg': {'name': name, 'queue': qname, 'addr': in_q[name]}}
                reg.add(name)
            else:
                msg = {'cmd': 'unregister_raptor_queue',
                       'arg': {'name': name, 'queue': qname}}
                reg.discard(name)
            # published by the master, received by the scheduler's control subscriber
            net.publish(ctrl, rpc.CONTROL_PUBSUB, msg)
            scan_log(n0)
            for uid, s in spec.items():
                s.setdefault('events', []).append((kind, name))
        elif kind == 'pump':
            pump()

    if not res.problems:
        pump()
    backlog = {}
    for name, ts in sched._raptor_tasks.items():
        for t in ts:
            backlog.setdefault(t['uid'], []).append(name)

    # ---- oracle: every task is in exactly one place, and it is the right one
    n_fwd = n_back = n_failed = n_local = 0
    for uid, s in spec.items():
        if res.problems:
            break
        w    = where.get(uid, [])
        rid, mode = s['rid'], s['mode']
        fwd  = [x for x in w if x.startswith('fwd:')]
        if not rid or mode == 'worker':
            # the pilot's own business: scheduled here, once, never shown to a master
            if fwd or uid in backlog:
                res.fail('plain_task_sent_to_raptor:%s' % ('worker' if mode == 'worker' else 'no_raptor_id'),
                         '%s: %s' % (uid, w))
            if w.count('exec') != 1 or sched.c20_local.count(uid) != 1:
                res.fail('plain_task_not_scheduled_once', '%s: %s' % (uid, w))
            n_local += 1
            continue
        if 'failed' in w:
            n_failed += 1
            if fwd or w.count('failed') != 1 or uid in backlog or 'exec' in w:
                res.fail('failed_request_also_elsewhere', '%s: %s backlog=%s' % (uid, w, backlog.get(uid)))
            continue
        if uid in backlog:
            n_back += 1
            if fwd or len(backlog[uid]) != 1 or 'exec' in w:
                res.fail('backlogged_request_also_elsewhere', '%s: %s backlog=%s' % (uid, w, backlog[uid]))
            if rid != '*' and rid in reg:
                res.fail('request_waits_for_registered_master', '%s -> %s' % (uid, rid))
            if rid == '*' and reg:
                res.fail('request_waits_for_registered_master', '%s -> *' % uid)
            continue
        if len(fwd) != 1:
            res.fail('request_forwarded_%s' % ('never' if not fwd else 'twice'),
                     '%s (raptor_id %s): %s' % (uid, rid, w))
            continue
        n_fwd += 1
        if rid != '*' and fwd[0] != 'fwd:' + rid:
            res.fail('request_forwarded_to_wrong_master', '%s (raptor_id %s): %s' % (uid, rid, w))
        # ... and behind the master: executables come back and run here once,
        # everything else goes to the master's workers once
        if mode == 'executable':
            if w.count('master_to_pilot') != 1 or w.count('exec') != 1 \
                    or sched.c20_local.count(uid) != 1 or 'master_to_worker' in w:
                res.fail('executable_request_not_run_by_pilot_once', '%s: %s' % (uid, w))
        else:
            if w.count('master_to_worker') != 1 or 'exec' in w or 'master_to_pilot' in w:
                res.fail('function_request_not_given_to_workers_once:%s' % mode,
                         '%s: %s' % (uid, w))

    for uid in where:
        if uid not in spec:
            res.fail('unknown_task_seen', uid)

    res.nontrivial = (n_fwd >= 1 and (n_back + n_failed) >= 1 and n_local >= 1)
    res.label('sched:forwarded=%s' % min(n_fwd, 3), 'sched:backlog_left=%s' % min(n_back, 2),
              'sched:failed_on_unregister=%s' % min(n_failed, 2))
    if any(s['rid'] == '*' for s in spec.values()):
        res.label('sched:any_master')
    flushed = [u for u, s in spec.items() if s['rid'] and s['mode'] != 'worker'
               and s['rid'] != '*' and s['rid'] not in s['reg_at_arrival']
               and any(x.startswith('fwd:') for x in where.get(u, []))]
    if flushed:
        res.label('sched:backlog_flushed_on_registration')
    res.key = {'k': 'sched', 'c': case.get('ops'), 'm': n_m}
    return res
