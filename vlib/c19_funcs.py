"""C19 part 2 - function payloads: encode (PythonTask / @pythontask / serializer),
transport inside a TaskDescription, decode and application by the real raptor
worker dispatcher (`Worker._dispatch_func`: `to_call(*args, **kwargs)`).

Cases are plain JSON: a function is an index into POOL (plus generated
constants that builders close over / bind), arguments are JSON-like values with
a small tag syntax for tuple / bytes / set.
"""
import os
import copy
import math                                            # noqa: F401
import asyncio
import inspect
import functools

from hypothesis import strategies as st

from . import boot
from .runner import exc_sig
from .c19_desc import same, wire

import radical.pilot as rp

from radical.pilot.utils import (serialize_obj, deserialize_obj,
                                 serialize_bson, deserialize_bson)
from radical.pilot.utils.serializer import SerializationError
from radical.pilot.raptor.worker import Worker


# ------------------------------------------------------------------------------
# module level callables (pickled by reference)
#
def m_pair(a, b):
    return [a, b]


def m_scale(x, factor=2, offset=0):
    return x * factor + offset


def m_collect(*args, **kwargs):
    return [list(args), sorted(kwargs.items(), key=lambda kv: kv[0])]


def m_kwonly(a, *, key='k', flag=False):
    return {'a': a, 'key': key, 'flag': flag}


def m_boom(x):
    raise KeyError(x)


def m_div(a, b):
    return a / b


def m_fact(n):
    return 1 if n <= 1 else n * m_fact(n - 1)


def m_append(lst, x):
    lst.append(x)
    return lst


def m_types(x):
    return (x, b'\x00\xff', {1, 2}, (None,))


async def m_aecho(x, tag='t'):
    await asyncio.sleep(0)
    return [tag, x]


class Accum(object):
    def __init__(self, c):
        self.c = c

    def __call__(self, x):
        return [self.c, x]

    def add(self, x, twice=False):
        return [self.c, x, x] if twice else [self.c, x]

    @classmethod
    def make(cls, x):
        return [cls.__name__, x]

    @staticmethod
    def stat(x, y=1):
        return [x, y]


def make_adder(c):
    def inner(x):
        return [c, x]
    return inner


def make_fmt(c0, c1):
    def inner(x, sep='-'):
        return '%s%s%s%s' % (c0, sep, x, c1)
    return inner


def make_const(c):
    def inner():
        return c
    return inner


def make_rebindable(c):
    """a closure whose captured value the application changes after the function was decorated
    (a counter / configuration value / helper bound later in the enclosing scope)"""
    box = c

    def inner(x):
        return [box, x]

    def rebind(v):
        nonlocal box
        box = v
    return inner, rebind


def make_counter(c):
    """a callable with state of its own which it changes when called: every decode of the
    encoded function starts from the encoded state"""
    seen = [c]

    def inner(x):
        seen.append(x)
        return [len(seen), seen[0]]
    return inner


def make_nested(c0, c1):
    def outer(x):
        def innermost(y):
            return [c0, c1, x, y]
        return innermost
    return outer(c1)


# callables which are pickled *by value* including the globals they use: the
# application script case (functions of `__main__`), the usual raptor setting
_MAIN_SRC = '''
import math
K = 7
def helper(x):
    return x * K
def mainf(x, y=2):
    return [helper(x), math.floor(y), K]
class Acc:
    def __init__(self, c):
        self.c = c
    def __call__(self, x, neg=False):
        return [self.c, x, neg]
mainl = lambda x, *rest, k=None: [x, list(rest), k, helper(1)]
'''
_MAIN_NS = {'__name__': '__main__'}
exec(compile(_MAIN_SRC, '<c19 application script>', 'exec'), _MAIN_NS)


def _unpicklable():
    return lambda m=memoryview(b'ab'): 1


# APPEND ONLY: replay files address this list by index.
# name, builder(n, a) [n: generated number, a: generated JSON-like], positional
# (min, max), accepted kwarg names (None = any), argument kind, has defaults
POOL = [
    ('m_pair',          lambda n, a: m_pair,                          (2, 2), [],                  'any', False),
    ('m_scale',         lambda n, a: m_scale,                         (1, 3), ['factor', 'offset'], 'num', True),
    ('m_collect',       lambda n, a: m_collect,                       (0, 4), None,                'any', False),
    ('m_kwonly',        lambda n, a: m_kwonly,                        (1, 1), ['key', 'flag'],     'any', True),
    ('lambda_id',       lambda n, a: (lambda x: x),                   (1, 1), [],                  'any', False),
    ('lambda_default',  lambda n, a: (lambda x, y=3: [x, y]),         (1, 2), ['y'],               'any', True),
    ('partial_kw',      lambda n, a: functools.partial(m_scale, factor=n), (1, 1), ['offset'],     'num', True),
    ('partial_pos',     lambda n, a: functools.partial(m_pair, a),    (1, 1), [],                  'any', False),
    ('closure',         lambda n, a: make_adder(a),                   (1, 1), [],                  'any', False),
    ('closure_default', lambda n, a: make_fmt(n, a),                  (1, 2), ['sep'],             'str', True),
    ('raises',          lambda n, a: m_boom,                          (1, 1), [],                  'str', False),
    ('divide',          lambda n, a: m_div,                           (2, 2), [],                  'num', False),
    ('builtin_sorted',  lambda n, a: sorted,                          (1, 1), ['reverse'],         'seq', True),
    ('builtin_len',     lambda n, a: len,                             (1, 1), [],                  'seq', False),
    ('bound_builtin',   lambda n, a: '-'.join,                        (1, 1), [],                  'sseq', False),
    ('callable_obj',    lambda n, a: Accum(a),                        (1, 1), [],                  'any', False),
    ('async',           lambda n, a: m_aecho,                         (1, 2), ['tag'],             'any', True),
    ('recursive',       lambda n, a: m_fact,                          (1, 1), [],                  'small', False),
    ('main_func',       lambda n, a: _MAIN_NS['mainf'],               (1, 2), ['y'],               'num', True),
    ('main_obj',        lambda n, a: _MAIN_NS['Acc'](a),              (1, 1), ['neg'],             'any', True),
    ('main_lambda',     lambda n, a: _MAIN_NS['mainl'],               (1, 3), ['k'],               'any', True),
    ('closure_noarg',   lambda n, a: make_const(a),                   (0, 0), [],                  'any', False),
    ('partial_full',    lambda n, a: functools.partial(m_pair, n, a), (0, 0), [],                  'any', False),
    ('closure_defonly', lambda n, a: (lambda c: (lambda x=c: [x]))(a), (0, 1), ['x'],              'any', True),
    ('partial_nested',  lambda n, a: functools.partial(functools.partial(m_scale, 2), factor=n),
                                                                      (0, 0), ['offset'],          'num', True),
    ('bound_method',    lambda n, a: Accum(a).add,                    (1, 1), ['twice'],           'any', True),
    ('classmethod',     lambda n, a: Accum.make,                      (1, 1), [],                  'any', False),
    ('staticmethod',    lambda n, a: Accum.stat,                      (1, 2), ['y'],               'any', True),
    ('type_dict',       lambda n, a: dict,                            (0, 0), None,                'any', False),
    ('mutates_arg',     lambda n, a: m_append,                        (2, 2), [],                  'lst', False),
    ('rich_result',     lambda n, a: m_types,                         (1, 1), [],                  'any', False),
    ('closure_nested',  lambda n, a: make_nested(n, a),               (1, 1), [],                  'any', False),
    ('closure_counter', lambda n, a: make_counter(a),                 (1, 1), [],                  'any', True),
    ('closure_rebound', lambda n, a: make_rebindable(n),              (1, 1), [],                  'any', True),
    ('unpicklable',     lambda n, a: _unpicklable(),                  (0, 0), [],                  'any', False),
]
NAMES = [p[0] for p in POOL]
UNPICKLABLE = NAMES.index('unpicklable')

VIAS = ['ctor3', 'ctor2', 'ctor1', 'decor', 'raw']
REBOUND = NAMES.index('closure_rebound')

_VARARGS = any(p.kind == inspect.Parameter.VAR_POSITIONAL
               for p in inspect.signature(rp.PythonTask.__new__).parameters.values())


# ------------------------------------------------------------------------------
# JSON <-> python values
#
def dec(v):
    if isinstance(v, list):
        return [dec(x) for x in v]
    if isinstance(v, dict):
        if set(v.keys()) == {'$t', 'v'}:
            if v['$t'] == 'tuple': return tuple(dec(x) for x in v['v'])
            if v['$t'] == 'set'  : return set(v['v'])
            if v['$t'] == 'bytes':
                try:
                    return bytes.fromhex(v['v'])
                except Exception:                               # noqa
                    return b''
        return {str(k): dec(x) for k, x in v.items()}
    return v


S_TXT  = st.sampled_from(['', 'a', 'b', 'key', 'x y', 'é', '-', '%s', "q'\"q", '\n'])
S_NUM  = st.one_of(st.integers(-20, 20), st.sampled_from([0.5, -1.5, 2.0, 1e10]),
                   st.integers(2 ** 62, 2 ** 70))
S_LEAF = st.one_of(st.none(), st.booleans(), S_NUM, S_TXT)
S_ANY  = st.recursive(
    S_LEAF,
    lambda c: st.one_of(
        st.lists(c, max_size=3),
        st.dictionaries(S_TXT, c, max_size=3),
        st.fixed_dictionaries({'$t': st.just('tuple'), 'v': st.lists(c, max_size=3)}),
        st.fixed_dictionaries({'$t': st.just('bytes'),
                               'v': st.binary(max_size=6).map(lambda b: b.hex())}),
        st.fixed_dictionaries({'$t': st.just('set'),
                               'v': st.lists(st.integers(0, 9), max_size=3, unique=True)})),
    max_leaves=8)

KIND = {
    'any'  : S_ANY,
    'num'  : st.one_of(st.integers(-20, 20), st.sampled_from([0, 0.5, -1.5, 2.0])),
    'str'  : S_TXT,
    'seq'  : st.lists(st.integers(-9, 9), max_size=5),
    'sseq' : st.lists(S_TXT, max_size=4),
    'small': st.integers(0, 12),
    'lst'  : st.lists(S_LEAF, max_size=3),
}
KW_VALUE = {'reverse': st.booleans(), 'flag': st.booleans(), 'neg': st.booleans(),
            'twice': st.booleans(), 'sep': S_TXT, 'tag': S_TXT}


@st.composite
def fn_cases(draw):
    idx = draw(st.integers(0, len(POOL) - 1))
    if draw(st.integers(0, 19)) == 0:
        idx = NAMES.index('async')       # coroutine functions go through their own call site
    name, _, (lo, hi), kws, kind, _ = POOL[idx]
    via = draw(st.sampled_from(VIAS + ['ctor1', 'ctor1'] if lo == 0 else
                               ['ctor3', 'ctor3', 'ctor2', 'decor', 'decor', 'raw']))
    if name == 'closure_rebound':
        via = draw(st.sampled_from(['decor', 'decor', 'decor', 'ctor3']))
    wild = draw(st.integers(0, 9)) == 0
    if wild:
        args   = draw(st.lists(S_ANY, max_size=3))
        kwargs = draw(st.dictionaries(st.sampled_from(['x', 'y', 'b', 'zz']), S_ANY, max_size=2))
    else:
        n_pos  = draw(st.integers(lo, hi))
        args   = [draw(KIND[kind]) for _ in range(n_pos)]
        kwargs = {}
        if kws is None:
            kwargs = draw(st.dictionaries(st.sampled_from(['k1', 'k2', 'key', 'é']),
                                          S_ANY, max_size=3))
        elif kws:
            # named parameters which are not already bound positionally
            free = kws[max(0, n_pos - lo):] if hi > lo else kws
            for k in draw(st.lists(st.sampled_from(free), min_size=draw(st.integers(0, 1)),
                                   max_size=len(free), unique=True)
                          if free else st.just([])):
                kwargs[k] = draw(KW_VALUE.get(k, KIND[kind]))
        if name == 'm_pair' and via != 'ctor2' and draw(st.booleans()):
            kwargs = {'b': args.pop()}
    if via == 'ctor1':
        args, kwargs = [], {}
    elif via == 'ctor2':
        kwargs = {}
    return {'kind': 'fn', 'func': idx, 'n': draw(KIND['num']), 'a': draw(S_ANY),
            'via': via, 'args': args, 'kwargs': kwargs}


@st.composite
def obj_cases(draw):
    return {'kind': 'obj', 'value': draw(S_ANY)}


# ------------------------------------------------------------------------------
#
_worker = None


def hollow_worker():
    """a raptor Worker without its constructor (no registry / zmq / heartbeat):
    `_dispatch_func` only reads `_log` and `_prof`"""
    global _worker
    if _worker is None:
        _worker = Worker.__new__(Worker)
        _worker._log  = boot.LOG
        _worker._prof = boot.PROF
    return _worker


def outcome(call):
    try:
        return ('value', call())
    except Exception as e:                                      # noqa
        return ('exc', type(e).__name__)


def _call(f, args, kwargs):
    if asyncio.iscoroutinefunction(f):
        return asyncio.run(f(*args, **kwargs))
    return f(*args, **kwargs)


def build(case, late=True):
    idx = int(case['func']) % len(POOL)
    f = POOL[idx][1](dec(case.get('n', 1)), dec(case.get('a')))
    if idx == REBOUND:
        f, rebind = f
        if late:
            rebind(['rebound', dec(case.get('a'))])
        else:
            f.rebind_late = lambda: rebind(['rebound', dec(case.get('a'))])
    return idx, f


def encode(via, f, args, kwargs):
    if via == 'decor':
        late = f.__dict__.pop('rebind_late', None) if inspect.isfunction(f) else None
        decorated = rp.pythontask(f)
        if late:
            late()      # the application changes what the closure captured, then creates the task
        return decorated(*args, **kwargs)
    if via == 'raw':
        return serialize_bson({'func': serialize_obj(f), 'args': tuple(args),
                               'kwargs': dict(kwargs)})
    if _VARARGS:
        return rp.PythonTask(f, *args, **kwargs)
    if via == 'ctor3':
        return rp.PythonTask(f, tuple(args), dict(kwargs))
    if via == 'ctor2':
        return rp.PythonTask(f, tuple(args))
    return rp.PythonTask(f)


def dispatch(enc):
    """ship the encoded function the way a function task travels (description ->
    verify -> as_dict -> msgpack) and let the real dispatcher apply it"""
    td = rp.TaskDescription({'uid': 'task.000000', 'mode': rp.TASK_FUNCTION,
                             'function': enc})
    td.verify()
    task = {'uid': 'task.000000', 'description': wire(td.as_dict())}
    env_obj = os.environ
    env_bak = dict(os.environ)
    try:
        return asyncio.run(hollow_worker()._dispatch_func(task))
    finally:
        # the dispatcher rebinds os.environ to a plain dict copy
        os.environ = env_obj
        if dict(os.environ) != env_bak:
            os.environ.clear()
            os.environ.update(env_bak)


def run_fn(case, res):
    idx, f = build(case, late=False)
    late = getattr(f, 'rebind_late', None)
    if late is not None and case.get('via') != 'decor':
        del f.rebind_late
        late()          # other encodings: the value is changed before the function is handed over
    name   = NAMES[idx]
    via    = case.get('via') if case.get('via') in VIAS else 'ctor3'
    args   = dec(case.get('args') or [])
    kwargs = dec(case.get('kwargs') or {})
    if not isinstance(args, list)  : args = [args]
    if not isinstance(kwargs, dict): kwargs = {}
    if via == 'ctor1': args, kwargs = [], {}
    if via == 'ctor2': kwargs = {}

    res.label('fn', 'fn:via=%s' % via, 'fn:%s' % name)
    if idx == REBOUND and via == 'decor':
        res.label('fn:closure_changed_between_decoration_and_task_creation')
    res.nontrivial = bool(kwargs) or POOL[idx][5]
    sigvia = 'ctor_default_kwargs' if via in ('ctor1', 'ctor2') else via

    # --- encode
    try:
        enc = encode(via, f, copy.deepcopy(args), copy.deepcopy(kwargs))
    except SerializationError:
        if idx == UNPICKLABLE:
            res.label('fn:unpicklable_refused')
        else:
            res.fail('fn_encode_refused:%s' % name, 'picklable callable refused')
        return
    except Exception as e:                                      # noqa
        res.fail(exc_sig('fn_encode_raised:%s' % sigvia, e), repr(e))
        return
    if not isinstance(enc, str):
        res.fail('fn_encoded_not_str:%s' % sigvia, type(enc).__name__)
        return

    # --- expectation: the call the application wrote down
    want = outcome(lambda: _call(build(case)[1], copy.deepcopy(args),
                                 copy.deepcopy(kwargs)))
    res.label('fn:want=%s' % (want[0] if want[0] == 'value' else want[1]))

    # --- decode (documented: "tuple: callable, args, and kwargs")
    try:
        f2, a2, k2 = rp.PythonTask.get_func_attr(enc)
    except Exception as e:                                      # noqa
        res.fail(exc_sig('fn_decode_raised:%s' % sigvia, e), repr(e))
        return
    if not callable(f2):
        res.fail('fn_decoded_not_callable:%s' % sigvia, repr(f2))
    if not same(list(a2), args):
        res.fail('fn_args_differ:%s' % sigvia, '%r != %r' % (a2, args))
    if via in ('ctor3', 'decor', 'raw') and not same(k2, kwargs):
        res.fail('fn_kwargs_differ:%s' % sigvia, '%r != %r' % (k2, kwargs))

    # --- application by the worker
    try:
        out, err, ret, val, exc = dispatch(enc)
    except Exception as e:                                      # noqa
        res.fail(exc_sig('fn_dispatch_raised:%s' % sigvia, e), repr(e))
        return

    if ret == 0:
        got = ('value', val)
    else:
        txt = (exc[0] if exc else None) or ''
        got = ('exc', txt.split('(')[0] or 'unknown')

    if want[0] != got[0] or (want[0] == 'exc' and want[1] != got[1]):
        res.fail('fn_outcome_differs:%s:got=%s'
                 % (sigvia, got[0] if got[0] == 'value' else got[1]),
                 '%s via %s args=%r kwargs=%r: wanted %r, worker gave ret=%r val=%r exc=%r'
                 % (name, via, args, kwargs, want, ret, val, (exc or [None])[0]))
    elif want[0] == 'value' and not same(want[1], got[1]):
        res.fail('fn_result_differs:%s:%s' % (sigvia, name),
                 'args=%r kwargs=%r: wanted %r, got %r' % (args, kwargs, want[1], got[1]))
    elif name == 'closure_counter' and want[0] == 'value':
        # the same encoded function is decoded and applied once more (a second task of a bulk, a
        # retry): it starts from the encoded state again
        res.label('fn:decoded_twice')
        try:
            out, err, ret, val, exc = dispatch(enc)
        except Exception as e:                                      # noqa
            res.fail(exc_sig('fn_dispatch_raised:%s:second_decode' % sigvia, e), repr(e))
            return
        if ret != 0 or not same(want[1], val):
            res.fail('fn_result_differs:%s:second_decode' % sigvia,
                     'first application gave %r, the second one of the same encoded function %r '
                     '(ret %r)' % (got[1], val, ret))


def run_obj(case, res):
    v = dec(case.get('value'))
    res.label('obj')
    res.nontrivial = isinstance(v, (list, dict, tuple)) and len(v) >= 2
    for name, enc, deco in (('obj', serialize_obj, deserialize_obj),
                            ('bson', serialize_bson, deserialize_bson)):
        try:
            back = deco(enc(copy.deepcopy(v)))
        except Exception as e:                                  # noqa
            res.fail(exc_sig('obj_roundtrip_raised:%s' % name, e), repr(e))
            continue
        if not same(back, v):
            res.fail('obj_roundtrip_differs:%s' % name, '%r != %r' % (back, v))
