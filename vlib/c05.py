"""C05 - Every submitted task ends in one final state that tells the truth.  (DESIGN.md 4/C05)

Whole pipeline (vlib/pipesim.py): real TaskManager.submit_tasks -> RoundRobin -> tmgr staging input ->
agent staging input -> Continuous scheduler -> Popen executor (FakeProc) -> agent staging output ->
tmgr staging output -> final state on the real Task objects and a registered TASK_STATE callback;
client and agent sides joined by the real crosswire closures.
"""
from hypothesis import strategies as st

from . import boot                                    # noqa: F401
from .runner import CaseResult, Part
from . import pipesim
from . import c05_flux
from . import fluxsim

PID  = 'C05'
RULE = ('cases = workload of 1-8 tasks in 1-2 bulks (exit codes, optional input staging) x fault plan (per task at '
        'most one of: client input staging error, agent input staging error, no launcher, script creation / '
        'launch-output / spawn error, non-zero exit, injected exception inside a per-task handler of tmgr scheduler / '
        'tmgr staging in / agent staging in / executor / agent staging out / tmgr staging out, output staging error) '
        'x optional cancel requests x optional late pilot addition with tasks naming the pilot x order in which the pipeline stages are polled; oracle at quiescence: every task '
        'final, exactly one final state announced = Task.state, DONE iff exit 0 and no fault, FAILED with exit code or '
        'exception recorded for faults / non-zero exit, CANCELED only if requested, fault-free tasks DONE, and a second '
        'fault-free workload completes afterwards.  non-trivial = >=1 fault or cancel AND >=1 fault-free bystander in '
        'the same bulk; distinct = canonical case')
ASSUMPTIONS = [
    'pipeline assembled in one process: components built hollow (constructor fields) with their real initialize(); '
    'each stage poll (work_cb) is atomic; the agent scheduler loop and the executor activities run under the baton to '
    'their idle points per poll (their internal interleavings are C04/C07)',
    'Agent_0 queue hops (_proxy_input_cb/_proxy_output_cb) are harness stand-ins (queue to queue, unchanged)',
    'STATE/CONTROL pubsubs of client and pilot joined by the real Session._crosswire_proxy closures over in-memory '
    'proxy pubsubs, synchronous delivery', 'processes are FakeProc objects exiting with the scripted code',
    'get_version shim']
NOT_REACHED = ['raptor path (C20)', 'the Flux instances themselves (stand-ins per partition)', 'more than two pilots / pilot death (C12, C13); the second pilot has a stub agent', 'real process spawning (C10)',
               'exceptions thrown by a component outside any per-task section fail the bulk by design and are not generated']
BUDGET = {'quick': 160, 'thorough': 1500}

FAULTS = ['tin_missing_source', 'ain_missing_source', 'aout_missing_source', 'tout_missing_source',
          'ain_missing_link', 'aout_missing_link',
          'no_launcher', 'spawn', 'open',
          'exc:tsched', 'exc:tin', 'exc:ain', 'exc:aexec', 'exc:aout', 'exc:tout']


@st.composite
def task_spec(draw):
    s = {'exit': draw(st.sampled_from([0, 0, 0, 0, 1, 3]))}
    if draw(st.integers(0, 3)) == 0:
        s['stage_in'] = True
    if draw(st.integers(0, 3)) == 0:
        s['fault'] = draw(st.sampled_from(FAULTS))
        if s['fault'] in ('exc:tin', 'exc:ain'):
            s['stage_in'] = True        # so that the handler is reached
    if draw(st.integers(0, 4)) == 0:
        s['soe'] = True          # stage_on_error with a client-side output transfer
    if draw(st.integers(0, 6)) == 0:
        s['ranks'] = 2          # always fits: every layout has >= 2 cores
    if draw(st.integers(0, 3)) == 0:
        s['slow'] = True        # its process is still running while later operations happen
    return s


@st.composite
def cases(draw):
    ops = []
    late = draw(st.integers(0, 3)) == 0      # the pilot is added after (some of) the submissions
    two  = draw(st.integers(0, 2)) == 0      # a second pilot (stub agent): bulks span two pilots
    nb = draw(st.integers(1, 3 if late else 2))
    n = 0
    for b in range(nb):
        bulk = draw(st.lists(task_spec(), min_size=1, max_size=5))
        if late:
            for sp in bulk:
                if draw(st.integers(0, 2)) > 0:
                    sp['named'] = True        # names the (not yet added) pilot
        if two:
            for sp in bulk:
                if not sp.get('named') and draw(st.integers(0, 3)) == 0:
                    sp['named2'] = True       # names the second pilot
        n += len(bulk)
        ops.append(['submit', bulk])
        slow = any(sp.get('slow') for sp in bulk)
        k = 1 if (slow and draw(st.booleans())) else draw(st.integers(0, 3))
        if k == 0:
            ops.append(['poll', draw(st.lists(st.integers(0, 8), min_size=1, max_size=12))])
        elif k == 1:
            ops.append(['pump'])
        if draw(st.integers(0, 1 if slow else 3)) == 0:
            ops.append(['cancel', draw(st.lists(st.integers(0, n - 1), min_size=1, max_size=2)),
                        draw(st.booleans())])      # the request crosses the processes' own exit
        if late and draw(st.integers(0, 2)) == 0:
            ops.append(['add_pilot'])
    return {'kind': 'pipe', 'late_add': late, 'two': two, 'ops': ops,
            'order': draw(st.lists(st.integers(0, 8), max_size=15)),
            'layout': {'nodes': draw(st.integers(1, 3)), 'cores': draw(st.sampled_from([2, 4, 8])),
                       'gpus': 0, 'lfs': 0, 'mem': 0}}


def parts(tier):
    from . import c07
    # (the cheap parts first: a wall-clock budget hit leaves the long pipeline part short, not them)
    return [# the Flux executor's event handling: process outcome -> target state
            Part('flux_events', c05_flux.cases(), quick=400, thorough=3000),
            # ... and executor + launch method together: job ids and job events in any order
            Part('flux_pipeline', fluxsim.cases(), quick=300, thorough=2500),
            # executor-level scenario on the virtual clock: start-up reported in time, then the task
            # runs longer than its start-up limit (CANCELED only if a timeout was requested and hit)
            Part('startup_report', enum=c07.startup_cases),
            Part('pipeline', cases(), quick=420, thorough=1500)]


def normalise(case):
    if isinstance(case, dict) and case.get('kind') == 'fluxsim':
        return fluxsim.normalise(case)
    if isinstance(case, dict) and case.get('kind') == 'flux':
        return c05_flux.normalise(case)
    if isinstance(case, dict) and case.get('kind') == 'sweep':
        from . import c07
        return c07.normalise(case)
    try:
        ops = []
        for op in case.get('ops', []):
            if not isinstance(op, list) or not op:
                continue
            if op[0] in ('submit', 'poll', 'cancel') and (len(op) < 2 or not op[1]):
                continue
            ops.append(op)
        case = dict(case)
        case['ops'] = ops
        if not any(op[0] == 'submit' for op in ops):
            return None
        lay = case['layout']
        if lay['nodes'] < 1 or lay['cores'] < 1:
            return None
        return case
    except Exception:
        return None


def run_case(case):
    if case.get('kind') == 'fluxsim':
        return fluxsim.run_case_for(PID, case)
    if case.get('kind') == 'flux':
        return c05_flux.run_case(case)
    if case.get('kind') == 'sweep':
        from . import execsim
        xs = execsim.run_schedule(case)
        res = CaseResult()
        for p, sig, msg in xs.problems:
            if p == 'C05':
                res.fail(sig, msg)
        res.nontrivial = bool(xs.started_clean)
        res.label('executor:startup_report')
        return res
    sim = pipesim.run_pipeline(case)
    res = CaseResult()
    seen = set()
    for p, sig, msg in sim.problems:
        if (sig, msg) not in seen:
            seen.add((sig, msg))
            res.fail(sig, msg)
    bulks = [op[1] for op in case['ops'] if op[0] == 'submit']
    nt = False
    for b in bulks:
        faulty = [s for s in b if s.get('fault') or s.get('exit')]
        clean = [s for s in b if not s.get('fault') and not s.get('exit')]
        if faulty and clean:
            nt = True
    if sim.cancel_req and len(sim.tasks) > len(sim.cancel_req):
        nt = True
    res.nontrivial = nt
    for b in bulks:
        for s in b:
            res.label('fault=%s' % (s.get('fault') or ('exit_nonzero' if s.get('exit') else 'none')))
    if sim.cancel_req:
        res.label('cancel')
    if sim.late_cancel:
        res.label('cancel_crossing_process_exit')
    if any(s.get('soe') and (s.get('exit') or s.get('fault')) for b in bulks for s in b):
        res.label('stage_on_error_with_failure')
    if case.get('two'):
        res.label('two_pilots')
        if sim.stub_ran and len(sim.stub_ran) < len(sim.tasks):
            res.label('two_pilots:both_used')
    if case.get('late_add'):
        res.label('pilot_added_after_submission')
        if sum(1 for b in bulks if any(s.get('named') for s in b)) >= 2:
            res.label('named_tasks_in_2+_bulks_before_add')
    for t in sim.tasks:
        res.label('final=%s' % t.state)
    return res
