"""C14 - Pilot states move forward and end for the right reason.  (DESIGN.md 4/C14)

(a) Drive : hollow PilotManager (real submit_pilots / _state_sub_cb /
            _update_pilot / control_cb pilot_activate / register_callback /
            _call_pilot_callbacks) with real Pilot objects (real constructor,
            real _update, real register_callback), pilot- and manager-level
            callbacks; the real tmgr RoundRobin scheduler (real constructor,
            real initialize, real _base_state_cb/_update_pilot_states) listens
            on the same state pubsub as second consumer.  Notification batches
            are published on the in-memory STATE_PUBSUB exactly as components do.
            states._pilot_state_progress is enumerated (current x target, 9 x 9).
    Oracle: reference model A.1 written from the docstrings: callbacks see a
            non-decreasing, gap-free sequence that ends in the pilot's current
            state, a final state is never left for a non-final one, a valid
            notification for a known pilot is applied, unknown uids change
            nothing, pilots not named in a batch are untouched.

(b) Drive : hollow Agent_0: real _check_lifetime over a virtual clock (module
            global `time` of agent_0.py rebound), real base _control_cb ->
            control_cb -> _ctrl_cancel_pilots / 'terminate' through the
            in-memory CONTROL_PUBSUB, real stop(), real _finalize()/finalize().
    Oracle: killme.signal content == final state published on the state pubsub
            == the state of one of the causes that occurred (single cause:
            strict).  The killme.signal -> final_state lines of bootstrap_0.sh
            are extracted and executed with bash.
"""
import os
import itertools

from hypothesis import strategies as st

from . import boot                                    # noqa: F401
from .runner import CaseResult, Part, exc_sig, REPO_SRC
from .hollow import HollowSession
from . import c14_hollow as ch
from . import c14_launch
from . import c14_batch

import traceback

import radical.utils           as ru
import radical.pilot           as rp
import radical.pilot.states    as rps
import radical.pilot.constants as rpc

from radical.pilot.utils import component as _rpu_component

PID  = 'C14'
RULE = ('(a) cases = 1-3 submitted pilots + unknown uids + task noise, op list of notification '
        'batches (published on the state pubsub), pilot_activate control messages and callback '
        'registrations; non-trivial = the model fills a gap of >= 2 states in one step and >= 1 '
        'late or duplicate notification (model no-op) occurs; (b) cases = runtime limit + op list '
        '(clock ticks, lifetime checks, cancel_pilots naming this/another/both/no pilot, terminate, '
        'stop, noise) + number of ops still handled between stop and finalize; non-trivial = the '
        'runtime cause occurs; distinct = canonical resolved op list')
ASSUMPTIONS = [
    'PilotManager and Agent_0 are built hollow (constructor fields copied: no component manager, '
    'no heartbeat/lifetime idler threads, no sub-agents, no service endpoint, fake RM); '
    'PilotManager.initialize (at-fork registration) and Agent_0.initialize (env preparation, '
    'services, PMGR_ACTIVE advance) are not run',
    'Pilot objects come from the real constructor through the real submit_pilots; the tmgr '
    'scheduler comes from its real constructor and real initialize()',
    'transport = in-memory pubsub with msgpack round trip, delivered synchronously in FIFO order; '
    'callback exceptions are logged and swallowed as ru.zmq.Subscriber does',
    'the agent work loop is replaced by: handle ops in order; once _term is set handle `late` more '
    'ops, then call the real _finalize(); if _term is never set the loop is ended as after '
    'work_cb() returning False (cause: error)',
    'agent_0.py module global `time` rebound to a virtual clock; session.close() is a no-op on the '
    'hollow session',
    'radical.utils.get_version shim (src/radical/pilot/VERSION absent in this tree)']
NOT_REACHED = [
    'bootstrap_0.sh is not run as a whole (needs a live agent process tree): only its lines that '
    'turn ./killme.signal into $final_state are extracted and executed with bash; note that the '
    'shell never uses $final_state afterwards, the state the client sees is the one Agent_0.finalize '
    'publishes (checked here)',
    'agent death without finalize (SIGKILL, node loss): only the shell default (no killme.signal -> '
    'FAILED) is exercised',
    'a lone terminate command / stop() call is judged leniently (CANCELED or FAILED accepted): the '
    'statement does not say whether a client shutdown counts as cancellation by request',
    'loss of the remaining notifications of a batch after an exception escaped _state_sub_cb is '
    'not demanded (batch isolation is not in the statement); the exception itself is reported by '
    'the enumeration of _pilot_state_progress against its documented contract']
EXHAUSTIVE = ('states._pilot_state_progress over all (current, target) pairs of the 8 pilot states '
              '+ None (81 pairs); all orderings of <= 3 termination events over {runtime reached, '
              'early lifetime check, cancel me, cancel other, cancel both, terminate, stop} with 0 or '
              '3 late events (792 runs); killme.signal content x agent exit code for the shell '
              'snippet (10 runs)')
BUDGET = {'quick': 120, 'thorough': 1500}

# ------------------------------------------------------------------------------
# the model is written from the documentation (states.py value table is NOT read)
NEW, LP, L, AP, A = (rps.NEW, rps.PMGR_LAUNCHING_PENDING, rps.PMGR_LAUNCHING,
                     rps.PMGR_ACTIVE_PENDING, rps.PMGR_ACTIVE)
DONE, FAILED, CANCELED = rps.DONE, rps.FAILED, rps.CANCELED
ORDER  = [NEW, LP, L, AP, A]
FINALS = [DONE, FAILED, CANCELED]
STATES = ORDER + FINALS                     # index space of notifications
VAL    = {None: -1, NEW: 0, LP: 1, L: 2, AP: 3, A: 4, DONE: 5, FAILED: 5, CANCELED: 5}
STATES9 = [None] + STATES


def model_step(cur, tgt):
    """A.1 for pilots: -> (new state, announced list)"""
    if cur in FINALS:
        return cur, []
    if tgt in (FAILED, CANCELED):
        return tgt, [tgt]
    if VAL[tgt] > VAL[cur]:
        between = [s for s in ORDER if VAL[cur] < VAL[s] < VAL[tgt]]
        return tgt, between + [tgt]
    return cur, []


# ------------------------------------------------------------------------------
# generators
#
@st.composite
def notify_cases(draw):
    n_p = draw(st.integers(1, 3))
    notifs = []                     # [pidx, sidx]
    mode = draw(st.sampled_from(['random', 'streams', 'streams']))
    if mode == 'random':
        notifs = draw(st.lists(st.tuples(st.integers(0, n_p + 1), st.integers(0, 7)),
                               min_size=1, max_size=14))
        notifs = [list(x) for x in notifs]
    else:
        streams = []
        for p in range(n_p):
            end  = draw(st.sampled_from([None, 5, 5, 6, 7]))       # final reached?
            upto = draw(st.integers(1, 4))                        # last non-final reached
            path = list(range(2, upto + 1))
            if end == 5:
                path = [2, 3, 4]
            if end is not None:
                path.append(end)
            keep = [s for s in path if draw(st.integers(0, 2)) > 0]   # gaps
            if path and not keep:
                keep = [path[-1]]
            out = []
            for s in keep:
                out.append(s)
                if draw(st.integers(0, 4)) == 0:
                    out.append(s)                                   # duplicate
            for _ in range(draw(st.integers(0, 2))):               # late / contradictory
                out.append(draw(st.integers(0, 7)))
            for _ in range(draw(st.integers(0, 2))):               # local reordering
                if len(out) >= 2:
                    i = draw(st.integers(0, len(out) - 2))
                    out[i], out[i + 1] = out[i + 1], out[i]
            streams.append([[p, s] for s in out])
        for _ in range(draw(st.integers(0, 2))):                   # unknown uid / task noise
            streams.append([[n_p + draw(st.integers(0, 1)), draw(st.integers(0, 7))]])
        streams = [s for s in streams if s]
        while streams:
            i = draw(st.integers(0, len(streams) - 1))
            notifs.append(streams[i].pop(0))
            streams = [s for s in streams if s]
    ops = []
    if draw(st.integers(0, 3)) == 0:
        ops.append(['reg_mgr_cb'])
    while notifs:
        k = draw(st.sampled_from([1, 1, 2, 2, 3, 4]))
        chunk, notifs = notifs[:k], notifs[k:]
        ops.append(['batch', chunk, draw(st.integers(0, 1))])
        r = draw(st.integers(0, 11))
        if r == 0:
            ops.append(['activate', draw(st.integers(0, n_p))])
        elif r == 1:
            ops.append(['reg_pilot_cb', draw(st.integers(0, n_p - 1))])
        elif r == 2:
            ops.append(['reg_mgr_cb'])
    return {'kind': 'notify', 'n_pilots': n_p,
            'mgr_cb_before': draw(st.integers(0, 1)), 'ops': ops}


TICKS = [1, 10, 30, 59, 60, 61, 119, 120, 121, 179, 180, 181, 600]


@st.composite
def cause_cases(draw):
    r = draw(st.integers(1, 3))
    op = st.one_of(
        st.tuples(st.just('tick'), st.sampled_from(TICKS)),
        st.tuples(st.just('check')),
        st.tuples(st.just('check')),
        st.tuples(st.just('cancel'), st.integers(0, 3)),
        st.tuples(st.just('terminate')),
        st.tuples(st.just('stop')),
        st.tuples(st.just('noise'), st.integers(0, 2)))
    shape = draw(st.sampled_from(['free', 'free', 'runtime', 'runtime', 'quiet']))
    if shape == 'free':
        ops = draw(st.lists(op, min_size=0, max_size=8))
    else:
        quiet = st.one_of(st.tuples(st.just('tick'), st.sampled_from([1, 10, 30, 59])),
                          st.tuples(st.just('check')),
                          st.tuples(st.just('cancel'), st.sampled_from([0, 2])),
                          st.tuples(st.just('noise'), st.integers(0, 2)))
        ops = draw(st.lists(quiet, min_size=0, max_size=4))
        if shape == 'runtime':
            ops = ops[:3]
            ops.append(('tick', r * 60 + draw(st.sampled_from([-1, 0, 0, 1, 30]))))
            ops.append(('check',))
            ops += draw(st.lists(op, min_size=0, max_size=3))
    return {'kind': 'causes', 'runtime': r, 'ops': [list(o) for o in ops],
            'late': draw(st.integers(0, 3)), 'shell': int(draw(st.integers(0, 9)) == 0),
            'early_finalize': draw(st.integers(0, 2)) == 0}


SYMBOLS = {'R': [['tick', 60], ['check']],      # runtime (1 min) reached
           'E': [['check']],                    # lifetime check (early unless R came before)
           'M': [['cancel', 1]], 'O': [['cancel', 2]], 'B': [['cancel', 3]],
           'T': [['terminate']], 'S': [['stop']]}


def cause_enum(tier):
    for n in range(0, 4):
        for seq in itertools.product('REMOBTS', repeat=n):
            for late in ([0] if n < 2 else [0, 3]):
                ops = []
                for sym in seq:
                    ops.extend(SYMBOLS[sym])
                yield {'kind': 'causes', 'runtime': 1, 'ops': ops, 'late': late,
                       'shell': int(n <= 2 and late == 0), 'enum': ''.join(seq)}
                if n <= 2 and late == 0:
                    yield {'kind': 'causes', 'runtime': 1, 'ops': ops, 'late': late, 'shell': 0,
                           'enum': ''.join(seq), 'early_finalize': True}


def progress_enum(tier):
    for i in range(9):
        for j in range(9):
            yield {'kind': 'progress', 'cur': i, 'tgt': j}


def bootstrap_enum(tier):
    for content in [None, '', 'DONE', 'CANCELED', 'FAILED']:
        for ec in (0, 1):
            yield {'kind': 'bootstrap', 'content': content, 'exitcode': ec}


def parts(tier):
    return [Part('progress_enum',  enum=progress_enum),
            Part('bootstrap_enum', enum=bootstrap_enum),
            Part('cause_orders_enum', enum=cause_enum),
            Part('notify_histories', notify_cases(), quick=1000, thorough=8000),
            Part('cause_histories',  cause_cases(),  quick=500,  thorough=6000),
            Part('launch_cancel',    c14_launch.cases(), quick=400, thorough=4000),
            Part('batch_launchers',  c14_batch.cases(),  quick=400, thorough=4000)]


# ------------------------------------------------------------------------------
def normalise(case):
    """repair candidates of the generic minimiser (it deletes list chunks)"""
    if not isinstance(case, dict) or 'kind' not in case:
        return None
    if case['kind'] == 'batch_launcher':
        return c14_batch.normalise(case)
    if case['kind'] == 'notify':
        ops = []
        for op in case.get('ops') or []:
            if not isinstance(op, list) or not op:
                continue
            if op[0] == 'batch':
                if len(op) < 2 or not isinstance(op[1], list):
                    continue
                things = [t for t in op[1] if isinstance(t, list) and len(t) == 2]
                if things:
                    ops.append(['batch', things, op[2] if len(op) > 2 else 1])
            elif op[0] in ('activate', 'reg_pilot_cb'):
                if len(op) == 2:
                    ops.append(op)
            elif op[0] == 'reg_mgr_cb':
                ops.append(['reg_mgr_cb'])
        case = dict(case)
        case['ops'] = ops
        return case
    if case['kind'] == 'causes':
        ops = []
        for op in case.get('ops') or []:
            if not isinstance(op, list) or not op:
                continue
            if op[0] in ('tick', 'cancel', 'noise') and len(op) != 2:
                continue
            ops.append(op)
        case = dict(case)
        case['ops'] = ops
        return case
    return case


# ------------------------------------------------------------------------------
def run_case(case):
    kind = case.get('kind')
    try:
        if kind == 'progress':
            return run_progress(case)
        if kind == 'bootstrap':
            return run_bootstrap(case)
        if kind == 'causes':
            return run_causes(case)
        if kind == 'launch_cancel':
            return c14_launch.run(case)
        if kind == 'batch_launcher':
            return c14_batch.run(case)
        return run_notify(case)
    finally:
        # BaseComponent.__init__ registers every component in a module level
        # list (at-fork hook): drop the references, or 10^5 hollow components
        # with their sessions stay alive in a thorough shard
        del _rpu_component._components[:]


# ------------------------------------------------------------------------------
# exhaustive: states._pilot_state_progress vs its documented contract
#
def run_progress(case):
    res = CaseResult()
    cur = STATES9[case['cur'] % 9]
    tgt = STATES9[case['tgt'] % 9]
    res.label('enum:progress')
    cls = ('%s->%s' % ('final' if cur in FINALS else 'nonfinal',
                       'final' if tgt in FINALS else 'nonfinal'))
    try:
        out = rps._pilot_state_progress('pilot.0000', cur, tgt)
        new, passed = out[0], list(out[1])
    except Exception as e:            # noqa
        # documented: "Requesting such transitions will result in silent discard
        # of the invalid target state", example (DONE, FAILED) --> [DONE, []]
        res.fail(exc_sig('progress_raises:%s' % cls, e), '%s -> %s: %r' % (cur, tgt, e))
        return res

    def bad(clause, msg):
        res.fail('progress_contract:%s:%s' % (clause, cls),
                 '_pilot_state_progress(%s, %s) = %r: %s' % (cur, tgt, out, msg))

    if new not in (cur, tgt):
        bad('new_state_invented', 'neither current nor target')
        return res
    if VAL[new] < VAL[cur]:
        bad('moves_backwards', 'new state is earlier than current')
    if cur in FINALS and new not in FINALS:
        bad('leaves_final', 'final left for non-final')
    if cur in FINALS and any(s not in FINALS for s in passed):
        bad('announces_nonfinal_after_final', 'passed=%r' % passed)
    if VAL[tgt] > VAL[cur]:
        exp = [s for s in ORDER if VAL[cur] < VAL[s] < VAL[tgt]] + [tgt]
        if new != tgt:
            bad('forward_not_taken', 'expected new state %s' % tgt)
        elif passed != exp:
            bad('gap_fill', 'expected passed %r' % exp)
    elif not (cur in FINALS and tgt in FINALS and cur != tgt):
        # equal or earlier target: silent discard
        if new != cur or passed:
            bad('discard', 'expected [%s, []]' % cur)
    else:
        # contradicting finals: only finals may be announced (preference among
        # finals is not part of the property)
        if any(s not in FINALS for s in passed):
            bad('announces_nonfinal_after_final', 'passed=%r' % passed)
    return res


# ------------------------------------------------------------------------------
# exhaustive: the shell lines killme.signal -> final_state
#
def run_bootstrap(case):
    res = CaseResult()
    res.label('enum:bootstrap')
    content = case.get('content')
    with ch.in_dir() as d:
        if content is not None:
            with open(os.path.join(d, 'killme.signal'), 'w') as f:
                f.write('%s\n' % content if content else '')
        out = ch.bootstrap_final_state(d, int(case.get('exitcode', 0)))
    if out is None:
        res.label('bootstrap_snippet_not_found')
        return res
    exp = content if content in FINALS else FAILED
    if out[0] != exp:
        res.fail('bootstrap_final_state:%s' % ('absent' if content is None else
                                               'empty' if not content else content),
                 'killme.signal=%r -> final_state=%r, expected %r' % (content, out[0], exp))
    # the pilot job's exit status is what the launcher turns into the pilot's final state when the
    # agent did not end cleanly (no killme.signal): an agent which exited non-zero / was killed
    # must not make the bootstrapper exit 0
    if content is None:
        for agent_exit, kill in ((int(case.get('exitcode', 0)), False), (0, True)):
            with ch.in_dir() as d:
                rc = ch.bootstrap_tail_exit(d, agent_exit, kill=kill)
            if rc is None:
                res.label('bootstrap_tail_not_found')
                break
            died_badly = kill or agent_exit != 0
            if died_badly and rc == 0:
                res.fail('bootstrap_exit_status:zero_after_agent_%s' % ('killed' if kill else 'exit_nonzero'),
                         'agent %s, bootstrapper exits %d' % ('killed' if kill else 'exit %d' % agent_exit, rc))
            elif not died_badly and rc != 0:
                res.fail('bootstrap_exit_status:nonzero_after_clean_exit', 'bootstrapper exits %d' % rc)
            res.nontrivial = True
    return res


# ------------------------------------------------------------------------------
# (b) termination causes
#
ACCEPT = {'runtime' : {DONE},
          'cancel'  : {CANCELED},
          'shutdown': {CANCELED, FAILED},     # lone terminate / stop(): see NOT_REACHED
          'error'   : {FAILED}}


def _cb_errors(net, start):
    return [e for e in net.log[start:] if e[0] == 'cb_error']


class _VT(object):
    """virtual clock for pilot_manager.py: what is pending happens while wait_pilots sleeps"""
    def __init__(self):
        self.now, self.pending = 0.0, []

    def time(self):
        return self.now

    def sleep(self, dt):
        self.now += max(0.0, float(dt))
        todo, self.pending = self.pending, []
        for fn in todo:
            fn()

    def __getattr__(self, name):
        import time as _t
        return getattr(_t, name)


def _real_cancel_request(uids, pid, other):
    """-> the control message the real client side publishes for this request"""
    import radical.pilot.pilot_manager as m_pmgr
    from .c15_hollow import hollow_pmgr, add_pilot
    cli = HollowSession()
    pm  = hollow_pmgr(cli, 'pmgr.0000')
    pilots = {u: add_pilot(pm, u) for u in (pid, other)}
    url = cli._reg['bridges.%s' % rpc.CONTROL_PUBSUB]['addr_pub']
    vt, saved = _VT(), m_pmgr.time
    m_pmgr.time = vt

    def deliver():
        for u in uids:
            if pilots[u].state not in rps.FINAL:
                pm._update_pilot({'uid': u, 'type': 'pilot', 'state': rps.CANCELED})
    vt.pending.append(deliver)
    pos = len(cli.net.log)
    try:
        if len(uids) == 1:
            pilots[uids[0]].cancel()
        else:
            pm.cancel_pilots(list(uids))
    finally:
        m_pmgr.time = saved
    msgs = [ev[3] for ev in cli.net.log[pos:] if ev[0] == 'pub' and ev[1] == url
            and isinstance(ev[3], dict) and ev[3].get('cmd') == 'cancel_pilots']
    return msgs[0] if msgs else None


def run_causes(case):
    res = CaseResult()
    runtime = max(1, int(case.get('runtime', 1)))
    late    = max(0, int(case.get('late', 0)))
    ops     = case.get('ops') or []
    # (the other pilot's uid contains this pilot's uid: user-defined uids may do that)
    pid, other = 'pilot.0000', 'pilot.00001'

    causes   = set()
    resolved = []

    with ch.in_dir() as cwd, ch.clock_installed(ch.VClock()) as clock:
        sess = HollowSession(module='agent', role=rp.Session._AGENT_0, sandbox=cwd)
        agent = ch.hollow_agent_0(sess, pid=pid, runtime=runtime, pwd=cwd)
        t_start = clock.now
        limit   = t_start + runtime * 60
        ctrl = ru.zmq.Publisher(rpc.CONTROL_PUBSUB,
                                url=sess._reg['bridges.control_pubsub.addr_pub'])
        n_after_term = 0

        # the work loop thread runs the finalizers as soon as it sees the termination flag - that
        # can be while the thread which called stop() is still inside it (closing the session)
        fin = {'done': False, 'log0': None, 'exc': None}
        if case.get('early_finalize'):
            real_close = agent._session.close

            def close_with_work_loop(*a, **k):
                if agent._term.is_set() and not fin['done']:
                    fin['done'] = True
                    fin['log0'] = len(sess.net.log)
                    try:
                        agent._finalize()
                    except Exception as e:    # noqa
                        fin['exc'] = e
                return real_close(*a, **k)
            agent._session.close = close_with_work_loop
            res.label('b:finalizers_run_while_stop_is_in_progress')

        for op in ops:
            if agent._term.is_set():
                if n_after_term >= late:
                    break
                n_after_term += 1
            was_term  = agent._term.is_set()
            log0      = len(sess.net.log)
            name      = op[0]
            is_cause  = None
            try:
                if name == 'tick':
                    clock.advance(max(0, int(op[1])))
                    resolved.append('tick')
                elif name == 'check':
                    reached = clock.now >= limit
                    ret = agent._check_lifetime()
                    if reached:
                        is_cause = 'runtime'
                        resolved.append('check:reached')
                        if ret is not False:
                            res.label('runtime_check_keeps_idler')
                    else:
                        resolved.append('check:early')
                        if ret is not True and not was_term:
                            res.label('b:early_check_unregisters_idler')
                elif name == 'cancel':
                    mask = int(op[1]) % 4
                    uids = ([pid] if mask & 1 else []) + ([other] if mask & 2 else [])
                    if mask & 1:
                        is_cause = 'cancel'
                    resolved.append('cancel:%d' % mask)
                    msg = {'cmd': 'cancel_pilots', 'arg': {'pmgr': 'pmgr.0000', 'uids': uids},
                           'fwd': True}
                    if uids:
                        # the request as the real PilotManager.cancel_pilots / Pilot.cancel publishes
                        # it (a single pilot is named by its bare uid)
                        msg = _real_cancel_request(uids, pid, other) or msg
                        res.label('cancel_request_from_real_pmgr')
                    ctrl.put(rpc.CONTROL_PUBSUB, msg)
                elif name == 'terminate':
                    is_cause = 'shutdown'
                    resolved.append('terminate')
                    ctrl.put(rpc.CONTROL_PUBSUB, {'cmd': 'terminate', 'arg': None,
                                                  'fwd': True})
                elif name == 'stop':
                    is_cause = 'shutdown'
                    resolved.append('stop')
                    agent.stop()
                elif name == 'noise':
                    k = int(op[1]) % 3
                    resolved.append('noise:%d' % k)
                    msg = [{'cmd': 'cancel_tasks', 'arg': {'uids': ['task.000000']}},
                           {'cmd': 'service_info', 'arg': {'uid': 'service.0007', 'error': None,
                                                           'info': 'x'}},
                           {'cmd': 'kill_pilots', 'arg': {'pmgr': 'pmgr.0000',
                                                          'uids': [pid]}}][k]
                    ctrl.put(rpc.CONTROL_PUBSUB, msg)
                else:
                    continue
            except Exception as e:            # noqa
                res.fail(exc_sig('agent_op_raised:%s' % name, e), repr(e))
                return res

            for e in _cb_errors(sess.net, log0):
                res.fail(exc_sig('agent_control_cb_raised:%s' % name, e[3]), repr(e[3]))

            if is_cause:
                causes.add(is_cause)
                if not agent._term.is_set():
                    res.label('cause_did_not_stop_agent')
            elif not was_term:
                # a non-cause (tick, early check, cancel naming only others, noise)
                # changes nothing
                if agent._term.is_set():
                    res.fail('non_cause_stopped_agent:%s' % resolved[-1],
                             'agent stops after %r' % (op,))

        if not agent._term.is_set():
            causes.add('error')         # the work loop ends for no stated reason
        log0 = len(sess.net.log)
        try:
            if fin['done']:
                log0 = fin['log0']
                if fin['exc'] is not None:
                    raise fin['exc']
            else:
                agent._finalize()
        except Exception as e:                # noqa
            res.fail(exc_sig('finalize_raised', e), repr(e))
            return res
        for e in _cb_errors(sess.net, log0):
            res.fail(exc_sig('finalize_cb_raised', e[3]), repr(e[3]))

        written = None
        try:
            with open(os.path.join(cwd, 'killme.signal')) as f:
                written = f.read().strip()
        except OSError:
            pass
        published = []
        for e in sess.net.log[log0:]:
            if e[0] == 'pub' and e[1].endswith(rpc.STATE_PUBSUB) and isinstance(e[3], dict):
                for t in ru.as_list(e[3].get('arg')):
                    if isinstance(t, dict) and t.get('uid') == pid and t.get('type') == 'pilot':
                        published.append(t.get('state'))
        shell = None
        if case.get('shell'):
            shell = ch.bootstrap_final_state(cwd, 0)

    ckey = '+'.join(sorted(causes)) or 'none'
    accept = set()
    for c in causes:
        accept |= ACCEPT[c]

    if written is None:
        res.fail('no_killme_signal', 'finalize wrote no killme.signal (causes %s)' % ckey)
    elif written not in FINALS:
        res.fail('killme_signal_not_final', 'killme.signal = %r' % written)
    if not published:
        res.fail('final_state_not_published', 'no pilot state update published by finalize')
    elif written is not None and any(s != written for s in published):
        res.fail('published_state_disagrees',
                 'killme.signal=%r published=%r' % (written, published))
    final = written if written is not None else (published[-1] if published else None)
    if final in FINALS and final not in accept:
        res.fail('end_state:causes=%s:got=%s' % (ckey, final),
                 'causes %s (ops %s, runtime %d min, late %d) must end in %s, agent wrote %s'
                 % (ckey, resolved, runtime, late, '/'.join(sorted(accept)), final))
    if shell is not None and written is not None and shell[0] != (written or FAILED):
        res.fail('bootstrap_final_state_disagrees',
                 'killme.signal=%r shell final_state=%r' % (written, shell[0]))
    if case.get('shell'):
        res.label('shell_run' if shell is not None else 'bootstrap_snippet_not_found')

    res.nontrivial = 'runtime' in causes
    res.label('b:causes=%s' % ckey, 'b:n_causes=%d' % len(causes),
              'b:final=%s' % final)
    if len(causes) == 1:
        res.label('b:single_cause')
    if n_after_term:
        res.label('b:late_ops')
    res.key = {'r': runtime, 'ops': resolved, 'late': min(late, n_after_term)}
    return res


# ------------------------------------------------------------------------------
# (a) notification histories
#
def _tb_in(e, *needles):
    """does the traceback of `e` pass through a /repo/src file matching needle"""
    for fs in traceback.extract_tb(e.__traceback__):
        fn = os.path.realpath(fs.filename)
        if fn.startswith(REPO_SRC) and any(n in fn for n in needles):
            return True
    return False


class Recorder(object):
    def __init__(self, level, pilots, only=None, cb_data=None):
        self.level = level
        self.only  = only
        self.data  = cb_data
        self.start = {p.uid: p.state for p in pilots if only in (None, p.uid)}
        self.seen  = {}          # uid -> [state]
        self.n     = 0
        self.bad_data = False

    def pilot_cb(self, pilots, *args):
        # Pilot._update calls cb([pilot]) or cb([pilot], cb_data)
        if self.data is not None and list(args) != [self.data]:
            self.bad_data = True
        for p in (pilots if isinstance(pilots, list) else [pilots]):
            self.seen.setdefault(p.uid, []).append(p.state)
            self.n += 1

    def mgr_cb(self, pilot, state, *args):
        if self.data is not None and list(args) != [self.data]:
            self.bad_data = True
        self.seen.setdefault(pilot.uid, []).append(state)
        self.n += 1


def run_notify(case):
    with ch.in_dir() as cwd:
        return _run_notify(case, cwd)


def _run_notify(case, cwd):
    res  = CaseResult()
    n_p  = min(3, max(1, int(case.get('n_pilots', 1))))
    sess = HollowSession(sandbox=cwd)
    pm   = ch.hollow_pmgr(sess)
    sched = ch.hollow_tmgr_scheduler(sess)
    recs = []

    if case.get('mgr_cb_before'):
        r = Recorder('mgr', [])
        pm.register_callback(r.mgr_cb)
        recs.append(r)

    pds = [rp.PilotDescription({'uid': 'pilot.%04d' % i, 'resource': 'local.localhost',
                                'runtime': 10, 'cores': 4, 'exit_on_error': False,
                                'sandbox': sess._cfg.base}) for i in range(n_p)]
    try:
        pilots = pm.submit_pilots(pds)
    except Exception as e:                # noqa
        res.fail(exc_sig('submit_pilots_raised', e), repr(e))
        return res
    known = [p.uid for p in pilots]
    for r in recs:
        # registered before submission: first state seen must follow NEW
        for uid in known:
            r.start[uid] = NEW
    for i, p in enumerate(pilots):
        r = Recorder('pilot', [p], only=p.uid, cb_data=('data' if i == 1 else None))
        if r.data: p.register_callback(r.pilot_cb, cb_data=r.data)
        else     : p.register_callback(r.pilot_cb)
        recs.append(r)

    spub = ru.zmq.Publisher(rpc.STATE_PUBSUB,
                            url=sess._reg['bridges.state_pubsub.addr_pub'])
    cpub = ru.zmq.Publisher(rpc.CONTROL_PUBSUB,
                            url=sess._reg['bridges.control_pubsub.addr_pub'])

    model   = {p.uid: p.state for p in pilots}        # after the real submit
    alt     = {uid: set() for uid in known}           # finals notified once final
    for uid in known:
        if model[uid] != LP:
            res.fail('setup:submit_state', '%s is %s after submit_pilots' % (uid, model[uid]))
            model[uid] = pilots[known.index(uid)].state
    sprev   = {}                                      # scheduler: uid -> last state
    n_gap = n_noop = n_final_late = n_contra = n_unknown = n_multi = n_aborted = 0
    resolved = []

    def real(uid):
        return pilots[known.index(uid)].state

    def acceptable(uid, state):
        m = model[uid]
        if m in FINALS:
            return state == m or state in alt[uid]
        return state == m

    def check_sched(opname):
        for uid, ent in sched._pilots.items():
            s = ent.get('state')
            if uid in sprev:
                o = sprev[uid]
                if s not in VAL or VAL[s] < VAL[o]:
                    res.fail('sched:state_went_backwards', '%s: %s -> %s after %s'
                             % (uid, o, s, opname))
                elif o in FINALS and s not in FINALS:
                    res.fail('sched:left_final', '%s: %s -> %s' % (uid, o, s))
            sprev[uid] = s

    check_sched('submit')

    for op in case.get('ops') or []:
        name = op[0]

        if name == 'reg_mgr_cb':
            r = Recorder('mgr', pilots, cb_data=('mdata' if len(recs) % 2 else None))
            if r.data: pm.register_callback(r.mgr_cb, cb_data=r.data)
            else     : pm.register_callback(r.mgr_cb)
            recs.append(r)
            resolved.append(['reg_mgr_cb'])
            continue

        if name == 'reg_pilot_cb':
            p = pilots[int(op[1]) % n_p]
            r = Recorder('pilot', [p], only=p.uid)
            p.register_callback(r.pilot_cb)
            recs.append(r)
            resolved.append(['reg_pilot_cb', p.uid])
            continue

        # ---- things named by this op
        if name == 'batch':
            things = []
            for pidx, sidx in op[1]:
                k = int(pidx) % (n_p + 2)
                s = STATES[int(sidx) % 8]
                if k == n_p + 1:
                    things.append(('task', 'task.%06d' % (int(sidx) % 8), None))
                elif k == n_p:
                    things.append(('unknown', 'pilot.9000', s))
                else:
                    things.append(('known', known[k], s))
        elif name == 'activate':
            k = int(op[1]) % (n_p + 1)
            things = [('known', known[k], A)] if k < n_p else [('unknown', 'pilot.9000', A)]
        else:
            continue
        resolved.append([name, [[t[1], t[2]] for t in things]])

        before  = {uid: real(uid) for uid in known}
        counts  = [(r, dict((u, len(v)) for u, v in r.seen.items())) for r in recs]
        log0    = len(sess.net.log)
        npilots = len([t for t in things if t[0] != 'task'])
        if npilots > 1:
            n_multi += 1

        try:
            if name == 'batch':
                arg = []
                for kind_, uid, s in things:
                    if kind_ == 'task':
                        arg.append({'uid': uid, 'type': 'task',
                                    'state': rps.AGENT_EXECUTING})
                    else:
                        d = {'uid': uid, 'type': 'pilot', 'state': s}
                        if s in FINALS:
                            d.update({'stdout': 'out', 'stderr': '', 'logfile': None})
                        arg.append(d)
                if len(arg) == 1 and not op[2]:
                    arg = arg[0]
                spub.put(rpc.STATE_PUBSUB, {'cmd': 'update', 'arg': arg})
            else:
                _, uid, s = things[0]
                cpub.put(rpc.CONTROL_PUBSUB,
                         {'cmd': 'pilot_activate',
                          'arg': {'pilot': {'uid': uid, 'type': 'pilot', 'state': s,
                                            'resources': {'cpu': 4, 'gpu': 0}}}})
        except Exception as e:                # noqa
            res.fail(exc_sig('publish_raised', e), repr(e))
            return res

        errs = _cb_errors(sess.net, log0)
        pm_err = [e[3] for e in errs if _tb_in(e[3], 'pilot_manager.py', '/pilot.py')]
        sc_err = [e[3] for e in errs if _tb_in(e[3], 'tmgr/scheduler')]
        for e in errs:
            if e[3] not in pm_err and e[3] not in sc_err:
                res.fail(exc_sig('state_cb_raised', e[3]), repr(e[3]))
        # an exception escaping the callbacks is recorded, not judged here (the
        # enumeration of _pilot_state_progress reports its cause): see NOT_REACHED
        tolerated = True
        for e in pm_err + sc_err:
            if not (isinstance(e, ValueError) and _tb_in(e, 'states.py')):
                tolerated = False
                res.fail(exc_sig('state_cb_raised', e), repr(e))
        if pm_err:
            n_aborted += 1
            res.label('a:batch_aborted_by_exception')

        # ---- model
        expect   = dict(model)
        last_eff = {}                  # uid -> position (among pilot things) of last effective thing
        pos = 0
        for kind_, uid, s in things:
            if kind_ == 'task':
                continue
            if kind_ == 'unknown':
                n_unknown += 1
                pos += 1
                continue
            cur = expect[uid]
            new, ann = model_step(cur, s)
            if cur in FINALS:
                if s in FINALS and s != cur:
                    n_contra += 1
                    alt[uid].add(s)
                elif s not in FINALS:
                    n_final_late += 1
                else:
                    n_noop += 1
            elif not ann:
                n_noop += 1
            elif len(ann) >= 3:
                n_gap += 1
            if ann:
                last_eff[uid] = pos
            expect[uid] = new
            pos += 1

        named = set(t[1] for t in things if t[0] == 'known')
        for uid in known:
            now = real(uid)
            b   = before[uid]
            if uid not in named:
                if now != b:
                    res.fail('foreign_pilot_changed', '%s not named in %r went %s -> %s'
                             % (uid, resolved[-1], b, now))
                    model[uid] = now
                continue
            if VAL.get(now, -9) < VAL[b]:
                res.fail('state_went_backwards', '%s: %s -> %s after %r'
                         % (uid, b, now, resolved[-1]))
            elif b in FINALS and now not in FINALS:
                res.fail('final_left_for_nonfinal', '%s: %s -> %s' % (uid, b, now))
            e = expect[uid]
            if pm_err and tolerated:
                # batch cut short at an unknown position: only "not beyond the
                # model" can be demanded
                if VAL.get(now, -9) > VAL[e]:
                    res.fail('state_differs_from_model:beyond', '%s is %s, model %s after %r'
                             % (uid, now, e, resolved[-1]))
            elif not (now == e or (e in FINALS and now in FINALS and now in alt[uid])):
                if VAL.get(now, -9) < VAL[e] or (e in FINALS and now not in FINALS):
                    where = ('only_or_first_in_batch' if last_eff.get(uid, 0) == 0
                             else 'later_in_batch')
                    res.fail('notification_not_applied:%s' % where,
                             '%s is %s, model %s after %r' % (uid, now, e, resolved[-1]))
                else:
                    res.fail('state_differs_from_model:%s'
                             % ('final' if now in FINALS else 'nonfinal'),
                             '%s is %s, model %s after %r' % (uid, now, e, resolved[-1]))
            # follow the real state (no cascades behind a reported mismatch)
            model[uid] = now if now in VAL else e

        # unknown uids leave everything untouched
        if set(pm._pilots.keys()) != set(known):
            res.fail('unknown_pilot_created', 'pmgr knows %s' % sorted(pm._pilots.keys()))
        for r, cnt in counts:
            for uid, seen in r.seen.items():
                if uid not in known:
                    res.fail('callback_for_unknown_pilot:%s' % r.level, uid)
                elif uid not in named and len(seen) != cnt.get(uid, 0):
                    res.fail('callback_for_foreign_pilot:%s' % r.level,
                             '%s not named in %r' % (uid, resolved[-1]))
        check_sched(name)

    # ---- what the callbacks saw
    for r in recs:
        if r.bad_data:
            res.label('a:cb_data_not_passed')       # API detail, not in the statement
        for uid in known:
            if r.only not in (None, uid):
                continue
            seq  = [r.start.get(uid, NEW)] + r.seen.get(uid, [])
            for a, b in zip(seq, seq[1:]):
                if a not in VAL or b not in VAL:
                    res.fail('cb_saw_unknown_state:%s' % r.level, '%s: %r' % (uid, seq))
                    break
                if VAL[b] < VAL[a]:
                    res.fail('cb_saw_earlier_after_later:%s' % r.level,
                             '%s: %s after %s in %r' % (uid, b, a, seq))
                elif a in FINALS and b not in FINALS:
                    res.fail('cb_saw_final_left:%s' % r.level, '%s: %r' % (uid, seq))
                elif b not in (FAILED, CANCELED) and VAL[b] > VAL[a] + 1:
                    res.fail('cb_gap_not_filled:%s' % r.level,
                             '%s: %s directly after %s in %r' % (uid, b, a, seq))
            if seq[-1] != real(uid):
                res.fail('cb_missed_current_state:%s' % r.level,
                         '%s is %s, callback last saw %s (%r)' % (uid, real(uid), seq[-1], seq))

    res.nontrivial = n_gap >= 1 and (n_noop + n_final_late) >= 1
    res.label('a:pilots=%d' % n_p)
    for lab, n in (('a:gap>=2', n_gap), ('a:dup_or_late', n_noop),
                   ('a:late_nonfinal_after_final', n_final_late),
                   ('a:contradictory_final', n_contra), ('a:unknown_uid', n_unknown),
                   ('a:multi_pilot_batch', n_multi)):
        if n:
            res.label(lab)
    if any(m in FINALS for m in model.values()):
        res.label('a:some_pilot_final')
    if len(recs) > n_p:
        res.label('a:mgr_or_extra_cbs')
    res.key = {'n': n_p, 'before': int(bool(case.get('mgr_cb_before'))), 'ops': resolved}
    return res


# ------------------------------------------------------------------------------
def evidence_extra(col):
    return {'bootstrap_snippet_found': ch.bootstrap_snippet() is not None}
