"""C03 - Released resources come back exactly once and completely.  (DESIGN.md 4/C03)

(a) scheduler pair: every history ends by releasing all holders (generated order); at every
    quiescent point without holders the scheduler's node map must equal the initial one, and a
    probe task sized to the whole pilot must be granted; while holders exist the C01 invariant is
    re-checked at each grant (this module reports both).
(c) NodeList.release_slots against the occupancy model.
(b) executor half: C07's engine (real Popen executor under the deterministic scheduler), here judged
    for "exactly one unschedule publication per accepted task, whatever way it ends".
"""
from . import boot                                    # noqa: F401
from .runner import CaseResult, Part
from . import schedsim, schedgen, nodelistsim, execsim, c07

PID  = 'C03'
RULE = ('scheduler-pair histories with releases in generated order incl. application-placed tasks; '
        'oracle: (1) no holder => node map == initial map (cores, GPUs, lfs, mem; over-credit counts) '
        'and a whole-pilot probe task is granted, (2) while holders exist nothing they hold is granted '
        '(C01 invariant at each grant after a release).  non-trivial = >=2 releases of which one out '
        'of grant order, or a release involving lfs/mem/fractional GPU, or an application-placed '
        'task; nodelist: >=2 releases')
ASSUMPTIONS = ['see C01 (same engine)',
               'the unschedule message carries the task dict the executor received (as the executor publishes it)']
NOT_REACHED = ['real process signals; Flux / Dragon executors']
def normalise(case):
    if case.get('kind') in ('sched', 'sweep', 'dfs'):
        return c07.normalise(case)
    return schedgen.normalise(case)
BUDGET = {'quick': 160, 'thorough': 1500}


def parts(tier):
    T = (tier == 'thorough')      # thorough: larger layouts, longer histories
    return [
        Part('executor_noop', c07.schedules(spawner='NOOP'), quick=80, thorough=600),
        Part('jsrun', schedgen.histories(max_ops=25 if not T else 50, big=T, cls='jsrun', app=False), quick=40, thorough=200),
        Part('jsrun_blocked_resources', schedgen.histories(max_ops=25 if not T else 50, big=T, cls='jsrun', app=False,
                                                           blocked_focus=True), quick=40, thorough=300),
        Part('nodelist', nodelistsim.nl_cases(), quick=250, thorough=2500),
        Part('nodelist_numa', nodelistsim.numa_cases(), quick=60, thorough=600),
        # (b) executor half: every accepted task asks for its release exactly once, whatever
        # way it ends (C07's engine, C03 clauses of its oracle)
        Part('executor', c07.schedules(), quick=150, thorough=1200),
        Part('executor_sweep', enum=c07.sweep_cases),
        Part('continuous', schedgen.histories(max_ops=40 if not T else 80, big=T), quick=200, thorough=1000),
    ]


def run_case(case):
    if case.get('kind') in ('sched', 'sweep', 'dfs'):
        sim = execsim.run_schedule(c07.noop_view(case))
        res = CaseResult()
        seen = set()
        for p, sig, msg in sim.problems:
            if p == PID and (sig, msg) not in seen:
                seen.add((sig, msg))
                res.fail('executor:' + sig, msg)
        endings = set(sim.ending(u) for u in sim.order if u in sim.accepted)
        res.nontrivial = bool(endings - {'exit_zero', 'exit_nonzero'}) and sim.coincide >= 1
        res.label('executor')
        for e in endings:
            res.label('executor:ending=%s' % e)
        return res
    if case.get('kind') == 'nodelist':
        P, s = nodelistsim.run_nodelist(case)
        res = CaseResult()
        for p, sig, msg in P:
            if p == PID:
                res.fail(sig, msg)
        res.nontrivial = s['releases'] >= 2
        res.label('nodelist')
        if s['out_of_order']:
            res.label('nodelist:out_of_order_release')
        return res
    sim = schedsim.run_history(case)
    s = sim.stats
    nt = s['releases'] >= 2 and (s['out_of_order_release'] or s['lfs_mem'] or s['frac_gpu']
                                 or s['app_placed'])
    res = schedgen.to_result(sim, PID, nt)
    # "while a task still holds resources nothing it holds is offered to another task"
    for p, sig, msg in sim.problems:
        if p == 'C01' and sig.split(':')[0] in ('core_held_twice', 'gpu_oversubscribed') \
                and s['releases'] > 0 and not sig.endswith('app_over_sched'):
            res.fail('held_resource_offered:' + sig, msg)
    res.label('cls=%s' % case.get('cls', 'continuous'))
    for k in ('out_of_order_release', 'app_placed', 'probe_ok', 'quiescent_idle', 'cancel_running'):
        if s[k]:
            res.label(k)
    return res
