"""hollow: real radical.pilot classes without their plumbing (DESIGN.md 3.2).

Real methods run unmodified; only constructors with heavy side effects
(session bootstrap, component threads, bridges) are replaced by the few field
initialisations the real methods read.  Those duplicated lines are part of the
trusted base and named in the evidence files.
"""
import os
import queue
import collections
import threading as mt

from . import boot
from .memnet import Net, Fakes

import radical.utils as ru
import radical.pilot as rp
import radical.pilot.states    as rps
import radical.pilot.constants as rpc
import radical.pilot.utils     as rpu

from radical.pilot.resource_config import ResourceConfig


_RCFGS = None


def shipped_rcfgs():
    """resource configs exactly as Session._init_cfg_from_scratch loads them"""
    global _RCFGS
    if _RCFGS is None:
        rcfgs = ru.Config('radical.pilot.resource', name='*', expand=False)
        out = ru.Config()
        errors = {}
        for site in rcfgs:
            out[site] = ru.Config()
            for res, rcfg in rcfgs[site].items():
                try:
                    out[site][res] = ResourceConfig(rcfg)
                except Exception as e:      # noqa  (C17 reports these)
                    errors['%s.%s' % (site, res)] = e
        _RCFGS = (out, errors)
    return _RCFGS


ALL_QUEUES = [rpc.PMGR_LAUNCHING_QUEUE, rpc.TMGR_SCHEDULING_QUEUE,
              rpc.TMGR_STAGING_INPUT_QUEUE, rpc.TMGR_STAGING_OUTPUT_QUEUE,
              rpc.PROXY_TASK_QUEUE, rpc.AGENT_STAGING_INPUT_QUEUE,
              rpc.AGENT_SCHEDULING_QUEUE, rpc.AGENT_EXECUTING_QUEUE,
              rpc.AGENT_STAGING_OUTPUT_QUEUE, rpc.AGENT_COLLECTING_QUEUE,
              'raptor_scheduling_queue']
ALL_PUBSUBS = [rpc.STATE_PUBSUB, rpc.CONTROL_PUBSUB, rpc.LOG_PUBSUB,
               rpc.AGENT_UNSCHEDULE_PUBSUB, rpc.AGENT_SCHEDULE_PUBSUB,
               rpc.TMGR_UNSCHEDULE_PUBSUB, rpc.TMGR_RESCHEDULE_PUBSUB]


class HollowSession(rp.Session):
    """real Session methods on a session that never bootstrapped anything"""

    def __init__(self, net=None, uid='rp.session.verif.0000', module='client',
                 role=None, ns=None, sandbox=None, reg_url=None, bridges=True):
        self._role      = role or rp.Session._PRIMARY
        self._uid       = uid
        self._module    = module
        self._closed    = False
        self._to_stop   = list()
        self._pmgrs     = dict()
        self._tmgrs     = dict()
        self._cmgr      = None
        self._rm        = None
        self._proxy     = None
        self._reporter  = None
        self._proxy_cfg = None
        self._t_start   = 0.0

        self.net   = net or Net()
        self.fakes = Fakes(self.net).install()
        ns = ns if ns is not None else module
        self._ns = ns

        sandbox = sandbox or boot.case_dir('sbox.')
        self._cfg = ru.Config(cfg={'sid': uid, 'base': sandbox,
                                   'path': '%s/%s' % (sandbox, uid),
                                   'client_sandbox': sandbox,
                                   'heartbeat': {'interval': 1, 'timeout': 1000},
                                   'reg_addr': reg_url or 'memreg://%s' % ns,
                                   'bridges': {}, 'components': {}})
        self._rcfgs, self._rcfg_errors = shipped_rcfgs()
        self._rcfg  = ru.Config()
        self._reg   = self.fakes.RegistryClient(self._cfg.reg_addr)

        if bridges:
            self.register_bridges()

        self._prof = boot.PROF
        self._rep  = boot.StubRep()
        self._log  = boot.LOG

        self._cache_lock = ru.RLock()
        self._cache      = {'endpoint_fs'      : dict(),
                            'resource_sandbox' : dict(),
                            'session_sandbox'  : dict(),
                            'pilot_sandbox'    : dict(),
                            'client_sandbox'   : self._cfg.client_sandbox,
                            'js_shells'        : dict(),
                            'fs_dirs'          : dict()}

    def register_bridges(self):
        for q in ALL_QUEUES:
            self._reg['bridges.%s' % q] = self.net.add_queue(q, self._ns)
        for p in ALL_PUBSUBS:
            self._reg['bridges.%s' % p] = self.net.add_pubsub(p, self._ns)

    def _get_logger(self, name, level=None, debug=None):
        return boot.LOG

    def _get_profiler(self, name):
        return boot.PROF

    def _get_reporter(self, name):
        return boot.StubRep()

    def close(self, **kw):
        pass


# ------------------------------------------------------------------------------
def comp_cfg(session, uid, **kw):
    d = {'uid': uid, 'sid': session.uid, 'owner': uid, 'path': session.path,
         'reg_addr': session.reg_addr, 'heartbeat': session.cfg.heartbeat,
         'log_lvl': 'OFF', 'debug_lvl': 0}
    d.update(kw)
    return ru.Config(cfg=d)


def hollow_tmgr(session, uid='tmgr.0000'):
    """TaskManager.__init__ minus component/bridge start-up (fields copied from
    the constructor); the real _initialize() registers the real subscribers."""
    tm = rp.TaskManager.__new__(rp.TaskManager)
    tm._uid         = uid
    tm._known_uids  = set()
    tm._pilots      = dict()
    tm._pilots_lock = mt.RLock()
    tm._tasks       = dict()
    tm._tasks_lock  = mt.RLock()
    tm._callbacks   = dict()
    tm._tcb_lock    = mt.RLock()
    tm._terminate   = mt.Event()
    tm._closed      = False
    tm._task_info   = collections.defaultdict(dict)
    for m in rpc.TMGR_METRICS:
        tm._callbacks[m] = dict()

    cfg = comp_cfg(session, uid, client_sandbox=session._get_client_sandbox())
    rpu.ClientComponent.__init__(tm, cfg, session=session)
    tm._initialize()                      # real: publishers, control subscriber
    tm._rep = boot.StubRep()
    session._tmgrs[uid] = tm

    tm.register_output(rps.TMGR_SCHEDULING_PENDING, rpc.TMGR_SCHEDULING_QUEUE)
    tm._has_sout = True
    tm.register_output(rps.TMGR_STAGING_OUTPUT_PENDING,
                       rpc.TMGR_STAGING_OUTPUT_QUEUE)
    tm.register_subscriber(rpc.STATE_PUBSUB, tm._state_sub_cb)
    tm._rpc_queue = queue.Queue()
    return tm


class HollowPmgr(object):
    """the three things Pilot.__init__ reads from its manager"""
    def __init__(self, session, uid='pmgr.0000'):
        self.session = session
        self._session = session
        self._log    = boot.LOG
        self.uid     = uid
        self._uids   = set()

    def check_uid(self, uid):
        if uid in self._uids:
            return False
        self._uids.add(uid)
        return True


def cleanup():
    """forget per-case objects in two module-level registries (memory and fork speed only):
    BaseComponent.__init__ lists every component for its at-fork hook, TaskManager.initialize
    registers bound methods with radical.utils.atfork"""
    import sys
    import radical.pilot.utils.component as rpu_component
    del rpu_component._components[:]
    try:
        af = sys.modules[ru.atfork.__module__]
        for lst in (af._prepare_call_list, af._parent_call_list, af._child_call_list):
            lst[:] = [f for f in lst if not isinstance(getattr(f, '__self__', None),
                                                       rp.TaskManager)]
    except Exception:
        pass
    boot.sweep_case_dirs()


def real_pilot(pmgr, uid, resource='local.localhost', cores=4, gpus=0,
               nodes=0, runtime=10, sandbox=None, **kw):
    """a real rp.Pilot through its real constructor"""
    d = {'uid': uid, 'resource': resource, 'runtime': runtime,
         'exit_on_error': False,
         'sandbox': sandbox or pmgr.session._cfg.base}
    if nodes:
        d['nodes'] = nodes
    else:
        d['cores'] = cores
        d['gpus']  = gpus
    d.update(kw)
    pd = rp.PilotDescription(d)
    return rp.Pilot(pmgr, pd)
