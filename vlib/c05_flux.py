"""C05, Flux executor part: the real `Flux._handle_event_cb` / `work` bookkeeping fed with the job
events the Flux job manager delivers (event.name / event.context), for several tasks interleaved.

A task's fate is one of
  exit n      : `finish` with the wait status of a process which called exit(n)      (n << 8)
  signal s    : `finish` with the wait status of a process killed by signal s        (s, s | 0x80)
  cancel      : `exception` of type cancel / timeout (a cancel or time limit was requested and hit)
  fatal       : `exception` of another type (the job could not be run)
  lm_failed   : the launch method could not hand the task to Flux
surrounded by the events which carry no state (submit-side noise: priority, free, clean, release,
cleanup, unschedule, start).  Events after the deciding one are not generated (what Flux sends then
is not known here).

Oracle over what the executor hands on / publishes: every task exactly one ending; target state DONE
iff its process exited with code 0, FAILED (non-zero exit code recorded) for any other exit or a
signal, CANCELED iff a cancel / timeout exception was delivered, FAILED for fatal / lm_failed.
"""
import copy
import threading as mt

from hypothesis import strategies as st

from . import boot                                    # noqa: F401
from .runner import CaseResult, exc_sig

import radical.utils           as ru
import radical.pilot.states    as rps
import radical.pilot.constants as rpc                  # noqa: F401

from radical.pilot.agent                import LaunchMethod
from radical.pilot.agent.executing.base import AgentExecutingComponent
from radical.pilot.agent.executing.flux import Flux

NOISE = ['priority', 'free', 'clean', 'cleanup', 'release', 'unschedule', 'start']


class _Null(object):
    def __getattr__(self, name):
        return lambda *a, **k: None


class _Event(object):
    """same shape as flux.job.EventLogEvent"""
    def __init__(self, name, context=None, timestamp=0.0):
        self.name, self.context, self.timestamp = name, context or dict(), timestamp


class _LM(object):
    def __init__(self):
        self.canceled = []

    def start_flux(self, event_cb):
        self.event_cb = event_cb

    def submit_tasks(self, parts):
        pass

    def cancel_task(self, task):
        self.canceled.append(task['uid'])


@st.composite
def fates(draw):
    k = draw(st.sampled_from(['exit', 'exit', 'exit', 'signal', 'signal', 'cancel', 'fatal', 'lm_failed']))
    if k == 'exit':
        return ['exit', draw(st.sampled_from([0, 0, 0, 1, 2, 3, 42, 127, 255]))]
    if k == 'signal':
        return ['signal', draw(st.sampled_from([9, 15, 11, 6, 2])), draw(st.booleans())]
    if k == 'cancel':
        return ['cancel', draw(st.sampled_from(['cancel', 'timeout']))]
    return [k]


@st.composite
def cases(draw):
    n = draw(st.integers(1, 5))
    tasks = []
    for _ in range(n):
        tasks.append({'fate': draw(fates()),
                      'pre': draw(st.lists(st.sampled_from(NOISE), max_size=3)),
                      'no_status': draw(st.integers(0, 9)) == 0})
    # delivery order of the per-task event streams
    flat = [t for t, s in enumerate(tasks) for _ in range(len(s['pre']) + 1)]
    return {'kind': 'flux', 'tasks': tasks, 'order': list(draw(st.permutations(flat)))}


def normalise(case):
    try:
        ts = []
        for t in case.get('tasks', []):
            f = t.get('fate')
            if not isinstance(f, list) or not f or f[0] not in ('exit', 'signal', 'cancel', 'fatal', 'lm_failed'):
                continue
            if f[0] == 'exit' and not (len(f) == 2 and 0 <= int(f[1]) <= 255):
                continue
            if f[0] == 'signal' and not (len(f) == 3 and 1 <= int(f[1]) <= 31):
                continue
            if f[0] == 'cancel' and not (len(f) == 2 and f[1] in ('cancel', 'timeout')):
                continue
            ts.append({'fate': f, 'pre': [e for e in t.get('pre', []) if e in NOISE][:4],
                       'no_status': bool(t.get('no_status')) and f[0] == 'exit'})
        if not ts:
            return None
        return {'kind': 'flux', 'tasks': ts,
                'order': [int(x) % len(ts) for x in case.get('order', []) if isinstance(x, int)]}
    except Exception:
        return None


def _executor(record):
    comp = Flux.__new__(Flux)
    comp._uid  = 'agent_executing.0000'
    comp._log  = _Null()
    comp._prof = _Null()
    comp._session = ru.Config(from_dict={'cfg' : {'pid': 'pilot.0000', 'reg_addr': 'none'},
                                         'rcfg': {'launch_methods': {'FLUX': {}}}})
    comp._rm   = ru.Config(from_dict={'info': {'n_partitions': 1}})
    lm = _LM()

    def base_init(self):
        self._to_tasks = list()
        self._to_lock  = mt.Lock()

    old_init, old_create = AgentExecutingComponent.initialize, LaunchMethod.__dict__['create']
    AgentExecutingComponent.initialize = base_init
    LaunchMethod.create = classmethod(lambda cls, *a, **k: lm)
    try:
        comp.initialize()
    finally:
        AgentExecutingComponent.initialize = old_init
        LaunchMethod.create = old_create

    def advance(things, state=None, publish=True, push=False, ts=None, **kw):
        for t in ru.as_list(things):
            record.append((t['uid'], state, bool(publish), bool(push), copy.deepcopy(
                {k: t.get(k) for k in ('target_state', 'exit_code', 'state')})))

    comp.advance = advance
    comp.publish = lambda *a, **k: None
    return comp, lm


def run_case(case):
    res = CaseResult()
    record = []
    try:
        comp, lm = _executor(record)
    except Exception as e:                            # noqa
        res.fail(exc_sig('flux:setup_raised', e), repr(e))
        return res

    specs = case['tasks']
    uids  = ['task.%06d' % i for i in range(len(specs))]
    tasks = {u: {'uid': u, 'origin': 'client', 'state': rps.AGENT_EXECUTING_PENDING,
                 'task_sandbox_path': boot.SCRATCH,
                 'description': {'uid': u, 'executable': '/bin/true', 'partition': 0}}
             for u in uids}
    # the executor knows the tasks (what `work` does before handing them to Flux)
    for u in uids:
        comp._tasks[u] = tasks[u]

    def deciding(spec):
        f = spec['fate']
        if f[0] == 'exit':
            if spec.get('no_status'):
                return _Event('finish', {})
            return _Event('finish', {'status': int(f[1]) << 8})
        if f[0] == 'signal':
            return _Event('finish', {'status': int(f[1]) | (0x80 if f[2] else 0)})
        if f[0] == 'cancel':
            return _Event('exception', {'type': f[1], 'severity': 0})
        if f[0] == 'fatal':
            return _Event('exception', {'type': 'exec', 'severity': 0})
        return _Event('lm_failed', {})

    streams = [[_Event(e, {}) for e in s['pre']] + [deciding(s)] for s in specs]
    order = list(case.get('order', []))
    order += [t for t, s in enumerate(streams) for _ in s]      # whatever is left, in task order
    pos = [0] * len(streams)
    for t in order:
        if pos[t] >= len(streams[t]):
            continue
        ev = streams[t][pos[t]]
        pos[t] += 1
        try:
            comp._handle_event_cb(uids[t], ev)
        except Exception as e:                        # noqa
            res.fail(exc_sig('flux:event_handler_raised:%s' % ev.name, e),
                     '%s fate %s: %r' % (uids[t], specs[t]['fate'], e))

    kinds = set()
    for u, spec in zip(uids, specs):
        f = spec['fate']
        kinds.add(f[0])
        ends = [r for r in record if r[0] == u and
                (r[1] == rps.AGENT_STAGING_OUTPUT_PENDING or r[1] in rps.FINAL)]
        if len(ends) != 1:
            res.fail('flux:task_ended_%s' % ('never' if not ends else 'twice'),
                     '%s fate %s: %s' % (u, f, ends))
            continue
        _, state, publish, push, snap = ends[0]
        got  = snap['target_state'] if state == rps.AGENT_STAGING_OUTPUT_PENDING else state
        want = rps.DONE     if f == ['exit', 0] and not spec.get('no_status') else \
               rps.CANCELED if f[0] == 'cancel' else rps.FAILED
        if got != want:
            res.fail('flux:outcome_wrong:%s_for_%s' % (got, f[0] if f[0] != 'exit' else
                                                       'exit_zero' if not f[1] else 'exit_nonzero'),
                     '%s fate %s: handed on as %s (exit code %r)' % (u, f, got, snap['exit_code']))
        elif want == rps.FAILED and f[0] in ('exit', 'signal') and not snap['exit_code']:
            res.fail('flux:failed_without_exit_code', '%s fate %s: exit code %r'
                     % (u, f, snap['exit_code']))
        elif want == rps.DONE and snap['exit_code'] != 0:
            res.fail('flux:done_with_exit_code', '%s: %r' % (u, snap['exit_code']))
        if state == rps.AGENT_STAGING_OUTPUT_PENDING and not push:
            res.fail('flux:not_handed_on', '%s fate %s' % (u, f))

    res.nontrivial = len(kinds) >= 2 or bool(kinds & {'signal', 'cancel', 'fatal', 'lm_failed'})
    res.label('executor:flux', *['flux:%s' % k for k in sorted(kinds)])
    res.key = {'flux': [(s['fate'], s['pre'], s.get('no_status')) for s in specs],
               'o': case.get('order')}
    return res
