"""C20 - Raptor workers and masters account for every request.  (DESIGN.md 4/C20)

(c) vlib/c20_disp.py   : real Worker._dispatch_{func,meth,eval,exec,proc,shell} on a
                         hollow worker, payload DSL, oracle on (out, err, ret, val, exc)
                         and on os.environ / process environment / sys.stdout / sys.stderr
(a) vlib/c20_worker.py : real DefaultWorker._alloc/_dealloc/_request_cb/_dispatch/
                         _result_watcher/_result_cb over fake multiprocessing
(b) vlib/c20_master.py : real Master.submit_tasks/_submit_*/_request_cb/_result_cb/
                         _state_cb on a hollow master
"""
from hypothesis import strategies as st

from . import boot                                    # noqa: F401
from .runner import CaseResult, Part
from . import c20_payload as P
from . import c20_disp
from . import c20_worker
from . import c20_master
from . import c20_sched
from . import c20_mpi

PID  = 'C20'
RULE = ('four kinds of cases, all plain data. '
        '(c) dispatch: 1-4 requests dispatched one after the other on one hollow worker, each a '
        'payload program (print / set, delete, read env at os.environ and at process level / replace '
        'a stream / raise / return a value) rendered for its mode (function by name, keyword, async, '
        'PythonTask in 3 forms, eval, exec, proc, shell); non-trivial = some payload prints and '
        '(raises or changes the environment). '
        '(a) worker: a DefaultWorker of 1-8 cores x 0-4 GPUs, 1-10 requests with demands <= size and '
        'a scripted outcome (ok, raise, hang->timeout, late completion at the timeout boundary, '
        'unknown mode, spawn failure, process death), ops (deliver a bulk / run a pending process / '
        'step the result watcher) plus a schedule used whenever _request_cb has to wait for '
        'resources; non-trivial = >= 2 requests held resources at the same time and one of them did '
        'not succeed. '
        '(b) master: 1-10 requests of every mode arriving through submit_tasks (descriptions or '
        'dicts), from the scheduler, or through the run_task service; results with exit code 0 / '
        'non-zero / missing delivered in generated order and bulks; non-trivial = executable and '
        'function-like requests, >= 2 exit code classes, >= 2 results. '
        '(b2) sched: task bulks with raptor_id none / master k / "*", raptor queue registration and '
        'un-registration in generated order, hollow masters behind the queues; non-trivial = a '
        'forwarded, a locally scheduled and a backlogged-or-failed task in one history. '
        'distinct = canonical form of the whole case')
ASSUMPTIONS = [
    'Worker / DefaultWorker / Master / AgentSchedulingComponent are built hollow (constructor and '
    'initialize() fields copied; no registry, zmq, heartbeat, watcher threads, forked processes); '
    'the mode table is filled through the real register_mode',
    'multiprocessing of worker_default is replaced by fakes: a child process is "when its target '
    'runs" (harness-chosen) plus what join / is_alive / terminate report; queues copy by pickle; '
    'the forked children see a private os.environ / pid / cwd',
    'the scheduler of part (b2) grants every placement (placement itself is C01-C04)',
    'transport = in-memory queues / pubsub with msgpack round trip, delivered synchronously',
    'radical.utils.get_version shim (src/radical/pilot/VERSION absent in this tree)',
    'proc / shell requests spawn a real /bin/sh; process-level environment is read through libc '
    'getenv (ctypes)']
NOT_REACHED = ['MPI workers under a real MPI launcher (mpi4py): communicators and rank processes are stand-ins',
               'TASK_METH requests: TaskDescription has no "method" attribute, so no verified '
               'description can reach Worker._dispatch_meth',
               'payloads ending in KeyboardInterrupt; real signals; real races between the request '
               'callback thread and the result watcher other than at the wait-for-resources point',
               'heartbeat / worker registration logic of master and worker']
BUDGET = {'quick': 150, 'thorough': 1200}

ENV_KEYS = c20_disp.ENV_KEYS + ['C20_T']

# ------------------------------------------------------------------------------
TEXT   = st.text(alphabet="ab x'\"$\\%\né", min_size=0, max_size=6)
ENVVAL = st.text(alphabet="abc 1$'\"", min_size=0, max_size=4)
KEY    = st.sampled_from(ENV_KEYS)
VALUE  = st.recursive(
    st.one_of(st.none(), st.booleans(), st.integers(-5, 5),
              st.text(alphabet='ab c', max_size=3)),
    lambda ch: st.one_of(st.lists(ch, max_size=3),
                         st.dictionaries(st.sampled_from(['a', 'b']), ch, max_size=2)),
    max_leaves=4)

OP = st.one_of(
    st.tuples(st.just('out'), TEXT),
    st.tuples(st.just('out'), TEXT),
    st.tuples(st.just('err'), TEXT),
    st.tuples(st.just('setenv'), KEY, ENVVAL),
    st.tuples(st.just('delenv'), KEY),
    st.tuples(st.just('getenv'), KEY),
    st.tuples(st.just('cgetenv'), KEY),
    st.tuples(st.just('swap_out')),
    st.tuples(st.just('swap_err')))
END = st.one_of(
    st.none(),
    st.tuples(st.just('return'), VALUE),
    st.tuples(st.just('return'), VALUE),
    st.tuples(st.just('raise'), st.sampled_from(P.EXC_TYPES),
              st.text(alphabet='ab x', max_size=4)))


@st.composite
def requests(draw, modes):
    mode = draw(st.sampled_from(modes))
    prog = [list(o) for o in draw(st.lists(OP, max_size=6))]
    if draw(st.booleans()):
        # construct the interesting shape: prints, and touches the environment
        prog.insert(draw(st.integers(0, len(prog))), ['out', 'x' + draw(TEXT)])
        prog.insert(draw(st.integers(0, len(prog))),
                    ['setenv', draw(KEY), draw(ENVVAL)])
    end = draw(END)
    if end is not None:
        prog.append(list(end))
    env = draw(st.dictionaries(KEY, ENVVAL, max_size=2))
    return {'mode': mode, 'env': env, 'prog': prog}


@st.composite
def dispatch_cases(draw, sh):
    if sh:
        n_py = draw(st.integers(0, 2))
        reqs = [draw(requests(P.SH_MODES))] + \
               [draw(requests(P.PY_MODES)) for _ in range(n_py)]
        if draw(st.integers(0, 3)) == 0:
            reqs.append(draw(requests(P.SH_MODES)))
        reqs = list(draw(st.permutations(reqs)))
        if draw(st.booleans()):
            # construct it: a process/shell request with an environment of its own, then another
            # one which looks at the same variable without setting it
            k, v = draw(KEY), draw(ENVVAL)
            first  = draw(requests(P.SH_MODES))
            second = draw(requests(P.SH_MODES))
            first['env'] = dict(first['env'], **{k: v or 'x'})
            second['env'] = {kk: vv for kk, vv in second['env'].items() if kk != k}
            second['prog'] = [['getenv', k]] + [o for o in second['prog']
                                                if not (o[0] in ('setenv', 'delenv') and o[1] == k)]
            reqs += [first, second]
    else:
        reqs = draw(st.lists(requests(P.PY_MODES), min_size=1, max_size=3))
    return {'kind': 'dispatch', 'reqs': list(reqs)}


# ------------------------------------------------------------------------------
OUTCOME = st.sampled_from(['ok'] * 10 + ['raise'] * 5 + ['hang'] * 5 + ['badmode'] * 3 +
                          ['spawn_fail'] * 3 + ['late'] * 2 + ['preempt'] * 2 + ['die'] * 2 +
                          ['quick'] * 3)


@st.composite
def worker_cases(draw):
    cores = draw(st.integers(1, 8))
    gpus  = draw(st.integers(0, 4))
    small = draw(st.integers(0, 2)) > 0  # small requests -> many run side by side
    reqs  = []
    for _ in range(draw(st.integers(1, 10))):
        oc = draw(OUTCOME)
        reqs.append({'c': draw(st.integers(1, max(1, cores // 3) if small else cores)),
                     'g': draw(st.integers(0, min(1, gpus) if small else gpus)),
                     'out': oc,
                     'tout': 5 if oc in ('hang', 'late', 'preempt') else draw(st.sampled_from([0, 0, 5]))})
    ops = draw(st.lists(st.one_of(
        st.tuples(st.just('req'), st.integers(1, 4)),
        st.tuples(st.just('req'), st.integers(2, 4)),
        st.tuples(st.just('run'), st.integers(0, 5)),
        st.tuples(st.just('watch'), st.integers(1, 3))), max_size=20))
    sched = draw(st.lists(st.integers(0, 7), max_size=8))
    return {'kind': 'worker', 'cores': cores, 'gpus': gpus, 'reqs': reqs,
            'ops': [list(o) for o in ops], 'sched': sched}


@st.composite
def master_cases(draw):
    reqs = []
    for _ in range(draw(st.integers(1, 10))):
        reqs.append({'mode': draw(st.sampled_from(['executable', 'executable', 'func', 'eval',
                                                   'exec', 'proc', 'shell'])),
                     'via': draw(st.sampled_from(['submit_td', 'submit_td', 'submit_dict',
                                                  'run_task'])),
                     'exit': draw(st.sampled_from([0, 0, 0, 1, 2, 127, -1, None, None])),
                     'drop_key': draw(st.integers(0, 3)) == 0,
                     'ranks': draw(st.integers(0, 2)), 'cpr': draw(st.integers(0, 1))})
    ops = draw(st.lists(st.one_of(
        st.tuples(st.just('submit'), st.integers(1, 4)),
        st.tuples(st.just('sched'), st.integers(1, 4)),
        st.tuples(st.just('result'), st.integers(0, 5), st.integers(1, 3)),
        st.tuples(st.just('exec_done'), st.integers(0, 5)),
        st.tuples(st.just('noise'))), max_size=16))
    return {'kind': 'master', 'reqs': reqs, 'ops': [list(o) for o in ops],
            'hook_trips': draw(st.integers(0, 3)) == 0}


@st.composite
def sched_cases(draw):
    n_m = draw(st.integers(1, 3))
    task = st.fixed_dictionaries({
        'rid' : st.sampled_from(['none', 0, 0, 1, 1, 2, '*']),
        'mode': st.sampled_from(['executable', 'executable', 'func', 'eval', 'exec', 'proc',
                                 'shell', 'worker'])})
    ops = draw(st.lists(st.one_of(
        st.tuples(st.just('tasks'), st.lists(task, min_size=1, max_size=4)),
        st.tuples(st.just('tasks'), st.lists(task, min_size=1, max_size=4)),
        st.tuples(st.just('register'), st.integers(0, 2)),
        st.tuples(st.just('unregister'), st.integers(0, 2)),
        st.tuples(st.just('pump'))), min_size=1, max_size=12))
    ops = [list(o) for o in ops]
    if draw(st.integers(0, 2)):
        # construct the interesting shape: a master is there early, another comes and goes
        ops.insert(draw(st.integers(0, min(2, len(ops)))), ['register', draw(st.integers(0, 2))])
        ops.insert(draw(st.integers(len(ops) // 2, len(ops))),
                   [draw(st.sampled_from(['register', 'unregister'])), draw(st.integers(0, 2))])
    return {'kind': 'sched', 'masters': n_m, 'ops': ops}


# ------------------------------------------------------------------------------
@st.composite
def worker_submit_cases(draw):
    return {'kind': 'worker_submit', 'ranks': draw(st.integers(1, 4)), 'cores': draw(st.integers(1, 8)),
            'gpus': draw(st.integers(0, 2)), 'mem': draw(st.sampled_from([0, 0, 512, 4096])),
            'deprecated': draw(st.booleans()), 'mixed': draw(st.booleans())}


def parts(tier):
    return [Part('dispatch_py', dispatch_cases(False), quick=600, thorough=3000),
            Part('dispatch_sh', dispatch_cases(True),  quick=140, thorough=500),
            Part('worker_streams', worker_cases(),     quick=600, thorough=3000),
            Part('master_streams', master_cases(),     quick=400, thorough=2500),
            Part('sched_forwarding', sched_cases(),    quick=300, thorough=2000),
            Part('worker_submission', worker_submit_cases(), quick=120, thorough=600),
            Part('mpi_worker_streams', c20_mpi.cases(), quick=300, thorough=2500),
            Part('mpi_alloc_vs_dealloc', enum=c20_mpi.alloc_race_cases)]


def run_case(case):
    kind = case.get('kind') if isinstance(case, dict) else None
    if kind == 'dispatch':
        return c20_disp.run_dispatch_case(case)
    if kind == 'worker':
        return c20_worker.run_worker_case(case)
    if kind == 'master':
        return c20_master.run_master_case(case)
    if kind == 'sched':
        return c20_sched.run_sched_case(case)
    if kind == 'worker_submit':
        return c20_master.run_worker_submit(case)
    if kind == 'mpi_worker':
        return c20_mpi.run_case(case)
    if kind == 'mpi_alloc_race':
        return c20_mpi.run_alloc_race(case)
    res = CaseResult()
    return res


def normalise(case):
    if isinstance(case, dict) and case.get('kind') == 'mpi_worker':
        return c20_mpi.normalise(case)
    if isinstance(case, dict) and case.get('kind') == 'mpi_alloc_race':
        return case if all(isinstance(case.get(k), int) for k in ('ranks', 'need', 'holders', 'k1', 'k2')) \
            and 1 <= case['holders'] <= case['ranks'] <= 4 and 1 <= case['need'] <= case['ranks'] else None
    if not isinstance(case, dict) or case.get('kind') not in ('dispatch', 'worker', 'master', 'sched', 'worker_submit'):
        return None
    return case
