"""C18 harness: build the batch-system environment a case describes (node files,
environment variables, qstat / ssh answers, agent config), run the REAL
ResourceManager twice on it (from scratch, then from the registry) and hand back
what both instances report.  Process-global state touched (os.environ, cwd,
ru.sh_callout, base.Process, fork.multiprocessing, _prepare_launch_methods) is
restored after every case.
"""
import os
import copy

from . import boot
from .memnet import Net, Fakes
from . import c18_model as M

import radical.utils as ru

from radical.pilot.agent.resource_manager import base as rm_base
from radical.pilot.agent.resource_manager import fork as rm_fork
from radical.pilot.agent.resource_manager import ResourceManager

REG_URL = 'mem://c18/registry'

# RMInfo is a FastTypedDict: instances share the mutable default values of the
# class, and `_filter_nodes` appends to `agent_node_list` / `service_node_list`
# in place.  One agent process initialises from scratch exactly once, so this is
# invisible in production; a case stands for one fresh agent process, so the
# class defaults are reset per case.
_RMINFO_DEFAULTS = copy.deepcopy(rm_base.RMInfo._defaults)

BATCH_ENV_PREFIXES = ('SLURM_', 'PBS_', 'LSB_', 'COBALT_', 'RADICAL_SMT',
                      'GPU_DEVICE_ORDINAL')


# ------------------------------------------------------------------------------
class FakeProcess(object):
    """stands in for rc.process.Process in `_filter_nodes` (ssh probe)"""

    script  = None     # callable(cmd, nth) -> 'ok' | 'fail' | 'timeout' | 'hang'
    created = []

    def __init__(self, cmd, *a, **k):
        self.cmd     = cmd
        self.nth     = len(FakeProcess.created)
        self.outcome = FakeProcess.script(cmd, self.nth)
        self.retcode = None
        self.stdout  = ''
        self.stderr  = ''
        self.started = False
        FakeProcess.created.append(self)

    def start(self):
        self.started = True

    def wait(self, timeout=None):
        if not self.started:
            return
        if self.outcome == 'ok':
            self.retcode, self.stdout = 0, 'host\n'
        elif self.outcome == 'fail':
            self.retcode, self.stderr = 255, 'ssh: connect to host: No route to host\n'

    def cancel(self):
        if self.outcome == 'timeout':
            self.outcome = 'fail'
            self.retcode = -15
        # 'hang': never ends


class FakeMP(object):
    """stands in for the `multiprocessing` module object in fork.py"""
    def __init__(self, n):
        self._n = n

    def cpu_count(self):
        return self._n


# ------------------------------------------------------------------------------
def _write(path, hosts):
    with open(path, 'w') as f:
        for h in hosts:
            f.write(h + '\n')


def build(case, wdir):
    """-> (env, cfg dict, rcfg dict, qstat (out, err, rc) or None)"""
    rm   = case['rm']
    mode = case.get('mode') or '-'
    smt  = max(1, int(case.get('smt') or 1))
    env  = {}
    qstat = None
    drop = bool(case.get('drop_env'))

    # what bootstrap / the job environment carries (pmgr/launching/base.py)
    env['RADICAL_SMT'] = str(smt)

    if rm == 'SLURM':
        expr, _ = M.slurm_expr(case)
        if not drop:
            if mode in ('SLURM_NODELIST', 'both'):
                env['SLURM_NODELIST'] = expr
            if mode in ('SLURM_JOB_NODELIST', 'both'):
                env['SLURM_JOB_NODELIST'] = expr
        env['SLURM_JOB_ID'] = '4711'
        if case.get('cpus_env', True):
            env['SLURM_CPUS_ON_NODE'] = str(int(case.get('hw') or 0))
        genv = case.get('gpu_env')
        if genv:
            n = max(0, int(case.get('gpu_hw') or 0))
            if genv == 'SLURM_GPUS_ON_NODE':
                env[genv] = str(n)
            elif n:
                env[genv] = ','.join(str(i) for i in range(n))

    elif rm in ('TORQUE', 'LSF', 'COBALT', 'PBSPRO'):
        nf = os.path.join(wdir, 'nodefile')
        _write(nf, M.file_hosts(case))
        if rm == 'TORQUE':
            env['PBS_JOBID'] = '4711.pbs01'
            if not drop:
                env['PBS_NODEFILE'] = nf
        elif rm == 'LSF':
            env['LSB_JOBID'] = '4711'
            if not drop:
                env['LSB_DJOB_HOSTFILE'] = nf
        elif rm == 'COBALT':
            env['COBALT_JOBID'] = '4711'
            if not drop:
                if mode == 'partname':
                    env['COBALT_PARTNAME'] = M.cobalt_expr(case)[0]
                else:
                    env['COBALT_NODEFILE'] = nf
        elif rm == 'PBSPRO':
            if not drop:
                env['PBS_JOBID'] = '4711.pbs01'
            if not case.get('no_nodefile'):
                env['PBS_NODEFILE'] = nf
            if mode == 'qstat_fail':
                qstat = ('', 'qstat: cannot connect to server pbs01 (errno=111)', 1)
            else:
                qstat = (M.qstat_output(case), '', 0)

    elif rm == 'CCM':
        home = os.path.join(wdir, 'home')
        ccm  = os.path.join(home, '.crayccm')
        os.makedirs(ccm)
        env['HOME'] = home
        if not drop:
            cur = os.path.join(ccm, 'nodelist.4711')
            _write(cur, M.file_hosts(case))
            os.utime(cur, (2000000000, 2000000000))
        if case.get('decoy'):
            # node list of an earlier job: older, must not be used
            # (its name sorts before or after the current one: job ids are not ordered strings)
            old = os.path.join(ccm, 'nodelist.4242' if len(case['decoy']) % 2 else 'nodelist.99')
            _write(old, M.file_hosts(case, 'decoy'))
            os.utime(old, (1000000000, 1000000000))
            if drop:
                os.unlink(old)
        _write(os.path.join(ccm, 'ccm_other'), ['zzz'])

    # --- configs, shaped as PMGRLaunchingComponent._prepare_pilot writes them
    cpn = max(0, int(case.get('cpn') or 0))
    sys_arch = {}
    if case.get('smt_cfg') == 'same':
        sys_arch['smt'] = smt
    elif case.get('smt_cfg') == 'other':
        sys_arch['smt'] = smt + 1
    if case.get('blocked_cores') is not None:
        sys_arch['blocked_cores'] = [int(x) for x in case['blocked_cores']]
    if case.get('blocked_gpus') is not None:
        sys_arch['blocked_gpus'] = [int(x) for x in case['blocked_gpus']]

    agents = {}
    for i, tgt in enumerate(case.get('agents') or []):
        agents['agent_%d' % (i + 1)] = {
            'target'    : tgt,
            'components': {'agent_executing': {'count': 1}}}

    rcfg = {'resource_manager'   : rm,
            'cores_per_node'     : cpn,
            'gpus_per_node'      : int(case.get('gpn') or 0),
            'mem_per_node'       : int(case.get('mem') or 0),
            'lfs_size_per_node'  : int(case.get('lfs') or 0),
            'lfs_path_per_node'  : '/tmp',
            'numa_domain_map'    : {},
            'n_partitions'       : 1,
            'fake_resources'     : bool(case.get('fake')),
            'system_architecture': sys_arch,
            'launch_methods'     : {'order': ['FORK'], 'FORK': {}}}

    cfg  = {'uid'              : 'agent_0',
            'sid'              : 'session.c18',
            'pid'              : 'pilot.0000',
            'owner'            : 'pilot.0000',
            'resource'         : 'verif.c18',
            'reg_addr'         : REG_URL,
            'resource_manager' : rm,
            'backup_nodes'     : int(case.get('backup') or 0),
            'nodes'            : int(case.get('nodes') or 0),
            'cores'            : int(case.get('cores') or 0),
            'gpus'             : int(case.get('gpus') or 0),
            'cores_per_node'   : cpn * smt,
            'gpus_per_node'    : int(case.get('gpn') or 0),
            'lfs_path_per_node': '/tmp',
            'lfs_size_per_node': int(case.get('lfs') or 0),
            'agents'           : agents,
            'services'         : []}

    if case.get('services'):
        with open(os.path.join(wdir, 'services'), 'w') as f:
            f.write('service.0000\n')

    return env, cfg, rcfg, qstat


# ------------------------------------------------------------------------------
class Outcome(object):
    def __init__(self):
        self.exc       = None    # exception of the from-scratch instance
        self.info      = None    # rm.info.as_dict() of the from-scratch instance
        self.reg_a     = None    # registry content after the first instance
        self.exc2      = None
        self.info2     = None    # ... of the instance created from the registry
        self.reg_b     = None
        self.probes    = []      # (cmd, outcome) of ssh probes started
        self.qstat     = []      # qstat command lines seen


def drive(case, expect):
    out  = Outcome()
    wdir = boot.fresh_dir('c18.')
    env, cfg_d, rcfg_d, qstat = build(case, wdir)

    # ssh probe answers: by host name; repeated localhost entries by call order
    probe = list(case.get('probe') or ['ok'])
    by_name = {}
    for k, h in enumerate(expect.usable):
        by_name.setdefault(h, probe[k % len(probe)])

    def script(cmd, nth):
        host = cmd.split()[-2] if len(cmd.split()) >= 2 else ''
        if expect.repeat_ok:
            return probe[nth % len(probe)]
        # a host the model does not know is answered by position - offering it
        # is caught by the name clauses
        return by_name.get(host, probe[nth % len(probe)])

    def sh_callout(cmd, *a, **k):
        out.qstat.append(cmd)
        if qstat is None:
            return '', 'command not found', 127
        return qstat

    saved_env   = dict(os.environ)
    saved_cwd   = os.getcwd()
    saved_call  = ru.sh_callout
    saved_proc  = rm_base.Process
    saved_mp    = rm_fork.multiprocessing
    saved_prep  = rm_base.ResourceManager._prepare_launch_methods

    net = Net()
    Fakes(net).install()
    rm_base.RMInfo._defaults = copy.deepcopy(_RMINFO_DEFAULTS)
    try:
        for k in list(os.environ):
            if k.startswith(BATCH_ENV_PREFIXES):
                del os.environ[k]
        os.environ.update(env)
        os.chdir(wdir)
        ru.sh_callout       = sh_callout
        FakeProcess.script  = staticmethod(script)
        FakeProcess.created = []
        rm_base.Process     = FakeProcess
        rm_fork.multiprocessing = FakeMP(max(0, int(case.get('hw') or 0)))
        rm_base.ResourceManager._prepare_launch_methods = lambda self: None

        def make():
            return ResourceManager.create(case['rm'],
                                          ru.Config(cfg=copy.deepcopy(cfg_d)),
                                          ru.Config(cfg=copy.deepcopy(rcfg_d)),
                                          boot.LOG, boot.PROF)
        try:
            rm1 = make()
            out.info = copy.deepcopy(rm1.info.as_dict())
        except Exception as e:          # noqa
            out.exc = e
        out.reg_a  = copy.deepcopy(net.registry(REG_URL))
        out.probes = [(p.cmd, p.outcome) for p in FakeProcess.created]

        if out.exc is None:
            # what scheduler / executor components do in their initialize():
            # same factory call, the registry now holds rm.<name>
            try:
                rm2 = make()
                out.info2 = copy.deepcopy(rm2.info.as_dict())
            except Exception as e:      # noqa
                out.exc2 = e
            out.reg_b = copy.deepcopy(net.registry(REG_URL))
    finally:
        rm_base.ResourceManager._prepare_launch_methods = saved_prep
        rm_fork.multiprocessing = saved_mp
        rm_base.Process = saved_proc
        ru.sh_callout   = saved_call
        os.chdir(saved_cwd)
        os.environ.clear()
        os.environ.update(saved_env)
        Fakes.uninstall()
        import shutil
        shutil.rmtree(wdir, ignore_errors=True)
    return out
