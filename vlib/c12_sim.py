"""C12 helper: the real client-side scheduler component, assembled over memnet.

What is real   : RoundRobin / Backfilling (`_initialize`, `initialize`, `_configure`,
                 `work`, `_control_cb` -> `control_cb`, `_base_state_cb`, `advance`),
                 TaskManager.add_pilots / remove_pilots / submit_tasks / advance
                 (they build the control messages, task dicts and state
                 notifications), Pilot / Task / descriptions, Session sandbox code.
What is hollow : the component constructor (`__new__` + ClientComponent.__init__,
                 the skipped TMGRSchedulingComponent.__init__ only derives a uid),
                 TaskManager / Session construction (vlib.hollow), transport
                 (vlib.memnet, harness-scheduled: nothing is delivered while a
                 component method runs, `drain()` afterwards - callbacks never
                 re-enter a running method through the RLocks).
"""
import os
import traceback

from . import boot                                    # noqa: F401
from .hollow import (HollowSession, HollowPmgr, hollow_tmgr, real_pilot,
                     comp_cfg)
from .memnet import Net

import radical.pilot           as rp
import radical.pilot.states    as rps
import radical.pilot.constants as rpc
import radical.pilot.utils     as rpu

from radical.pilot.task import Task
from radical.pilot.tmgr.scheduler.round_robin import RoundRobin
from radical.pilot.tmgr.scheduler.backfilling import Backfilling

SCHEDULERS = {'round_robin': RoundRobin, 'backfilling': Backfilling}

_SBOX = None


def _sandbox():
    global _SBOX
    if _SBOX is None:
        _SBOX = boot.fresh_dir('c12.')
    return _SBOX


def make_scheduler(name, session, tmgr_uid):
    cls  = SCHEDULERS[name]
    comp = cls.__new__(cls)
    cfg  = comp_cfg(session, '%s.scheduling.0000' % tmgr_uid, owner=tmgr_uid,
                    kind=rpc.TMGR_SCHEDULING_COMPONENT, scheduler=name)
    rpu.ClientComponent.__init__(comp, cfg, session)
    comp._initialize()          # real: publishers, control subscriber, initialize()
    return comp


def _through_scheduler(exc):
    """did the exception pass through a frame of the scheduler component?"""
    for fs in traceback.extract_tb(exc.__traceback__):
        if '/tmgr/scheduler/' in fs.filename.replace(os.sep, '/'):
            return True
    return False


class Obs(object):
    """what one harness action made the components do"""
    __slots__ = ('forwards', 'failed', 'errors', 'other_puts')

    def __init__(self):
        self.forwards   = []    # list of bulks (lists of task dicts) put on TMGR_STAGING_INPUT_QUEUE
        self.failed     = []    # task dicts published FAILED/CANCELED by a component
        self.errors     = []    # (where, exception) raised by scheduler entry points
        self.other_puts = []    # puts to any other queue by a component


class Sim(object):

    def __init__(self, sched_name, pilot_descrs):
        self.net  = Net(auto=False)
        self.sess = HollowSession(net=self.net, sandbox=_sandbox())
        self.tm   = hollow_tmgr(self.sess, 'tmgr.0000')
        # the managers' own bookkeeping of task states is not the subject
        self.tm._subscribers[rpc.STATE_PUBSUB].stop()
        self._tm2    = None                     # the foreign manager (lazy)
        self._fpilot = None                     # its own pilot (lazy)
        self.pm = HollowPmgr(self.sess)
        self.pilots = []
        for i, d in enumerate(pilot_descrs):
            kw = {'nodes': d['nodes']} if d.get('nodes') else {'cores': d['cores']}
            self.pilots.append(real_pilot(self.pm, 'pilot.%04d' % i, **kw))
        self.sched  = make_scheduler(sched_name, self.sess, self.tm.uid)
        self.name   = sched_name

        reg = self.sess._reg
        self.url_fwd   = reg['bridges.%s' % rpc.TMGR_STAGING_INPUT_QUEUE]['addr_put']
        self.url_state = reg['bridges.%s' % rpc.STATE_PUBSUB]['addr_pub']
        self.url_ctrl  = reg['bridges.%s' % rpc.CONTROL_PUBSUB]['addr_pub']
        self._own = set()       # log indexes produced by the harness' own calls
        self._attached = set()  # pilot uids already attached to a manager object

    FUID = 'pilot.f000'

    @property
    def tm2(self):
        if self._tm2 is None:
            self._tm2 = hollow_tmgr(self.sess, 'tmgr.0001')
            self._tm2._subscribers[rpc.STATE_PUBSUB].stop()
        return self._tm2

    @property
    def fpilot(self):
        if self._fpilot is None:
            self._fpilot = real_pilot(self.pm, self.FUID, cores=4)
        return self._fpilot

    # -- plumbing ------------------------------------------------------------
    def _harness(self, fn):
        """a call that *is* the operation (manager API / notification source):
        with auto=False nothing is delivered inside, so every log entry it
        appends is the harness' own"""
        a = len(self.net.log)
        fn()
        self._own.update(range(a, len(self.net.log)))

    def begin(self):
        return len(self.net.log)

    def observe(self, start):
        obs = Obs()
        for i in range(start, len(self.net.log)):
            ev = self.net.log[i]
            if ev[0] == 'cb_error':
                exc = ev[3]
                if _through_scheduler(exc):
                    where = 'control_cb' if ev[1] == self.url_ctrl else 'state_cb'
                    obs.errors.append((where, exc))
                continue
            if i in self._own:
                continue
            if ev[0] == 'put':
                if ev[1] == self.url_fwd:
                    obs.forwards.append(ev[3])
                else:
                    obs.other_puts.append((ev[1], ev[3]))
            elif ev[0] == 'pub' and ev[1] == self.url_state:
                arg = ev[3].get('arg')
                for t in (arg if isinstance(arg, list) else [arg]):
                    if isinstance(t, dict) and t.get('type') == 'task' \
                            and t.get('state') in (rps.FAILED, rps.CANCELED):
                        obs.failed.append(t)
        return obs

    # -- operations ----------------------------------------------------------
    def submit(self, specs):
        """specs: [(uid, named_pid|None, ranks, cores_per_rank)]; through the real
        TaskManager.submit_tasks, then the scheduler's registered input worker"""
        tds = []
        for uid, pid, ranks, cpr in specs:
            d = {'uid': uid, 'executable': '/bin/true', 'ranks': ranks,
                 'cores_per_rank': cpr}
            if pid:
                d['pilot'] = pid
            tds.append(rp.TaskDescription(d))
        self._harness(lambda: self.tm.submit_tasks(tds))
        self.net.drain()
        errors = []
        # what the component's own registered input yields, to its own worker
        for inp in self.sched._inputs.values():
            bulk = inp['queue'].get_nowait(qname=inp['qname'])
            if not bulk:
                continue
            buckets = {}
            for t in bulk:
                buckets.setdefault(t.get('state'), []).append(t)
            for state, things in buckets.items():
                worker = self.sched._workers.get(state)
                if worker is None:
                    errors.append(('work', KeyError('no worker for %s' % state)))
                    continue
                try:
                    worker(things)
                except Exception as e:          # noqa
                    errors.append(('work', e))
        self.net.drain()
        return errors

    def add(self, idxs, foreign=False):
        tm = self.tm2 if foreign else self.tm
        args = []
        for i in idxs:
            p = self.fpilot if i is None else self.pilots[i]
            if foreign or p.uid in self._attached:
                args.append(p.as_dict())      # the documented dict form (re-add,
            else:                             # second manager: attach_tmgr refuses)
                args.append(p)
                self._attached.add(p.uid)
        self._harness(lambda: tm.add_pilots(args))
        self.net.drain()

    def remove(self, idxs, foreign=False):
        tm = self.tm2 if foreign else self.tm
        pids = [self.fpilot.uid if i is None else self.pilots[i].uid for i in idxs]
        # a single pilot is removed by its bare uid every other time (the API takes both forms)
        arg = pids[0] if len(pids) == 1 and len(pids[0]) and int(pids[0][-1], 16) % 2 == 0 else pids
        self._harness(lambda: tm.remove_pilots(arg))
        self.net.drain()

    def pilot_state(self, pilot, state, notify=True, obj=True):
        if obj and pilot._state not in rps.FINAL:
            # the Pilot object as the pilot manager would have updated it
            # (forward only) - add_pilots ships `pilot.state` in its message
            if rps._pilot_state_values[state] > rps._pilot_state_values[pilot._state]:
                pilot._state = state
        if notify:
            d = pilot.as_dict()
            self._harness(lambda: self.tm.advance(d, state, publish=True, push=False))
        self.net.drain()

    def pilot_states_bulk(self, pairs):
        """one notification message carrying several pilots (the launcher advances pilot bulks)"""
        ds = []
        for pilot, state in pairs:
            if pilot._state not in rps.FINAL and \
                    rps._pilot_state_values[state] > rps._pilot_state_values[pilot._state]:
                pilot._state = state
            d = pilot.as_dict()
            d['state'] = state
            ds.append(d)
        self._harness(lambda: self.tm.advance(ds, None, publish=True, push=False))
        self.net.drain()

    def task_states(self, things, foreign=False):
        """one notification message, as `advance(things)` publishes it: short
        dicts for non-final states, the full dict for finals and for '$all'"""
        tm = self.tm2 if foreign else self.tm
        self._harness(lambda: tm.advance(things, None, publish=True, push=False))
        self.net.drain()

    def foreign_task(self, uid, pid):
        td = rp.TaskDescription({'uid': uid, 'executable': '/bin/true'})
        d  = Task(self.tm2, td, 'client').as_dict()
        d['pilot'] = pid
        return d

    # -- scheduler internals read by the oracle --------------------------------
    def waiting_uids(self):
        wp = self.sched._wait_pool
        uids = set(wp.keys()) if isinstance(wp, dict) else set(t['uid'] for t in wp)
        early = set()
        for pid, ts in self.sched._early.items():
            early.update(t['uid'] for t in ts)
        return uids, early

    def bf_info(self, pid):
        return (self.sched._pilots.get(pid) or {}).get('info') or {}
