"""C11 - Staging directives move the named data to the named place.  (DESIGN.md 4/C11)

Drive : real TaskManager.submit_tasks -> Task.__init__ -> expand_description /
        expand_staging_directives; sandbox URLs from the real Pilot constructor
        + Session._get_*_sandbox + tmgr scheduler _assign_pilot; then the four
        real staging components (tmgr input, agent input, agent output, tmgr
        output; hollow, fed through their real work_cb from in-memory queues)
        with StagingHelper and the backend the installation selects, on a fresh
        directory tree per case.  Execution is replaced by the harness: it
        creates the output files and sets target_state.
Oracle: file trees.  After input staging every input directive's target (path
        re-derived from the documented sandbox hierarchy, not from
        complete_url) holds the content of its source, MOVE sources are gone;
        same for output directives of a DONE task; FAILED/CANCELED without
        stage_on_error: no output target appears, with it: all appear; a
        missing source fails that task (final state FAILED) and no other.
"""
import os
import sys
import shutil

from hypothesis import strategies as st

from . import boot                                    # noqa: F401
from .runner import CaseResult, Part, exc_sig
from . import c11_pipe as pipe

import radical.utils           as ru
import radical.pilot           as rp
import radical.pilot.states    as rps
import radical.pilot.constants as rpc

from radical.pilot.staging_directives import expand_staging_directives

PID  = 'C11'
BUDGET = {'quick': 100, 'thorough': 540}
RULE = ('case = bulk of 1-3 tasks, each with 0-4 input and 0-4 output staging directives '
        '(actions transfer/copy/link/move/tarball; dict form with/without action/target/flags, '
        'string forms "src", "src > tgt", "src >> tgt", "tgt < src", "tgt << src"; sources and '
        'targets as relative paths, absolute paths, file://, client:// task:// pilot:// '
        'session:// resource:// endpoint:// URLs, nested directories, files and small '
        'directory trees, missing sources, two-step chains via a shared sandbox), a task '
        'sandbox variant, an outcome DONE/FAILED/CANCELED and stage_on_error; non-trivial = '
        '>=2 directives differing in action or location schema, or a string form with an '
        'operator, or a missing source next to a task without one; distinct = canonical case. '
        'Second part: short-form strings built from path/URL pieces, blanks and the operators '
        '> >> < << (half of them well-formed by construction) through expand_staging_directives; '
        'non-trivial there = exactly one operator with two non-empty sides')
ASSUMPTIONS = [
    'the four stagers are built hollow (Cls.__new__ + Client/AgentComponent.__init__ + real '
    '_initialize/initialize) on a hollow Session with in-memory queues/pubsub (msgpack round '
    'trip); their real work_cb dispatches the bulks',
    'the hops between the components are harness stand-ins: tmgr scheduler (real '
    '_assign_pilot, state advance), Agent_0 proxy callbacks (queue to queue), agent '
    'scheduler + executor (creates the task sandbox and the output files, sets stdout/'
    'stderr/exit_code/target_state)',
    'pilot dict from the real Pilot constructor on a hollow pilot manager, resource '
    'local.localhost with an explicit sandbox; everything lives on one local file system',
    'StagingHelper backend = what the installation selects (radical.saga absent -> '
    'StagingHelper_Local: cp -r / shutil.move / os.link)',
    'tempfile.tempdir is pointed into the scratch dir (tarballs of tmgr staging input)',
    'radical.utils.get_version shim (src/radical/pilot/VERSION absent in this tree)']
NOT_REACHED = [
    'DOWNLOAD (network) and remote (ssh/gsissh/...) schemas; the SAGA backend',
    'Pilot.stage_in/stage_out and PilotDescription.input_staging (pmgr launcher) are not driven',
    'TARBALL as an output action (no component implements or documents it) is not generated',
    'agent-side actions (copy/link/move) with client:// locations (Session._get_client_sandbox '
    'documents them as unsupported), with relative sources on input / relative targets on '
    'output (docs say client cwd, code says task sandbox)',
    'directory sources towards an existing target or with a trailing slash; LINK of a '
    'directory; link type; paths with whitespace or shell meta characters',
    'output staging of tasks that fail inside agent components other than the executor '
    '(they never reach the output stagers)']

ACTION = {'transfer': rpc.TRANSFER, 'copy': rpc.COPY, 'link': rpc.LINK,
          'move': rpc.MOVE, 'tarball': rpc.TARBALL}
CLIENT_SIDE = ('transfer', 'tarball')
AGENT_SIDE  = ('copy', 'link', 'move')
FORMS_STR   = ('bare', '>', '>>', '<', '<<')
FORMS       = ('dict', 'dict_noact') + FORMS_STR
DIRS        = ('da', 'db', 'dc')

# locations allowed per (direction, side): (sources, targets).  See NOT_REACHED
# and DESIGN "Not demanded" for what is left out and why.
LOCS = {
    ('in',  'client'): (('client', 'rel', 'abs', 'file', 'pilot', 'session', 'resource', 'endpoint'),
                        ('rel', 'default', 'task', 'pilot', 'session', 'resource', 'endpoint',
                         'file', 'abs', 'client')),
    ('in',  'agent') : (('pilot', 'session', 'resource', 'endpoint', 'file', 'abs'),
                        ('task', 'rel', 'default', 'pilot', 'session', 'resource', 'endpoint',
                         'file', 'abs')),
    ('out', 'client'): (('rel', 'task', 'pilot', 'session', 'resource', 'endpoint', 'file', 'abs'),
                        ('rel', 'default', 'client', 'abs', 'file', 'endpoint', 'pilot',
                         'session', 'resource', 'task')),
    ('out', 'agent') : (('task', 'rel', 'pilot', 'session', 'resource', 'endpoint', 'file', 'abs'),
                        ('pilot', 'task', 'session', 'resource', 'endpoint', 'file', 'abs')),
}


# ------------------------------------------------------------------------------
# generator
#
def _dirs():
    return st.lists(st.sampled_from(DIRS), min_size=0, max_size=2)


@st.composite
def directive(draw, direction, force=None):
    """one directive spec; force=(action, 'missing') constructs the failing one"""
    if force is None and draw(st.integers(0, 9)) == 0:
        act = draw(st.sampled_from(['copy', 'link'] if direction == 'in'
                                   else ['copy', 'link', 'move']))
        return {'chain': {'via': draw(st.sampled_from(['pilot', 'session', 'resource'])),
                          'act': act, 'td': draw(_dirs())}}
    if force:
        act = force[0]
    else:
        acts = ['transfer', 'transfer', 'copy', 'link', 'move']
        if direction == 'in':
            acts += ['tarball', 'tarball']
        act = draw(st.sampled_from(acts))
    if act == 'transfer':
        form = draw(st.sampled_from(FORMS))
    else:
        form = 'dict'
    side = 'client' if act in CLIENT_SIDE else 'agent'
    srcs, tgts = LOCS[(direction, side)]
    # first entries are the common ones: give them half of the weight
    sl = draw(st.one_of(st.sampled_from(srcs[:3]), st.sampled_from(srcs)))
    if form == 'bare':
        tl = 'default'
    else:
        tl = draw(st.one_of(st.sampled_from(tgts[:3]), st.sampled_from(tgts)))
        if form in FORMS_STR and tl == 'default':
            tl = 'rel'
    if force:
        kind = force[1]
    else:
        kind = draw(st.sampled_from(['file', 'file', 'file', 'dir'] if act != 'link'
                                    else ['file']))
    return {'act': act, 'form': form, 'sl': sl, 'sd': draw(_dirs()),
            'tl': tl, 'td': draw(_dirs()) if tl != 'default' else [],
            'kind': kind,
            'flags': draw(st.sampled_from([None, None, 2, 3])),
            'ws': draw(st.booleans()), 'fh': draw(st.booleans())}


@st.composite
def cases(draw):
    n    = draw(st.integers(1, 3))
    # at most one task of a bulk gets a missing source, so that "fails that
    # task only" has valid neighbours to look at; the failing directive is
    # constructed (action drawn first), not hoped for
    mode = draw(st.sampled_from(['clean', 'clean', 'clean', 'miss_in', 'miss_out']))
    bad  = draw(st.integers(0, n - 1)) if mode != 'clean' else None
    tasks = []
    for i in range(n):
        ins  = draw(st.lists(directive('in'),  min_size=0, max_size=3))
        outs = draw(st.lists(directive('out'), min_size=0, max_size=3))
        outcome = draw(st.sampled_from(['DONE', 'DONE', 'DONE', 'FAILED', 'FAILED', 'CANCELED']))
        if i == bad:
            if mode == 'miss_in':
                act = draw(st.sampled_from(['transfer', 'tarball', 'copy', 'link', 'move']))
                ins.insert(draw(st.integers(0, len(ins))),
                           draw(directive('in', force=(act, 'missing'))))
            else:
                act = draw(st.sampled_from(['transfer', 'copy', 'link', 'move']))
                outs.insert(draw(st.integers(0, len(outs))),
                            draw(directive('out', force=(act, 'missing'))))
                outcome = draw(st.sampled_from(['DONE', 'DONE', 'DONE', 'FAILED']))
        tasks.append({'sandbox': draw(st.sampled_from([0, 0, 1, 2])),
                      'in': ins, 'out': outs, 'outcome': outcome,
                      'soe': draw(st.booleans())})
    case = {'tasks': tasks}
    if draw(st.integers(0, 3)) == 0:
        case['racing_mkdir'] = True
    if draw(st.integers(0, 3)) == 0:
        # absolute paths (and absolute task sandboxes) live on another file system than the
        # sandbox hierarchy, as node-local scratch does
        case['other_fs'] = True
    if draw(st.integers(0, 3)) == 0:
        # pilot-level staging (Pilot.stage_in) of a few files before the tasks are submitted
        case['pre'] = [[draw(st.sampled_from(['pilot', 'pilot', 'session', 'resource', 'rel', 'rel'])),
                        draw(st.sampled_from(['shared.dat', 'cfg/params.dat', 'data/in/x.bin']))]
                       for _ in range(draw(st.integers(1, 3)))]
    return case


# short-form strings as such (DESIGN: the fuzz target, here as a Hypothesis part:
# atheris is not installed): pieces of paths, URLs, blanks and operators
_PIECES = ['a', 'in.dat', 'out', 'da/', 'db/x.y', '/', '/abs/p', 'client:///', 'task:///',
           'pilot:///', 'file:///', 'file://localhost/', '.', '..', '-', '_', '1',
           ' ', '  ', '\t', '>', '>>', '<', '<<', '>', '<']


_WORDS  = [x for x in _PIECES if x.strip() and '<' not in x and '>' not in x]
_BLANKS = ['', '', ' ', '  ', '\t']


@st.composite
def short_forms(draw):
    mode = draw(st.sampled_from(['op', 'op', 'bare', 'raw']))
    side = st.lists(st.sampled_from(_WORDS), min_size=1, max_size=3).map(''.join)
    if mode == 'op':
        # well-formed: one side, one operator, other side (constructed)
        return {'raw': draw(st.sampled_from(_BLANKS)) + draw(side) + draw(st.sampled_from(_BLANKS))
                       + draw(st.sampled_from(['>', '>>', '<', '<<']))
                       + draw(st.sampled_from(_BLANKS)) + draw(side) + draw(st.sampled_from(_BLANKS))}
    if mode == 'bare':
        names = st.lists(st.sampled_from(['a', 'in.dat', 'da', 'db', 'x.y', 'out_1', '-']),
                         min_size=1, max_size=3).map('/'.join)
        return {'raw': draw(st.sampled_from(_BLANKS))
                       + draw(st.sampled_from(['', '', '/', 'client:///', 'task:///', 'pilot:///',
                                               'file:///']))
                       + draw(names) + draw(st.sampled_from(_BLANKS))}
    return {'raw': ''.join(draw(st.lists(st.sampled_from(_PIECES), min_size=1, max_size=7)))}


def parts(tier):
    return [Part('staging_bulks', cases(), quick=400, thorough=2000),
            Part('short_form_strings', short_forms(), quick=400, thorough=4000)]


# ------------------------------------------------------------------------------
# case -> concrete directives + expectations
#
def _sanitise(spec, direction):
    """coerce any (possibly minimiser-made) spec into the generated domain"""
    act  = spec.get('act')
    form = spec.get('form')
    if act not in ACTION:                                act  = 'transfer'
    if form not in FORMS:                                form = 'dict'
    if direction == 'out' and act == 'tarball':          act  = 'transfer'
    if act != 'transfer' and form != 'dict':             form = 'dict'
    side = 'client' if act in CLIENT_SIDE else 'agent'
    srcs, tgts = LOCS[(direction, side)]
    sl = spec.get('sl') if spec.get('sl') in srcs else srcs[0]
    tl = spec.get('tl') if spec.get('tl') in tgts else tgts[0]
    if form == 'bare':                                   tl = 'default'
    elif form in FORMS_STR and tl == 'default':          tl = 'rel'
    kind = spec.get('kind') if spec.get('kind') in ('file', 'dir', 'missing') else 'file'
    if act == 'link' and kind == 'dir':                  kind = 'file'
    sd = [d for d in (spec.get('sd') or []) if d in DIRS][:2]
    td = [d for d in (spec.get('td') or []) if d in DIRS][:2] if tl != 'default' else []
    flags = spec.get('flags') if spec.get('flags') in (None, 2, 3) else None
    return {'act': act, 'form': form, 'sl': sl, 'sd': sd, 'tl': tl, 'td': td,
            'kind': kind, 'flags': flags, 'ws': bool(spec.get('ws')),
            'fh': bool(spec.get('fh')), 'side': side}


class Layout(object):
    """where things are, by the documented sandbox hierarchy
    <workdir>/radical.pilot.sandbox/<session>/<pilot>/<task>; client:// = the
    client's working directory; endpoint:// = file system root"""

    def __init__(self, root, sid, other_fs=False):
        self.client   = os.path.join(root, 'client')
        self.remote   = os.path.join(root, 'remote')
        self.other    = os.path.join(root, 'other')        # "somewhere else" for absolute paths
        self.other_fs = False
        if other_fs and boot.other_fs_root():
            # "somewhere else" is on another file system than the sandboxes (node-local scratch)
            self.other    = boot.other_fs_dir('c11.')
            self.other_fs = True
        self.resource = os.path.join(self.remote, 'radical.pilot.sandbox')
        self.session  = os.path.join(self.resource, sid)
        self.pilot    = os.path.join(self.session, pipe.PID)
        for d in (self.client, self.remote, self.other):
            os.makedirs(d, exist_ok=True)

    def close(self):
        if self.other_fs:
            shutil.rmtree(self.other, ignore_errors=True)

    def task_sandbox(self, uid, variant):
        if variant == 1: return os.path.join(self.pilot, 'sbox_' + uid), 'sbox_' + uid
        if variant == 2:
            p = os.path.join(self.other, 'abs_sbox_' + uid)
            return p, p
        return os.path.join(self.pilot, uid), None


def _place(lay, tsbox, loc, dirs, base, rel_base, fh):
    """(string as the user writes it, absolute path it denotes)"""
    tail = '/'.join(list(dirs) + [base])
    if loc in ('rel', 'default'):
        return tail, os.path.join(rel_base, tail)
    if loc in ('abs', 'file', 'endpoint'):
        path = os.path.join(lay.other, tail)
        if loc == 'abs':      return path, path
        if loc == 'endpoint': return 'endpoint://' + path, path
        return ('file://localhost' if fh else 'file://') + path, path
    root = {'client': lay.client, 'task': tsbox, 'pilot': lay.pilot,
            'session': lay.session, 'resource': lay.resource}[loc]
    return '%s:///%s' % (loc, tail), os.path.join(root, tail)


def _content(tag, kind):
    if kind == 'dir':
        return {'a.txt': 'A of %s\n' % tag, 'sub/b.txt': 'B of %s\n' % tag * 3}
    return 'payload of %s\n' % tag * (1 + len(tag) % 3)


def _materialise(lay, tsbox, direction, ti, specs):
    """-> (directives as handed to TaskDescription, expectations)"""
    sds, exps = [], []
    d = 'i' if direction == 'in' else 'o'
    for k, raw in enumerate(specs):
        tag = '%s%dn%d' % (d, ti, k)

        if isinstance(raw, dict) and 'chain' in raw:
            ch  = raw['chain'] if isinstance(raw['chain'], dict) else {}
            via = ch.get('via') if ch.get('via') in ('pilot', 'session', 'resource') else 'pilot'
            ok  = ('copy', 'link') if direction == 'in' else ('copy', 'link', 'move')
            act = ch.get('act') if ch.get('act') in ok else 'copy'
            if lay.other_fs and act == 'link':
                act = 'copy'                          # hard links do not cross file systems
            td  = [x for x in (ch.get('td') or []) if x in DIRS][:2]
            cnt = _content(tag, 'file')
            mid_s, mid_p = _place(lay, tsbox, via, ['stage'], tag + '.mid', None, False)
            if direction == 'in':
                a_s, a_p = _place(lay, tsbox, 'client', [], tag + '.dat', None, False)
                z_s, z_p = _place(lay, tsbox, 'task',   td, tag + '.out', None, False)
                steps = [('transfer', a_s, a_p, mid_s, mid_p), (act, mid_s, mid_p, z_s, z_p)]
            else:
                a_s, a_p = _place(lay, tsbox, 'task',   [], tag + '.dat', None, False)
                z_s, z_p = _place(lay, tsbox, 'client', td, tag + '.out', None, False)
                steps = [(act, a_s, a_p, mid_s, mid_p), ('transfer', mid_s, mid_p, z_s, z_p)]
            for n, (a, s_s, s_p, t_s, t_p) in enumerate(steps):
                sds.append({'source': s_s, 'target': t_s, 'action': ACTION[a]})
                exps.append({'act': a, 'form': 'dict', 'src': s_p, 'tgt': t_p,
                             'content': cnt, 'create': a_p if n == 0 else None,
                             'moved': a == 'move', 'chain': True, 'sl': 'chain', 'tl': 'chain',
                             'src_s': s_s, 'tgt_s': t_s, 'kind': 'file', 'tag': tag})
            continue

        sp = _sanitise(raw if isinstance(raw, dict) else {}, direction)
        if lay.other_fs and sp['act'] == 'link':
            sp = dict(sp, act='copy')                 # hard links do not cross file systems
        # defaults for relative paths (only generated where docs and code agree)
        if direction == 'in':
            rel_src = lay.client                      # client-side only
            rel_tgt = tsbox
        else:
            rel_src = tsbox
            rel_tgt = lay.client                      # client-side only
        ext = '.d' if sp['kind'] == 'dir' else '.dat'
        s_s, s_p = _place(lay, tsbox, sp['sl'], sp['sd'], tag + ext, rel_src, sp['fh'])
        if sp['tl'] == 'default':
            t_s, t_p = None, os.path.join(rel_tgt, tag + ext)
        else:
            t_s, t_p = _place(lay, tsbox, sp['tl'], sp['td'], tag + '.out', rel_tgt, sp['fh'])

        form = sp['form']
        if form in ('dict', 'dict_noact'):
            sd = {'source': s_s}
            if t_s is not None:         sd['target'] = t_s
            if form == 'dict':          sd['action'] = ACTION[sp['act']]
            if sp['flags'] is not None: sd['flags']  = sp['flags']
        elif form == 'bare':
            sd = s_s
        else:
            sep = ' ' if sp['ws'] else ''
            if form in ('>', '>>'): sd = '%s%s%s%s%s' % (s_s, sep, form, sep, t_s)
            else:                   sd = '%s%s%s%s%s' % (t_s, sep, form, sep, s_s)
        sds.append(sd)
        exps.append({'act': sp['act'], 'form': form, 'src': s_p, 'tgt': t_p,
                     'content': None if sp['kind'] == 'missing' else _content(tag, sp['kind']),
                     'create': s_p, 'moved': sp['act'] == 'move', 'chain': False,
                     'sl': sp['sl'], 'tl': sp['tl'], 'kind': sp['kind'], 'tag': tag,
                     'src_s': s_s, 'tgt_s': t_s if t_s is not None else os.path.basename(s_p)})
    return sds, exps


# ------------------------------------------------------------------------------
# file tree helpers
#
def _write(path, content):
    if content is None or path is None:
        return
    if isinstance(content, dict):
        for rel, txt in content.items():
            _write(os.path.join(path, rel), txt)
        return
    os.makedirs(os.path.dirname(path), exist_ok=True)
    with open(path, 'w') as f:
        f.write(content)


def _read(path):
    """None: absent; str: file content; dict: relative file path -> content"""
    if not os.path.lexists(path):
        return None
    if os.path.isdir(path):
        out = {}
        for dp, _, fns in os.walk(path):
            for fn in fns:
                full = os.path.join(dp, fn)
                try:
                    with open(full, errors='replace') as f:
                        out[os.path.relpath(full, path)] = f.read()
                except OSError as e:
                    out[os.path.relpath(full, path)] = '<unreadable %s>' % type(e).__name__
        return out
    try:
        with open(path, errors='replace') as f:
            return f.read()
    except OSError as e:
        return '<unreadable %s>' % type(e).__name__


def _short(x):
    s = repr(x)
    return s if len(s) < 200 else s[:200] + '...'


# ------------------------------------------------------------------------------
def _run_short_form(case, res):
    """string short form -> dict: the two sides of the one operator end up as
    source and target (by the direction of the arrow), blanks stripped; no
    operator: target is the base name of the source path; action TRANSFER"""
    import re
    raw = case.get('raw')
    if not isinstance(raw, str):
        return
    ops = re.findall(r'[<>]+', raw)
    if len(ops) > 1 or (ops and ops[0] not in ('>', '>>', '<', '<<')):
        res.label('sf:not_wellformed')          # nothing demanded
        want = None
    elif ops:
        left, right = [x.strip() for x in raw.split(ops[0])]
        if not left or not right:
            res.label('sf:empty_side')
            want = None
        elif re.search(r'\s', left + right):
            res.label('sf:inner_blank')         # whitespace in paths: outside the domain
            want = None
        else:
            res.label('sf:one_op', 'sf:op%s' % ops[0])
            want = (left, right) if ops[0][0] == '>' else (right, left)
    else:
        src = raw.strip()
        m = re.match(r'^(?:(client|task|pilot|file):///)?([^:\s]*)$', src)
        path = m.group(2) if m else ''
        if not path or path.endswith('/') or path.endswith('.') or '//' in path \
                or (m.group(1) and path.startswith('/')):
            res.label('sf:bare_odd')            # empty / directory-like / odd URL: not demanded
            want = None
        else:
            res.label('sf:bare')
            want = (src, os.path.basename(path))
    try:
        got = expand_staging_directives([raw])
    except ValueError:
        if want:
            res.fail('short_form_rejected:%s' % (ops[0] if ops else 'bare'), repr(raw))
        return
    except Exception as e:                                              # noqa
        if want:
            res.fail(exc_sig('short_form_raised', e), '%r: %r' % (raw, e))
        return
    if want is None:
        return
    res.nontrivial = bool(ops)
    if len(got) != 1:
        res.fail('short_form_count', '%r -> %r' % (raw, got))
        return
    have = (got[0].get('source'), got[0].get('target'))
    if have != want or got[0].get('action') != rpc.TRANSFER:
        res.fail('short_form_wrong:%s' % (ops[0] if ops else 'bare'),
                 '%r -> source %r target %r action %r, expected source %r target %r action %r'
                 % (raw, have[0], have[1], got[0].get('action'), want[0], want[1], rpc.TRANSFER))


def run_case(case):
    res  = CaseResult()
    if 'raw' in case:
        _run_short_form(case, res)
        return res
    root = boot.fresh_dir('c11.')
    box  = []
    real_makedirs = os.makedirs
    if case.get('racing_mkdir'):
        # several stagers (agent staging components, client and agent on a shared file system) work
        # at the same time: whenever this one is about to create a directory, another one has just
        # created it
        def makedirs(path, mode=0o777, exist_ok=False):
            p = os.path.abspath(path)
            caller = sys._getframe(1).f_code.co_filename
            # (only directory creation done by the package / radical.utils: the standard library's
            # tarfile has a check-then-create window of its own)
            if 'radical' in caller and not os.path.isdir(p) and \
                    (p.startswith(root) or p.startswith('/dev/shm/rpverif.')):
                real_makedirs(p, exist_ok=True)
            return real_makedirs(path, mode, exist_ok)
        os.makedirs = makedirs
        res.label('directories_created_concurrently')
    try:
        _run(case, res, root, box)
    finally:
        os.makedirs = real_makedirs
        for p in box:
            p.close()
        shutil.rmtree(root, ignore_errors=True)
    return res


def _exc_type(text):
    """'FileNotFoundError(2, ...)' -> 'FileNotFoundError'"""
    if not text:
        return 'none'
    head = str(text).split('(')[0].strip()
    return head if head.isidentifier() else 'other'


def _final(states):
    fin = [s for s in states if s in rps.FINAL]
    return fin[-1] if fin else None


def _check_targets(res, clause, exps, label):
    for e in exps:
        got = _read(e['tgt'])
        where = '%s %s [%s] %r -> %r' % (label, e['act'], e['form'], e['src_s'], e['tgt_s'])
        if got is None:
            res.fail('%s_target_missing:%s' % (clause, e['act']),
                     '%s: nothing at %s' % (where, e['tgt']))
        elif got != e['content']:
            res.fail('%s_target_content:%s' % (clause, e['act']),
                     '%s: %s holds %s, source held %s'
                     % (where, e['tgt'], _short(got), _short(e['content'])))
        if e['moved'] and os.path.lexists(e['src']):
            res.fail('%s_move_source_remains' % clause, '%s: %s still exists' % (where, e['src']))


def _run(case, res, root, box):

    sid = 'rp.session.verif.0000'
    lay = Layout(root, sid, other_fs=bool(case.get('other_fs')))
    box.append(lay)
    if lay.other_fs:
        res.label('absolute_paths_on_another_file_system')
    pre = [(str(x[0]), str(x[1])) for x in (case.get('pre') or [])
           if isinstance(x, (list, tuple)) and len(x) == 2 and x[0] in ('pilot', 'session', 'resource', 'rel')]
    p   = pipe.Pipe(lay.client, lay.remote, pre_stage=pre)
    box.append(p)
    assert p.sess.uid == sid
    if pre:
        res.label('pilot_level_stage_in_before_tasks')
        # a relative (schema-less) target is relative to the pilot sandbox (Pilot.stage_in docs)
        roots = {'pilot': lay.pilot, 'session': lay.session, 'resource': lay.resource, 'rel': lay.pilot}
        for (loc, name), got in zip(pre, p.pre_targets or []):
            want = os.path.join(roots[loc], name)
            have = ru.Url(got).path
            if os.path.normpath(have) != os.path.normpath(want):
                res.fail('pilot_stage_in_target:%s' % loc,
                         'directive %s resolved to %s, the %s sandbox is %s'
                         % (name if loc == 'rel' else '%s:///%s' % (loc, name), got,
                            'pilot' if loc == 'rel' else loc, roots[loc]))

    # ---- descriptions
    T = []
    for ti, tc in enumerate(case.get('tasks') or []):
        if not isinstance(tc, dict):
            continue
        uid = 'task.%06d' % ti
        tsbox, sbox_attr = lay.task_sandbox(uid, tc.get('sandbox'))
        i_sds, i_exp = _materialise(lay, tsbox, 'in',  ti, tc.get('in')  or [])
        o_sds, o_exp = _materialise(lay, tsbox, 'out', ti, tc.get('out') or [])
        outcome = tc.get('outcome') if tc.get('outcome') in ('DONE', 'FAILED', 'CANCELED') else 'DONE'
        d = {'uid': uid, 'executable': '/bin/true',
             'input_staging': i_sds, 'output_staging': o_sds,
             'stage_on_error': bool(tc.get('soe'))}
        if sbox_attr:
            d['sandbox'] = sbox_attr
        T.append({'uid': uid, 'tsbox': tsbox, 'i_exp': i_exp, 'o_exp': o_exp, 'descr': d,
                  'outcome': outcome, 'soe': bool(tc.get('soe')),
                  'i_sds': i_sds, 'o_sds': o_sds})
    if not T:
        res.label('empty')
        return

    # sources of input directives exist before submission
    for t in T:
        for e in t['i_exp']:
            _write(e['create'], e['content'])

    by_uid = {t['uid']: t for t in T}

    # ---- submission: Task.__init__ -> expand_description
    try:
        tasks = p.submit([rp.TaskDescription(t['descr']) for t in T])
    except Exception as e:                                              # noqa
        res.fail(exc_sig('submit_raised', e), repr(e))
        return

    for td in tasks:
        t = by_uid[td['uid']]
        for key, sds, exps in (('input_staging', t['i_sds'], t['i_exp']),
                               ('output_staging', t['o_sds'], t['o_exp'])):
            got = td['description'].get(key) or []
            if len(got) != len(exps):
                res.fail('expand_count', '%s: %d directives became %d' % (key, len(exps), len(got)))
                continue
            for g, e, sd in zip(got, exps, sds):
                want = (e['src_s'], e['tgt_s'], ACTION[e['act']])
                have = (g.get('source'), g.get('target'), g.get('action'))
                if want != have:
                    res.fail('expand_wrong:%s' % e['form'],
                             '%r expanded to %r, expected %r' % (sd, have, want))
            # "repeated calls on the same description instance will have no effect"
            try:
                again = expand_staging_directives(got)
                a = [{k: v for k, v in x.items() if k != 'uid'} for x in again]
                b = [{k: v for k, v in x.items() if k != 'uid'} for x in got]
                if a != b:
                    res.fail('expand_not_idempotent', '%r -> %r' % (b, a))
            except Exception as e:                                      # noqa
                res.fail(exc_sig('expand_again_raised', e), repr(e))
        if os.path.normpath(td.get('task_sandbox_path') or '') != os.path.normpath(t['tsbox']):
            res.fail('task_sandbox_not_as_documented',
                     '%s: %s, documented hierarchy gives %s'
                     % (td['uid'], td.get('task_sandbox_path'), t['tsbox']))
    if res.problems:
        return

    # ---- input staging
    try:
        after_tin = p.tmgr_in(tasks)
    except Exception as e:                                              # noqa
        res.fail(exc_sig('component_raised:tmgr_in', e), repr(e))
        return
    for td in after_tin:
        if td['state'] != rps.AGENT_STAGING_INPUT_PENDING:
            res.fail('handover_state:tmgr_in', '%s arrives at the agent as %s' % (td['uid'], td['state']))
    try:
        after_ain = p.agent_in(after_tin)
    except Exception as e:                                              # noqa
        res.fail(exc_sig('component_raised:agent_in', e), repr(e))
        return

    tin_uids = set(td['uid'] for td in after_tin)
    ain_uids = set(td['uid'] for td in after_ain)
    pubs, excs = p.published_states()

    for t in T:
        uid   = t['uid']
        miss  = [e for e in t['i_exp'] if e['content'] is None]
        final = _final(pubs.get(uid, []))
        if uid in ain_uids:
            if miss:
                for e in miss:
                    res.fail('in_missing_source_not_failed:%s' % e['act'],
                             '%s passed input staging although the source of %s %r (%s) does not exist'
                             % (uid, e['act'], e['src_s'], e['src']))
                continue
            if final is not None:
                res.fail('in_passed_but_final', '%s was passed on and published %s' % (uid, final))
            _check_targets(res, 'in', t['i_exp'], uid)
        else:
            where = 'agent_in' if uid in tin_uids else 'tmgr_in'
            if not miss:
                res.fail('in_valid_task_not_passed:%s:%s' % (where, _exc_type(excs.get(uid))),
                         '%s (all sources exist) did not pass %s; published %s, exception %s; actions %s'
                         % (uid, where, pubs.get(uid, [])[-2:], excs.get(uid),
                            sorted(set(e['act'] for e in t['i_exp']))))
            elif final != rps.FAILED:
                res.fail('in_missing_source_state:%s' % where,
                         '%s vanished in %s with published states %s' % (uid, where, pubs.get(uid)))

    # ---- execution (harness) and output staging
    ran = []
    for td in after_ain:
        t = by_uid[td['uid']]
        if td['state'] != rps.AGENT_SCHEDULING_PENDING:
            res.fail('handover_state:agent_in', '%s leaves input staging as %s' % (td['uid'], td['state']))
        pipe.execute(td, t['outcome'], 0 if t['outcome'] == 'DONE' else 1)
        for e in t['o_exp']:
            _write(e['create'], e['content'])
        ran.append(td)

    try:
        after_aout = p.agent_out(ran)
    except Exception as e:                                              # noqa
        res.fail(exc_sig('component_raised:agent_out', e), repr(e))
        return
    for td in after_aout:
        if td['state'] != rps.TMGR_STAGING_OUTPUT_PENDING:
            res.fail('handover_state:agent_out', '%s arrives at the client as %s' % (td['uid'], td['state']))
    try:
        p.tmgr_out(after_aout)
    except Exception as e:                                              # noqa
        res.fail(exc_sig('component_raised:tmgr_out', e), repr(e))
        return

    pubs, excs = p.published_states()
    aout_uids = set(td['uid'] for td in after_aout)
    for td in ran:
        uid   = td['uid']
        t     = by_uid[uid]
        miss  = [e for e in t['o_exp'] if e['content'] is None]
        final = _final(pubs.get(uid, []))
        where = 'tmgr_out' if uid in aout_uids else 'agent_out'
        if final is None:
            res.fail('no_final_state:%s' % where, '%s: published %s' % (uid, pubs.get(uid)))
            continue
        if t['outcome'] == 'DONE':
            if miss:
                if final != rps.FAILED:
                    for e in miss:
                        res.fail('out_missing_source_not_failed:%s' % e['act'],
                                 '%s ended %s although the source of %s %r (%s) does not exist'
                                 % (uid, final, e['act'], e['src_s'], e['src']))
                continue
            if final != rps.DONE:
                res.fail('out_valid_task_not_done:%s:%s' % (where, _exc_type(excs.get(uid))),
                         '%s (all sources exist) ended %s, exception %s; actions %s'
                         % (uid, final, excs.get(uid), sorted(set(e['act'] for e in t['o_exp']))))
                continue
            _check_targets(res, 'out', t['o_exp'], uid)
        elif not t['soe']:
            if final != t['outcome']:
                res.fail('out_final_state:%s' % t['outcome'], '%s ended %s' % (uid, final))
            for e in t['o_exp']:
                if os.path.lexists(e['tgt']):
                    res.fail('out_staged_despite_failure:%s' % e['act'],
                             '%s is %s without stage_on_error, yet %s %r -> %r was carried out'
                             % (uid, t['outcome'], e['act'], e['src_s'], e['tgt_s']))
        else:
            if miss:
                if final not in (t['outcome'], rps.FAILED):
                    res.fail('out_final_state:%s' % t['outcome'], '%s ended %s' % (uid, final))
                continue
            if final != t['outcome']:
                res.fail('out_final_state:%s' % t['outcome'],
                         '%s (stage_on_error, all sources exist) ended %s' % (uid, final))
            _check_targets(res, 'out_on_error', t['o_exp'], uid)

    if p.leftovers():
        res.fail('task_left_in_queue', repr({k: {q: len(v) for q, v in qs.items() if v}
                                             for k, qs in p.net.queues.items()
                                             if any(qs.values())}))

    _classify(res, T, p)


def _classify(res, T, p):
    n_dir = 0
    feats = set()
    has_op = False
    miss_tasks, ok_tasks = 0, 0
    for t in T:
        m = False
        for d, exps in (('in', t['i_exp']), ('out', t['o_exp'])):
            for e in exps:
                n_dir += 1
                feats.add((e['act'], e['sl'], e['tl']))
                res.label('%s:%s' % (d, e['act']), 'form:%s' % e['form'],
                          'src:%s' % e['sl'], 'tgt:%s' % e['tl'], 'kind:%s' % e['kind'])
                if e['chain']:
                    res.label('chain_step')
                if e['form'] in ('>', '>>', '<', '<<'):
                    has_op = True
                if e['content'] is None:
                    m = True
                    res.label('missing:%s:%s' % (d, e['act']))
        miss_tasks += m
        ok_tasks   += not m
        res.label('outcome:%s%s' % (t['outcome'], '+soe' if t['soe'] and t['outcome'] != 'DONE' else ''))
    res.label('bulk=%d' % len(T), 'backend:%s' % p.backend)
    if miss_tasks and ok_tasks:
        res.label('missing_next_to_valid')
    res.nontrivial = (len(feats) >= 2 or has_op or bool(miss_tasks and ok_tasks))
