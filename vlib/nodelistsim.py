"""application-level placement API (NodeList.find_slots / release_slots, Node.find_slot /
allocate_slot / deallocate_slot) against an occupancy model.  Used by C01 (b), C02, C03 (c)."""
import copy

from hypothesis import strategies as st

from . import boot                                      # noqa: F401
from .runner import exc_sig

import radical.pilot.constants as rpc
from radical.pilot.resource_config import (Node, NodeList, RankRequirements, NumaNode,
                                           NumaDomain)

EPS = 1e-9
OCC = [1.0, 1.0, 1.0, 0.5, 0.25]


@st.composite
def nl_cases(draw):
    n = draw(st.integers(1, 5))
    c = draw(st.sampled_from([1, 2, 4, 4, 6, 8, 8]))
    g = draw(st.sampled_from([0, 1, 2, 4]))
    lfs = draw(st.sampled_from([0, 100, 1000]))
    mem = draw(st.sampled_from([0, 128, 1024]))
    bc = draw(st.lists(st.integers(0, c - 1), max_size=min(2, c - 1), unique=True)) \
        if c > 1 and draw(st.integers(0, 2)) == 0 else []
    bg = draw(st.lists(st.integers(0, g - 1), max_size=max(1, g - 1), unique=True)) \
        if g and draw(st.integers(0, 3)) == 0 else []
    ops = []
    for _ in range(draw(st.integers(2, 30))):
        k = draw(st.integers(0, 9))
        if k < 6:
            # (now and then a request without cores: a rank holds at least one core, it is refused)
            rr = {'n_cores': 0 if draw(st.integers(0, 19)) == 0 else
                             draw(st.integers(1, c + (1 if draw(st.integers(0, 15)) == 0 else 0))),
                  'core_occupation': draw(st.sampled_from(OCC)),
                  'n_gpus': draw(st.integers(0, g + (1 if draw(st.integers(0, 15)) == 0 else 0))),
                  'gpu_occupation': draw(st.sampled_from(OCC)),
                  'lfs': draw(st.sampled_from([0, 0, lfs // 3, lfs // 2 + 1, lfs + 1])),
                  'mem': draw(st.sampled_from([0, 0, mem // 3, mem // 2 + 1, mem + 1]))}
            ops.append(['find', rr, draw(st.integers(1, 6))])
        else:
            ops.append(['release', draw(st.integers(0, 9))])
    numa = 0
    if c >= 2 and draw(st.integers(0, 1)) == 0:
        numa = draw(st.sampled_from([2, 3, 3]))     # 2: contiguous halves, 3: interleaved numbering
        for op in ops:
            if op[0] == 'find' and draw(st.booleans()):
                op[1]['numa'] = True
    idx = list(range(n))
    if draw(st.integers(0, 3)) == 0:
        k = draw(st.integers(0, n - 1))              # one allocated node (#k of n+1) is not offered
        idx = [i for i in range(n + 1) if i != k]
    via_pilot = False
    if not numa and draw(st.booleans()):
        via_pilot = True
        for _ in range(draw(st.integers(1, 3))):
            ops.insert(draw(st.integers(1, len(ops))), ['pilot_update'])
    # the Fork / Debug resource managers name every (virtual) node after the host: nodes are told
    # apart by their index only
    same = draw(st.integers(0, 2)) == 0
    return {'kind': 'nodelist', 'n': n, 'c': c, 'g': g, 'lfs': lfs, 'mem': mem,
            'bc': bc, 'bg': bg, 'ops': ops, 'numa': numa, 'via_pilot': via_pilot, 'idx': idx,
            'same_names': same}


@st.composite
def numa_cases(draw):
    """NUMA-focused: every request is NUMA aware, small ranks, so that domains fill up,
    get released and are re-used (contiguous and interleaved domain numbering)"""
    n = draw(st.integers(1, 3))
    c = draw(st.sampled_from([4, 6, 8, 8]))
    g = draw(st.sampled_from([0, 2, 4]))
    lfs = draw(st.sampled_from([0, 1000]))
    mem = draw(st.sampled_from([0, 1024]))
    ops = []
    for _ in range(draw(st.integers(3, 14))):
        if draw(st.integers(0, 4)) < 4:
            rr = {'n_cores': draw(st.integers(1, max(1, c // 2))),
                  'core_occupation': draw(st.sampled_from([1.0, 1.0, 0.5])),
                  'n_gpus': draw(st.integers(0, min(1, g))),
                  'gpu_occupation': draw(st.sampled_from([1.0, 0.5])),
                  'lfs': draw(st.sampled_from([0, 0, lfs // 4])),
                  'mem': draw(st.sampled_from([0, 0, mem // 4])),
                  'numa': draw(st.integers(0, 5)) > 0}
            ops.append(['find', rr, draw(st.integers(1, 3))])
        else:
            ops.append(['release', draw(st.integers(0, 5))])
    return {'kind': 'nodelist', 'n': n, 'c': c, 'g': g, 'lfs': lfs, 'mem': mem,
            'bc': [], 'bg': [], 'ops': ops, 'numa': draw(st.sampled_from([2, 3, 3]))}


def run_nodelist(case):
    """returns (problems [(prop, sig, msg)], stats)"""
    P = []
    stats = {'finds_ok': 0, 'finds_none': 0, 'finds_invalid': 0, 'releases': 0,
             'shared': 0, 'partial_occ': 0, 'blocked': 0, 'multi_slot': 0,
             'out_of_order': 0, 'numa': 0}
    n, c, g = max(1, case['n']), max(1, case['c']), max(0, case['g'])
    bc = set(i % c for i in case.get('bc', []))
    bg = set(i % g for i in case.get('bg', [])) if g else set()
    if len(bc) >= c:
        bc = set(list(bc)[:c - 1])
    # node indexes as the resource manager assigned them; the list the pilot offers may have lost
    # nodes (an allocated node which does not answer is dropped, agent nodes are taken out)
    idx = [int(k) for k in (case.get('idx') or [])][:n]
    if len(set(idx)) != n or any(k < 0 for k in idx):
        idx = list(range(n))
    if idx != list(range(n)):
        stats['index_gaps'] = 1
    same = bool(case.get('same_names'))
    if same:
        stats['same_names'] = 1
    name_of = {k: ('localhost' if same else 'n%02d' % k) for k in idx}
    raw = [{'name': name_of[i], 'index': i,
            'cores': [rpc.DOWN if k in bc else rpc.FREE for k in range(c)],
            'gpus': [rpc.DOWN if k in bg else rpc.FREE for k in range(g)],
            'lfs': case['lfs'], 'mem': case['mem']} for i in idx]
    if bc or bg:
        stats['blocked'] = 1
    if case.get('numa'):
        # as Pilot.nodelist builds it when the resource manager reports a numa_domain_map
        half = c // 2
        if case['numa'] == 3:
            dmap = {0: NumaDomain(cores=list(range(0, c, 2)), gpus=list(range(0, g, 2))),
                    1: NumaDomain(cores=list(range(1, c, 2)), gpus=list(range(1, g, 2)))}
        else:
            dmap = {0: NumaDomain(cores=list(range(0, half)), gpus=list(range(0, g // 2))),
                    1: NumaDomain(cores=list(range(half, c)), gpus=list(range(g // 2, g)))}
        nl = NodeList(nodes=[NumaNode(copy.deepcopy(r), dmap) for r in raw])
        stats['numa'] = 1
    else:
        nl = NodeList(nodes=[Node(copy.deepcopy(r)) for r in raw])
    nl.verify()

    pilot, pilot_doc = None, None
    if case.get('via_pilot') and not case.get('numa'):
        # the application's way to the node list: a real Pilot which learned the resource
        # details from the agent's PMGR_ACTIVE notification; Pilot.nodelist builds and keeps it
        from . import hollow
        import radical.pilot.states as rps
        sess  = hollow.HollowSession()
        pmgr  = hollow.HollowPmgr(sess)
        pmgr._call_pilot_callbacks = lambda pilot: None     # no manager-level callbacks here
        pilot = hollow.real_pilot(pmgr, 'pilot.0000')
        for st_ in (rps.PMGR_LAUNCHING_PENDING, rps.PMGR_LAUNCHING, rps.PMGR_ACTIVE_PENDING):
            pilot._update({'uid': pilot.uid, 'type': 'pilot', 'state': st_})
        pilot_doc = {'uid': pilot.uid, 'type': 'pilot', 'state': rps.PMGR_ACTIVE,
                     'resources': {'cpu': n * c, 'gpu': n * g,
                                   'rm_info': {'node_list': copy.deepcopy(raw), 'cores_per_node': c,
                                               'gpus_per_node': g, 'numa_domain_map': None}}}
        pilot._update(copy.deepcopy(pilot_doc))
        nl = pilot.nodelist
        if nl is None:
            P.append(('C01', 'nodelist:pilot_offers_no_nodelist', 'Pilot.nodelist is None after ACTIVE'))
            return P, stats
        stats['via_pilot'] = 1

    held = []          # list of slot lists (one per successful find)
    drift = {'seen': False}

    def model():
        cores, gpus, lfs, mem = {}, {}, {}, {}
        for slots in held:
            for s in slots:
                for ro in s.cores:
                    cores[(s.node_index, ro.index)] = cores.get((s.node_index, ro.index), 0.0) + ro.occupation
                for ro in s.gpus:
                    gpus[(s.node_index, ro.index)] = gpus.get((s.node_index, ro.index), 0.0) + ro.occupation
                lfs[s.node_index] = lfs.get(s.node_index, 0) + s.lfs
                mem[s.node_index] = mem.get(s.node_index, 0) + s.mem
        return cores, gpus, lfs, mem

    def compare(where):
        cores, gpus, lfs, mem = model()
        # what the held slots claim (independent of the implementation's own books)
        for (i, k), m in sorted(cores.items()):
            if m > 1.0 + EPS:
                P.append(('C01', 'nodelist:core_oversubscribed', '%s node %d core %d: held slots sum to %.3f'
                          % (where, i, k, m)))
                return False
        for (i, k), m in sorted(gpus.items()):
            if m > 1.0 + EPS:
                P.append(('C01', 'nodelist:gpu_oversubscribed', '%s node %d gpu %d: held slots sum to %.3f'
                          % (where, i, k, m)))
                return False
        if drift['seen']:
            return True        # books already differ: only the model-level clauses above go on
        for node in nl.nodes:
            i = node.index
            for ro in node.cores:
                if ro.index in bc:
                    if ro.occupation is not rpc.DOWN:
                        P.append(('C01', 'nodelist:blocked_core_touched', '%s node %d core %d -> %s'
                                  % (where, i, ro.index, ro.occupation)))
                    continue
                m = cores.get((i, ro.index), 0.0)
                if m > 1.0 + EPS:
                    P.append(('C01', 'nodelist:core_oversubscribed', '%s node %d core %d: %.3f'
                              % (where, i, ro.index, m)))
                if abs((ro.occupation or 0.0) - m) > 1e-6:
                    P.append(('C03', 'nodelist:core_occupancy_drift', '%s node %d core %d: real %s model %.3f'
                              % (where, i, ro.index, ro.occupation, m)))
                    drift['seen'] = True
                    return True
            for ro in node.gpus:
                if ro.index in bg:
                    if ro.occupation is not rpc.DOWN:
                        P.append(('C01', 'nodelist:blocked_gpu_touched', '%s node %d gpu %d -> %s'
                                  % (where, i, ro.index, ro.occupation)))
                    continue
                m = gpus.get((i, ro.index), 0.0)
                if m > 1.0 + EPS:
                    P.append(('C01', 'nodelist:gpu_oversubscribed', '%s node %d gpu %d: %.3f'
                              % (where, i, ro.index, m)))
                if abs((ro.occupation or 0.0) - m) > 1e-6:
                    P.append(('C03', 'nodelist:gpu_occupancy_drift', '%s node %d gpu %d: real %s model %.3f'
                              % (where, i, ro.index, ro.occupation, m)))
                    drift['seen'] = True
                    return True
            if lfs.get(i, 0) > case['lfs']:
                P.append(('C01', 'nodelist:lfs_oversubscribed', '%s node %d: %d > %d'
                          % (where, i, lfs.get(i, 0), case['lfs'])))
            if mem.get(i, 0) > case['mem']:
                P.append(('C01', 'nodelist:mem_oversubscribed', '%s node %d: %d > %d'
                          % (where, i, mem.get(i, 0), case['mem'])))
            if node.lfs != case['lfs'] - lfs.get(i, 0):
                P.append(('C03', 'nodelist:lfs_drift', '%s node %d: real %s model %s'
                          % (where, i, node.lfs, case['lfs'] - lfs.get(i, 0))))
                drift['seen'] = True
                return True
            if node.mem != case['mem'] - mem.get(i, 0):
                P.append(('C03', 'nodelist:mem_drift', '%s node %d: real %s model %s'
                          % (where, i, node.mem, case['mem'] - mem.get(i, 0))))
                drift['seen'] = True
                return True
        return True

    for op in case['ops']:
        if op[0] == 'pilot_update':
            if pilot is None:
                continue
            # the agent's ACTIVE notification arrives again (the pilot manager hands repeated
            # notifications on to the Pilot); the application keeps using pilot.nodelist
            pilot._update(copy.deepcopy(pilot_doc))
            nl = pilot.nodelist
            stats['pilot_updates'] = stats.get('pilot_updates', 0) + (1 if held else 0)
            if nl is None:
                P.append(('C01', 'nodelist:pilot_offers_no_nodelist', 'after a repeated notification'))
                break
            if not compare('after repeated pilot notification'):
                break
            continue
        if op[0] == 'find':
            rrd, ns = op[1], max(1, int(op[2]))
            rr = RankRequirements(n_cores=rrd['n_cores'], core_occupation=rrd['core_occupation'],
                                  n_gpus=rrd['n_gpus'], gpu_occupation=rrd['gpu_occupation'],
                                  lfs=rrd['lfs'], mem=rrd['mem'],
                                  numa=bool(rrd.get('numa') and case.get('numa')))
            numa_req = bool(rrd.get('numa') and case.get('numa'))
            impossible = (rrd['n_cores'] < 1 or rrd['n_cores'] > c or rrd['n_gpus'] > g or
                          rrd['lfs'] > case['lfs'] or rrd['mem'] > case['mem'])
            try:
                slots = nl.find_slots(rr, n_slots=ns)
            except ValueError:
                stats['finds_invalid'] += 1
                slots = None
                if not compare('after rejected find'):
                    break
                continue
            except Exception as e:          # noqa
                if not drift.get('raised'):
                    P.append(('C02', exc_sig('nodelist:find_slots_raised', e), repr(e)))
                drift['raised'] = drift['seen'] = True     # books unreliable from here on
                continue
            if slots is None:
                stats['finds_none'] += 1
                if not compare('after failed find'):
                    break
                continue
            if impossible:
                P.append(('C02', 'nodelist:impossible_request_granted', '%s x%d -> %s' % (rrd, ns, slots)))
            stats['finds_ok'] += 1
            if ns > 1:
                stats['multi_slot'] += 1
            if rrd['core_occupation'] < 1 or (rrd['n_gpus'] and rrd['gpu_occupation'] < 1):
                stats['partial_occ'] += 1
            if held:
                stats['shared'] += 1
            # ---- C02 shape
            if len(slots) != ns:
                P.append(('C02', 'nodelist:slot_count', 'asked %d got %d' % (ns, len(slots))))
            for s in slots:
                if s.node_index not in name_of or \
                        (name_of[s.node_index] != s.node_name and not numa_req):
                    P.append(('C02', 'nodelist:slot_node_invalid', str(s)))
                if numa_req and (len(ci) if False else True):
                    half = c // 2
                    if case['numa'] == 3:
                        doms = set(ro.index % 2 for ro in s.cores)
                    else:
                        doms = set(0 if ro.index < half else 1 for ro in s.cores)
                    if len(doms) > 1:
                        P.append(('C02', 'nodelist:numa_slot_spans_domains', str(s)))
                ci = [ro.index for ro in s.cores]
                gi = [ro.index for ro in s.gpus]
                if len(ci) != rrd['n_cores'] or len(set(ci)) != len(ci) or \
                        any(abs(ro.occupation - rrd['core_occupation']) > EPS for ro in s.cores):
                    P.append(('C02', 'nodelist:slot_cores', 'asked %s got %s' % (rrd, s.cores)))
                if len(gi) != rrd['n_gpus'] or len(set(gi)) != len(gi) or \
                        any(abs(ro.occupation - rrd['gpu_occupation']) > EPS for ro in s.gpus):
                    P.append(('C02', 'nodelist:slot_gpus', 'asked %s got %s' % (rrd, s.gpus)))
                if s.lfs != rrd['lfs'] or s.mem != rrd['mem']:
                    P.append(('C02', 'nodelist:slot_lfs_mem', 'asked %s got %s/%s' % (rrd, s.lfs, s.mem)))
                if any(i in bc for i in ci):
                    P.append(('C01', 'nodelist:blocked_core_granted', str(s)))
                if any(i in bg for i in gi):
                    P.append(('C01', 'nodelist:blocked_gpu_granted', str(s)))
            held.append(slots)
            if not compare('after find'):
                break
        elif op[0] == 'release':
            if not held:
                continue
            k = int(op[1]) % len(held)
            if k != 0:
                stats['out_of_order'] += 1
            slots = held.pop(k)
            try:
                nl.release_slots(slots)
            except Exception as e:      # noqa
                P.append(('C03', exc_sig('nodelist:release_raised', e), repr(e)))
                break
            stats['releases'] += 1
            if not compare('after release'):
                break
    else:
        # give everything back: capacity must equal the initial one
        while held:
            nl.release_slots(held.pop())
            stats['releases'] += 1
        compare('after releasing everything')
    return P, stats


# ------------------------------------------------------------------------------
# application threads placing through the same node list at the same time
#
@st.composite
def mt_cases(draw):
    c = draw(st.sampled_from([2, 4, 4, 8]))
    g = draw(st.sampled_from([0, 1, 2]))
    reqs = []
    for _ in range(draw(st.integers(2, 3))):
        reqs.append({'n_cores': draw(st.integers(1, c)), 'core_occupation': draw(st.sampled_from([1.0, 1.0, 0.5])),
                     'n_gpus': draw(st.integers(0, g)), 'gpu_occupation': draw(st.sampled_from([1.0, 0.5])),
                     'lfs': draw(st.sampled_from([0, 0, 60])), 'mem': draw(st.sampled_from([0, 0, 70])),
                     'n_slots': draw(st.integers(1, 2))})
    return {'kind': 'nodelist_mt', 'n': draw(st.integers(1, 3)), 'c': c, 'g': g, 'lfs': 100, 'mem': 128,
            'reqs': reqs, 'sched': draw(st.lists(st.integers(0, 2), min_size=0, max_size=40))}


def run_nodelist_mt(case):
    """two or three threads call NodeList.find_slots concurrently (the application places tasks
    from its main thread and from callbacks); thread switches happen where a node lock is taken
    or given up.  -> problems [(prop, sig, msg)]"""
    from .detsched import Baton
    from .execsim import FakeLock
    P = []
    n, c, g = max(1, int(case['n'])), max(1, int(case['c'])), max(0, int(case['g']))
    raw = [{'name': 'n%02d' % i, 'index': i, 'cores': [rpc.FREE] * c, 'gpus': [rpc.FREE] * g,
            'lfs': case['lfs'], 'mem': case['mem']} for i in range(n)]
    nl = NodeList(nodes=[Node(copy.deepcopy(r)) for r in raw])
    nl.verify()
    baton = Baton()
    for node in nl.nodes:
        node.__lock__ = FakeLock(baton, 'node%d' % node.index, reentrant=True)
    got = {}

    def worker(k, rrd):
        def fn():
            rr = RankRequirements(n_cores=rrd['n_cores'], core_occupation=rrd['core_occupation'],
                                  n_gpus=rrd['n_gpus'], gpu_occupation=rrd['gpu_occupation'],
                                  lfs=rrd['lfs'], mem=rrd['mem'])
            try:
                got[k] = nl.find_slots(rr, n_slots=max(1, int(rrd.get('n_slots') or 1)))
            except ValueError:
                got[k] = None
        return fn

    names = []
    for k, rrd in enumerate(case.get('reqs') or []):
        names.append('app%d' % k)
        baton.spawn(names[-1], worker(k, rrd))
    try:
        sched = list(case.get('sched') or [])
        steps = 0
        while steps < 2000:
            live = [x for x in names if not baton.threads[x].done]
            if not live:
                break
            pick = live[(sched.pop(0) if sched else 0) % len(live)]
            baton.resume(pick)
            steps += 1
        for x in names:
            ct = baton.threads[x]
            if ct.done and ct.exc is not None:
                P.append(('C01', exc_sig('nodelist_mt:find_slots_raised', ct.exc), repr(ct.exc)))
    finally:
        try:
            baton.finish_all()
        except Exception:
            pass
    cores, gpus, lfs, mem = {}, {}, {}, {}
    for k, slots in got.items():
        for s in slots or []:
            for ro in s.cores:
                cores[(s.node_index, ro.index)] = cores.get((s.node_index, ro.index), 0.0) + ro.occupation
            for ro in s.gpus:
                gpus[(s.node_index, ro.index)] = gpus.get((s.node_index, ro.index), 0.0) + ro.occupation
            lfs[s.node_index] = lfs.get(s.node_index, 0) + s.lfs
            mem[s.node_index] = mem.get(s.node_index, 0) + s.mem
    for (i, k), m in sorted(cores.items()):
        if m > 1.0 + EPS:
            P.append(('C01', 'nodelist_mt:core_oversubscribed', 'node %d core %d: placements made at the '
                      'same time sum to %.2f' % (i, k, m)))
            break
    for (i, k), m in sorted(gpus.items()):
        if m > 1.0 + EPS:
            P.append(('C01', 'nodelist_mt:gpu_oversubscribed', 'node %d gpu %d: %.2f' % (i, k, m)))
            break
    for i, v in lfs.items():
        if v > case['lfs']:
            P.append(('C01', 'nodelist_mt:lfs_oversubscribed', 'node %d: %d > %d' % (i, v, case['lfs'])))
    for i, v in mem.items():
        if v > case['mem']:
            P.append(('C01', 'nodelist_mt:mem_oversubscribed', 'node %d: %d > %d' % (i, v, case['mem'])))
    stats = {'granted': sum(1 for v in got.values() if v), 'threads': len(names)}
    return P, stats
