"""memnet: in-memory, harness-scheduled replacement for ru.zmq Putter / Getter /
Publisher / Subscriber / RegistryClient (DESIGN.md 3.3).

Soundness: per-FIFO order preserved; payloads are msgpack round-tripped (what
ru.zmq does), so aliasing between sender and receivers cannot fake or hide
bugs and unserialisable payloads fail as in production.
"""
import collections

import radical.utils as ru
from radical.utils.serialize import to_msgpack, from_msgpack


def wire_copy(x):
    return from_msgpack(to_msgpack(x))


# ------------------------------------------------------------------------------
class Net(object):

    def __init__(self, auto=True):
        self.auto       = auto   # deliver pubsub messages synchronously on put
        self.queues     = {}     # channel -> {qname: deque of things}
        self.pubsubs    = {}     # pubsub url key -> list of FakeSubscriber
        self.fifos      = []     # all subscriber FIFOs (harness-scheduled mode)
        self.log        = []     # event log: ('put', channel, qname, things) / ('pub', key, topic, msg)
        self.registries = {}     # url -> dict
        self._delivering = False
        self._pending    = collections.deque()

    # -- bridges ------------------------------------------------------------
    def add_queue(self, name, ns=''):
        key = 'memq://%s/%s' % (ns, name)
        self.queues.setdefault(key, collections.defaultdict(collections.deque))
        return {'addr_put': key, 'addr_get': key}

    def add_pubsub(self, name, ns=''):
        key = 'memps://%s/%s' % (ns, name)
        self.pubsubs.setdefault(key, [])
        return {'addr_pub': key, 'addr_sub': key}

    def registry(self, url):
        return self.registries.setdefault(url, {})

    # -- queue ops ----------------------------------------------------------
    def q_put(self, url, qname, things):
        things = wire_copy(ru.as_list(things))
        self.log.append(('put', url, qname, things))
        self.queues[url][qname].extend(things)

    def q_get(self, url, qname, n=None):
        q = self.queues[url][qname]
        out = []
        while q and (n is None or len(out) < n):
            out.append(q.popleft())
        return out

    def q_len(self, url=None):
        tot = 0
        for u, qs in self.queues.items():
            if url and u != url:
                continue
            tot += sum(len(q) for q in qs.values())
        return tot

    def q_peek(self, url, qname='default'):
        return list(self.queues[url][qname])

    # -- pubsub ops ---------------------------------------------------------
    def publish(self, url, topic, msg):
        msg = wire_copy(msg)
        self.log.append(('pub', url, topic, msg))
        for sub in list(self.pubsubs.get(url, [])):
            sub._enqueue(topic, wire_copy(msg))
        if self.auto:
            self.drain()

    def drain(self, limit=100000):
        """deliver everything pending in global FIFO order (auto mode)"""
        if self._delivering:
            return
        self._delivering = True
        try:
            n = 0
            while self._pending:
                sub = self._pending.popleft()
                sub.deliver_one()
                n += 1
                if n > limit:
                    raise RuntimeError('memnet: no quiescence after %d deliveries' % limit)
        finally:
            self._delivering = False

    def enabled_fifos(self):
        return [s for s in self.fifos if s.fifo]

    def pending(self):
        return sum(len(s.fifo) for s in self.fifos)


# ------------------------------------------------------------------------------
class Fakes(object):
    """factory of ru.zmq replacement classes bound to one Net"""

    def __init__(self, net):
        self.net = net
        fakes = self

        class Putter(object):
            def __init__(self, channel, url=None, log=None, prof=None, path=None):
                self._channel = channel
                self._url     = url
                assert url in fakes.net.queues, 'unknown queue %s' % url

            channel = property(lambda s: s._channel)
            name    = property(lambda s: s._channel)
            uid     = property(lambda s: s._channel)

            def put(self, msgs, qname=None):
                fakes.net.q_put(self._url, qname or 'default', msgs)

        class Getter(object):
            def __init__(self, channel, url=None, cb=None, log=None, prof=None,
                         path=None):
                self._channel = channel
                self._url     = url
                self._cb      = cb
                assert url in fakes.net.queues, 'unknown queue %s' % url

            channel = property(lambda s: s._channel)
            name    = property(lambda s: s._channel)
            uid     = property(lambda s: s._channel)

            def get_nowait(self, qname=None, timeout=None):
                return fakes.net.q_get(self._url, qname or 'default') or None

            def get(self, qname=None):
                return fakes.net.q_get(self._url, qname or 'default') or None

            def subscribe(self, cb, lock=None):
                self._cb = cb

            def unsubscribe(self, cb):
                self._cb = None

            def stop(self):
                pass

        class Publisher(object):
            def __init__(self, channel, url=None, log=None, prof=None, path=None):
                self._channel = channel
                self._url     = url
                assert url in fakes.net.pubsubs, 'unknown pubsub %s' % url

            channel = property(lambda s: s._channel)
            name    = property(lambda s: s._channel)
            uid     = property(lambda s: s._channel)
            url     = property(lambda s: s._url)

            def put(self, topic, msg):
                assert isinstance(topic, str), 'invalid topic type'
                fakes.net.publish(self._url, topic.replace(' ', '_'), msg)

        class Subscriber(object):
            def __init__(self, channel, url=None, topic=None, cb=None,
                         log=None, prof=None, path=None):
                self._channel = channel
                self._url     = url
                self._topics  = []
                self._cbs     = []
                self.fifo     = collections.deque()
                self.stopped  = False
                assert url in fakes.net.pubsubs, 'unknown pubsub %s' % url
                fakes.net.pubsubs[url].append(self)
                fakes.net.fifos.append(self)
                if topic and cb:
                    self.subscribe(topic, cb)

            channel = property(lambda s: s._channel)
            name    = property(lambda s: s._channel)
            uid     = property(lambda s: s._channel)
            url     = property(lambda s: s._url)

            def subscribe(self, topic, cb=None, lock=None):
                for t in ru.as_list(topic):
                    t = t.replace(' ', '_')
                    if t not in self._topics:
                        self._topics.append(t)
                if cb:
                    self._cbs.append((cb, lock))

            def unsubscribe(self, cb):
                self._cbs = [(c, l) for c, l in self._cbs if c != cb]

            def stop(self):
                self.stopped = True

            def _enqueue(self, topic, msg):
                if self.stopped:
                    return
                # zmq SUB semantics: prefix match on the topic
                if not any(topic.startswith(t) for t in self._topics):
                    return
                self.fifo.append((topic, msg))
                fakes.net._pending.append(self)

            def deliver_one(self):
                if not self.fifo:
                    return False
                topic, msg = self.fifo.popleft()
                for cb, lock in list(self._cbs):
                    # ru.zmq.Subscriber._listener: callback errors are logged
                    # and swallowed; keep them observable for oracles
                    try:
                        if lock:
                            with lock:
                                cb(topic, msg)
                        else:
                            cb(topic, msg)
                    except SystemExit:
                        self.stopped = True
                        break
                    except Exception as e:   # noqa
                        fakes.net.log.append(('cb_error', self._url, topic, e))
                return True

        class RegistryClient(object):
            def __init__(self, url, pwd=None):
                self._url  = url
                self._pwd  = pwd
                self._data = fakes.net.registry(url)

            def _key(self, key):
                return (self._pwd + '.' + key) if self._pwd else key

            def get(self, key, default=None):
                cur = self._data
                for k in self._key(key).split('.'):
                    if not isinstance(cur, dict) or k not in cur:
                        return default
                    cur = cur[k]
                return wire_copy(cur)

            def put(self, key, val):
                val = wire_copy(val)
                cur = self._data
                ks  = self._key(key).split('.')
                for k in ks[:-1]:
                    nxt = cur.get(k)
                    if not isinstance(nxt, dict):
                        nxt = cur[k] = {}
                    cur = nxt
                cur[ks[-1]] = val

            def __getitem__(self, key):
                return self.get(key)

            def __setitem__(self, key, val):
                self.put(key, val)

            def __delitem__(self, key):
                cur = self._data
                ks  = self._key(key).split('.')
                for k in ks[:-1]:
                    cur = cur.get(k, {})
                cur.pop(ks[-1], None)

            def __contains__(self, key):
                return self.get(key) is not None

            def keys(self):
                cur = self._data
                if self._pwd:
                    for k in self._pwd.split('.'):
                        cur = cur.get(k, {})
                return list(cur.keys())

            def dump(self, name=None):
                pass

            def close(self):
                pass

        self.Putter, self.Getter = Putter, Getter
        self.Publisher, self.Subscriber = Publisher, Subscriber
        self.RegistryClient = RegistryClient

    # --------------------------------------------------------------------------
    _SAVED = None

    def install(self):
        """replace ru.zmq.* in the harness process"""
        import radical.utils.zmq as rz
        if Fakes._SAVED is None:
            Fakes._SAVED = {n: getattr(rz, n) for n in
                            ('Putter', 'Getter', 'Publisher', 'Subscriber',
                             'RegistryClient')}
        for n in Fakes._SAVED:
            setattr(rz, n, getattr(self, n))
        return self

    @staticmethod
    def uninstall():
        import radical.utils.zmq as rz
        if Fakes._SAVED:
            for n, v in Fakes._SAVED.items():
                setattr(rz, n, v)
